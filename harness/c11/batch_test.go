package c11

import (
	"errors"
	"fmt"
	"os"
	"path/filepath"
	"sort"
	"sync"
	"testing"
	"time"

	"github.com/btcsuite/btcwallet/walletdb"

	"pgregory.net/rapid"

	"verifharness/internal/evid"
)

// TestC11ConcurrentBatch: walletdb.Batch is the managed update that several
// goroutines may share - the backend may run their functions inside one write
// transaction and re-run them when one of them fails. Each caller still gets
// the all-or-nothing contract of a managed update: a call that returns nil has
// all of its writes in the database (now and after reopening), a call that
// returns its function's error has none.
//
// Generator: 2-9 callers, each writing 1-3 keys of its own into a shared
// bucket (and some into a nested bucket of their own); a drawn subset returns
// an error after its writes; start times are staggered by 0-3 ms so that some
// calls share a batch and some do not (which ones do is up to the scheduler:
// the oracle does not depend on it). Functions may run more than once, so they
// are idempotent.
func TestC11ConcurrentBatch(t *testing.T) {
	g := evid.G("TestC11ConcurrentBatch")
	rapid.Check(t, func(t *rapid.T) {
		c := g.Begin()
		defer c.End()
		dir, err := os.MkdirTemp("/dev/shm", "verif-c11b-")
		if err != nil {
			t.Fatalf("INCONCLUSIVE: %v", err)
		}
		defer os.RemoveAll(dir)
		path := filepath.Join(dir, "b.db")
		db, err := walletdb.Create("bdb", path, true, 10*time.Second, false)
		if err != nil {
			t.Fatalf("INCONCLUSIVE: %v", err)
		}
		closed := false
		defer func() {
			if !closed {
				db.Close()
			}
		}()
		top := []byte("shared")
		if err := walletdb.Update(db, func(tx walletdb.ReadWriteTx) error {
			_, err := tx.CreateTopLevelBucket(top)
			return err
		}); err != nil {
			t.Fatalf("INCONCLUSIVE: %v", err)
		}
		rounds := rapid.IntRange(1, 3).Draw(t, "rounds")
		want := map[string]string{} // key -> value expected in the shared bucket
		gone := map[string]bool{}   // keys that must be absent
		nFail, nOK := 0, 0
		for r := 0; r < rounds; r++ {
			n := rapid.IntRange(2, 9).Draw(t, "callers")
			type caller struct {
				keys   []string
				nested bool
				fail   bool
				delay  time.Duration
				runs   int
				err    error
			}
			cs := make([]*caller, n)
			for i := range cs {
				cl := &caller{fail: rapid.IntRange(0, 3).Draw(t, "fails") == 0, nested: rapid.Bool().Draw(t, "nested"),
					delay: time.Duration(rapid.IntRange(0, 3000).Draw(t, "delayUs")) * time.Microsecond}
				for k := 0; k < rapid.IntRange(1, 3).Draw(t, "keys"); k++ {
					cl.keys = append(cl.keys, fmt.Sprintf("r%dc%dk%d", r, i, k))
				}
				cs[i] = cl
				c.Logf("round %d caller %d: keys %v nested=%v fails=%v delay=%v", r, i, cl.keys, cl.nested, cl.fail, cl.delay)
			}
			var wg sync.WaitGroup
			start := make(chan struct{})
			for i, cl := range cs {
				wg.Add(1)
				go func(i int, cl *caller) {
					defer wg.Done()
					<-start
					time.Sleep(cl.delay)
					myErr := fmt.Errorf("caller %d gives up", i)
					cl.err = walletdb.Batch(db, func(tx walletdb.ReadWriteTx) error {
						cl.runs++
						b := tx.ReadWriteBucket(top)
						if b == nil {
							return errors.New("shared bucket missing")
						}
						for _, k := range cl.keys {
							if err := b.Put([]byte(k), []byte("v-"+k)); err != nil {
								return err
							}
						}
						if cl.nested {
							nb, err := b.CreateBucketIfNotExists([]byte("n-" + cl.keys[0]))
							if err != nil {
								return err
							}
							if err := nb.Put([]byte("inner"), []byte(cl.keys[0])); err != nil {
								return err
							}
						}
						if cl.fail {
							return myErr
						}
						return nil
					})
					if cl.fail && cl.err != nil && !errors.Is(cl.err, myErr) && cl.err.Error() != myErr.Error() {
						cl.err = fmt.Errorf("foreign error: %w", cl.err)
					}
				}(i, cl)
			}
			done := make(chan struct{})
			go func() { wg.Wait(); close(done) }()
			close(start)
			select {
			case <-done:
			case <-time.After(60 * time.Second):
				t.Fatalf("C11 VIOLATED: concurrent Batch calls did not return within 60s (database unusable)\ncase:\n%s", c.Text())
			}
			reruns := 0
			for i, cl := range cs {
				if cl.runs > 1 {
					reruns++
				}
				switch {
				case cl.fail && cl.err == nil:
					t.Fatalf("C11 VIOLATED: round %d caller %d: the function returned an error but Batch returned nil\ncase:\n%s", r, i, c.Text())
				case cl.fail:
					nFail++
					for _, k := range cl.keys {
						gone[k] = true
					}
					if cl.nested {
						gone["n-"+cl.keys[0]] = true
					}
				case cl.err != nil:
					t.Fatalf("C11 VIOLATED: round %d caller %d: the function returned nil but Batch returned %v\ncase:\n%s", r, i, cl.err, c.Text())
				default:
					nOK++
					for _, k := range cl.keys {
						want[k] = "v-" + k
					}
					if cl.nested {
						want["n-"+cl.keys[0]] = "<bucket:" + cl.keys[0] + ">"
					}
				}
			}
			if reruns > 0 {
				c.Class("function-run-more-than-once")
			}
			verify := func(where string) {
				got := map[string]string{}
				err := walletdb.View(db, func(tx walletdb.ReadTx) error {
					b := tx.ReadBucket(top)
					if b == nil {
						return errors.New("shared bucket missing")
					}
					return b.ForEach(func(k, v []byte) error {
						if v == nil {
							nb := b.NestedReadBucket(k)
							if nb == nil {
								got[string(k)] = "<nil value, no bucket>"
							} else {
								got[string(k)] = "<bucket:" + string(nb.Get([]byte("inner"))) + ">"
							}
						} else {
							got[string(k)] = string(v)
						}
						return nil
					})
				})
				if err != nil {
					t.Fatalf("C11 VIOLATED: [%s] reading the shared bucket failed: %v\ncase:\n%s", where, err, c.Text())
				}
				var keys []string
				for k := range want {
					keys = append(keys, k)
				}
				sort.Strings(keys)
				for _, k := range keys {
					if got[k] != want[k] {
						t.Fatalf("C11 VIOLATED: [%s] a Batch call returned nil but its write %q is %q in the database, want %q\ncase:\n%s", where, k, got[k], want[k], c.Text())
					}
				}
				for k := range got {
					if gone[k] {
						t.Fatalf("C11 VIOLATED: [%s] a Batch call returned its function's error but its write %q is in the database\ncase:\n%s", where, k, c.Text())
					}
					if _, ok := want[k]; !ok {
						t.Fatalf("C11 VIOLATED: [%s] key %q in the database was written by no successful call\ncase:\n%s", where, k, c.Text())
					}
				}
			}
			verify(fmt.Sprintf("after round %d", r))
			if rapid.Bool().Draw(t, "reopen") {
				if err := db.Close(); err != nil {
					t.Fatalf("C11 VIOLATED: Close failed: %v\ncase:\n%s", err, c.Text())
				}
				db, err = walletdb.Open("bdb", path, true, 10*time.Second, false)
				if err != nil {
					closed = true
					t.Fatalf("C11 VIOLATED: reopening failed: %v\ncase:\n%s", err, c.Text())
				}
				verify(fmt.Sprintf("after round %d, reopened", r))
				c.Class("reopened")
			}
		}
		if nFail > 0 && nOK > 0 {
			c.Class("failing-and-successful-callers")
			c.NonTrivial()
		}
		if nFail == 0 {
			c.Class("all-callers-succeed")
		}
	})
}

package c11

import (
	"fmt"
	"math/bits"
	"sort"
	"strings"

	"github.com/btcsuite/btcwallet/walletdb"
	"pgregory.net/rapid"

	"verifharness/internal/dbmodel"
)

// ---------------------------------------------------------------------------
// entropy sources: rapid (property test) and raw bytes (native fuzzing) feed
// the same grammar.

type src interface {
	// Intn returns a number in [0,n).
	Intn(n int, label string) int
}

// rapidSrc draws unbiased numbers from single bits (rapid's integer
// generators are deliberately biased towards small values, which would skew
// every weighted choice of the grammar).
type rapidSrc struct{ t *rapid.T }

func (r rapidSrc) Intn(n int, label string) int {
	if n <= 1 {
		return 0
	}
	k := bits.Len(uint(n - 1))
	for {
		v := 0
		for i := 0; i < k; i++ {
			v <<= 1
			if rapid.Bool().Draw(r.t, label) {
				v |= 1
			}
		}
		if v < n {
			return v
		}
	}
}

// byteSrc decodes from fuzz input: one byte per choice (two when n > 256);
// exhausted input yields 0, so every byte string is a valid (finite) plan.
type byteSrc struct {
	data []byte
	pos  int
}

func (b *byteSrc) Intn(n int, _ string) int {
	if n <= 1 {
		return 0
	}
	if b.pos >= len(b.data) {
		return 0
	}
	v := int(b.data[b.pos])
	b.pos++
	if n > 256 {
		if b.pos < len(b.data) {
			v = v<<8 | int(b.data[b.pos])
			b.pos++
		}
	}
	return v % n
}

// recSrc records the choices of another source in byteSrc's encoding (used to
// build the fuzz seed corpus from generated plans).
type recSrc struct {
	in  src
	out []byte
}

func (r *recSrc) Intn(n int, label string) int {
	v := r.in.Intn(n, label)
	if n <= 1 {
		return v
	}
	if n > 256 {
		r.out = append(r.out, byte(v>>8), byte(v))
	} else {
		r.out = append(r.out, byte(v))
	}
	return v
}

// lcgSrc is a fixed deterministic source for building seed corpora.
type lcgSrc struct{ x uint64 }

func (l *lcgSrc) Intn(n int, _ string) int {
	if n <= 1 {
		return 0
	}
	l.x = l.x*6364136223846793005 + 1442695040888963407
	return int((l.x >> 33) % uint64(n))
}

// weighted picks an index with probability proportional to its weight.
func weighted(s src, label string, w ...int) int {
	tot := 0
	for _, x := range w {
		tot += x
	}
	if tot <= 0 {
		return 0
	}
	r := s.Intn(tot, label)
	for i, x := range w {
		if r < x {
			return i
		}
		r -= x
	}
	return len(w) - 1
}

// ---------------------------------------------------------------------------
// plan

type txKind int

const (
	kUpdate       txKind = iota // walletdb.Update(db, f)
	kUpdateDirect               // db.Update(f, reset)
	kView                       // walletdb.View(db, f)
	kViewDirect                 // db.View(f, reset)
	kBatch                      // walletdb.Batch(db, f)
	kManualRW                   // BeginReadWriteTx + Commit/Rollback
	kManualRO                   // BeginReadTx + Rollback
)

var txKindNames = []string{"Update", "db.Update", "View", "db.View", "Batch", "BeginReadWriteTx", "BeginReadTx"}

func (k txKind) readOnly() bool { return k == kView || k == kViewDirect || k == kManualRO }
func (k txKind) managed() bool  { return k != kManualRW && k != kManualRO }

type outcome int

const (
	oNil   outcome = iota // return nil / Commit
	oErr                  // return an error / Rollback
	oPanic                // panic
)

var outcomeNames = []string{"nil", "error", "panic"}

type opKind int

const (
	opPut opKind = iota
	opGet
	opDelete
	opCreateBucket
	opCreateIfNot
	opDeleteNested
	opCreateTop
	opDeleteTop
	opSeqGet
	opSeqNext
	opSeqSet
	opForEach
	opCursor
	opTopList
	opDump
	opROWrite
	opBulkPut    // several keys with mid-sized values into one bucket (makes multi-page buckets)
	opBulkDelete // a contiguous range of those keys
)

var opNames = []string{"put", "get", "delete", "createBucket", "createBucketIfNotExists", "deleteNestedBucket",
	"createTopLevel", "deleteTopLevel", "sequence", "nextSequence", "setSequence", "forEach", "cursor",
	"forEachBucket", "dump", "writeThroughReadTx", "bulkPut", "bulkDelete"}

type roWriteKind int

const (
	rowPut roWriteKind = iota
	rowDelete
	rowDeleteNested
	rowCreateBucket
	rowCreateIfNot
	rowNextSeq
	rowSetSeq
	rowCursorDelete
	rowCreateTop
	rowDeleteTop
	nRowKinds
)

var rowNames = []string{"Put", "Delete", "DeleteNestedBucket", "CreateBucket", "CreateBucketIfNotExists",
	"NextSequence", "SetSequence", "cursor.Delete", "CreateTopLevelBucket", "DeleteTopLevelBucket"}

type moveKind int

const (
	mvFirst moveKind = iota
	mvLast
	mvNext
	mvPrev
	mvSeek
	mvDelete
	mvScanFwd
	mvScanBack
)

var moveNames = []string{"First", "Last", "Next", "Prev", "Seek", "Delete", "ScanForward", "ScanBackward"}

type move struct {
	Kind moveKind
	Key  []byte
}

type op struct {
	Kind    opKind
	Path    []string // bucket the operation addresses (top level first)
	Key     []byte
	Val     []byte
	Seq     uint64
	Moves   []move
	UseRead bool // reach the bucket through ReadBucket/NestedReadBucket even in a write transaction
	Row     roWriteKind
	UseRet  bool // createBucket*: write a key through the returned handle straight away
	Lo, N   int  // bulk operations: keys <Key><Lo> .. <Key><Lo+N-1> (two decimal digits)
}

func bulkKey(prefix []byte, i int) []byte { return []byte(fmt.Sprintf("%s%02d", prefix, i)) }

type txPlan struct {
	Kind     txKind
	Outcome  outcome
	Ops      []op // for a failing function: the operations performed before the failure
	OnCommit bool
	Reopen   bool // close and reopen the file after this transaction
	ClosedOp int  // manual transactions: what to try on the closed transaction (bit 0 Commit, bit 1 Rollback); bit 2: a read-write transaction is ended through a top-level bucket's Tx() handle
}

func pathStr(p []string) string {
	if len(p) == 0 {
		return "/"
	}
	var sb strings.Builder
	for _, c := range p {
		sb.WriteByte('/')
		sb.WriteString(dbmodel.Short([]byte(c)))
	}
	return sb.String()
}

func (o *op) String() string {
	switch o.Kind {
	case opPut:
		return fmt.Sprintf("put %s %s = %s", pathStr(o.Path), dbmodel.Short(o.Key), dbmodel.Short(o.Val))
	case opGet, opDelete:
		return fmt.Sprintf("%s %s %s read=%v", opNames[o.Kind], pathStr(o.Path), dbmodel.Short(o.Key), o.UseRead)
	case opCreateBucket, opCreateIfNot:
		return fmt.Sprintf("%s %s name %s useReturned=%v", opNames[o.Kind], pathStr(o.Path), dbmodel.Short(o.Key), o.UseRet)
	case opDeleteNested:
		return fmt.Sprintf("%s %s name %s", opNames[o.Kind], pathStr(o.Path), dbmodel.Short(o.Key))
	case opCreateTop, opDeleteTop:
		return fmt.Sprintf("%s %s", opNames[o.Kind], dbmodel.Short(o.Key))
	case opSeqSet:
		return fmt.Sprintf("setSequence %s %d", pathStr(o.Path), o.Seq)
	case opCursor:
		var sb strings.Builder
		for _, m := range o.Moves {
			if m.Kind == mvSeek {
				fmt.Fprintf(&sb, " Seek(%s)", dbmodel.Short(m.Key))
			} else {
				sb.WriteString(" " + moveNames[m.Kind])
			}
		}
		return fmt.Sprintf("cursor %s read=%v:%s", pathStr(o.Path), o.UseRead, sb.String())
	case opROWrite:
		return fmt.Sprintf("writeThroughReadTx %s %s key %s", rowNames[o.Row], pathStr(o.Path), dbmodel.Short(o.Key))
	case opTopList, opDump:
		return opNames[o.Kind]
	case opBulkPut:
		return fmt.Sprintf("bulkPut %s keys %s00..%s%02d values of %d bytes", pathStr(o.Path), o.Key, o.Key, o.Lo+o.N-1, len(o.Val))
	case opBulkDelete:
		return fmt.Sprintf("bulkDelete %s keys %s%02d..%s%02d", pathStr(o.Path), o.Key, o.Lo, o.Key, o.Lo+o.N-1)
	default:
		return fmt.Sprintf("%s %s read=%v", opNames[o.Kind], pathStr(o.Path), o.UseRead)
	}
}

func (p *txPlan) header(i int) string {
	return fmt.Sprintf("tx%d %s outcome=%s ops=%d onCommit=%v reopenAfter=%v closedOps=%d", i, txKindNames[p.Kind],
		outcomeNames[p.Outcome], len(p.Ops), p.OnCommit, p.Reopen, p.ClosedOp)
}

// ---------------------------------------------------------------------------
// model semantics shared by the generator (to steer towards existing buckets
// and keys) and by the executor (as the oracle).

const maxKeySize = 32768 // bbolt's MaxKeySize; larger keys may be refused with ErrKeyTooLarge

// mPut applies Put to the model and returns the documented error (nil = must succeed).
func mPut(mb *dbmodel.Bucket, k, v []byte) error {
	switch {
	case len(k) == 0:
		return walletdb.ErrKeyRequired
	case len(k) > maxKeySize:
		return walletdb.ErrKeyTooLarge
	}
	if _, isB := mb.Sub[string(k)]; isB {
		return walletdb.ErrIncompatibleValue
	}
	mb.KV[string(k)] = append([]byte{}, v...)
	return nil
}

func mDelete(mb *dbmodel.Bucket, k []byte) error {
	if _, isB := mb.Sub[string(k)]; isB {
		return walletdb.ErrIncompatibleValue
	}
	delete(mb.KV, string(k))
	return nil
}

func mCreate(mb *dbmodel.Bucket, name []byte, ifNotExists bool) error {
	if len(name) == 0 {
		return walletdb.ErrBucketNameRequired
	}
	if _, ok := mb.KV[string(name)]; ok {
		return walletdb.ErrIncompatibleValue
	}
	if _, ok := mb.Sub[string(name)]; ok {
		if ifNotExists {
			return nil
		}
		return walletdb.ErrBucketExists
	}
	mb.Sub[string(name)] = dbmodel.New()
	return nil
}

func mDeleteNested(mb *dbmodel.Bucket, name []byte) error {
	if _, ok := mb.KV[string(name)]; ok {
		return walletdb.ErrIncompatibleValue
	}
	if _, ok := mb.Sub[string(name)]; !ok {
		return walletdb.ErrBucketNotFound
	}
	delete(mb.Sub, string(name))
	return nil
}

// curExp is what one primitive cursor call must return.
type curExp struct {
	Call     moveKind // First/Last/Next/Prev/Seek/Delete
	Arg      []byte
	Key      []byte // nil: the call must return a nil key
	IsBucket bool
	Val      []byte
	DelErr   error
	From     []byte // Next/Prev: the key the cursor stood on before the call; Delete: the key removed
}

// mCursor expands the moves of a cursor operation into primitive calls with
// their expected results.  It does not change the model: whoever performs a
// successful Delete call applies it (applyCursorDelete).  Moves that would
// start from an undefined position (before the first positioning, after a nil
// result, after Delete) are dropped: the interface says nothing about them.
func mCursor(mb *dbmodel.Bucket, moves []move, writable bool) []curExp {
	var out []curExp
	keys := mb.Keys()
	pos := -1
	at := func(call moveKind, arg []byte, i int) {
		e := curExp{Call: call, Arg: arg}
		if pos >= 0 && pos < len(keys) {
			e.From = []byte(keys[pos])
		}
		if i >= 0 && i < len(keys) {
			e.Key = []byte(keys[i])
			if v, ok := mb.KV[keys[i]]; ok {
				e.Val = v
			} else {
				e.IsBucket = true
			}
			pos = i
		} else {
			pos = -1
		}
		out = append(out, e)
	}
	for _, m := range moves {
		switch m.Kind {
		case mvFirst:
			at(mvFirst, nil, 0)
		case mvLast:
			at(mvLast, nil, len(keys)-1)
		case mvNext:
			if pos >= 0 {
				at(mvNext, nil, pos+1)
			}
		case mvPrev:
			if pos >= 0 {
				at(mvPrev, nil, pos-1)
			}
		case mvSeek:
			at(mvSeek, m.Key, sort.SearchStrings(keys, string(m.Key)))
		case mvDelete:
			if pos < 0 || !writable {
				continue
			}
			e := curExp{Call: mvDelete, From: []byte(keys[pos])}
			if _, isB := mb.Sub[keys[pos]]; isB {
				e.DelErr = walletdb.ErrIncompatibleValue
			} else {
				keys = append(append([]string{}, keys[:pos]...), keys[pos+1:]...)
			}
			pos = -1 // position after Delete is not asserted (DESIGN C11 L)
			out = append(out, e)
		case mvScanFwd:
			at(mvFirst, nil, 0)
			for pos >= 0 {
				at(mvNext, nil, pos+1)
			}
		case mvScanBack:
			at(mvLast, nil, len(keys)-1)
			for pos >= 0 {
				at(mvPrev, nil, pos-1)
			}
		}
	}
	return out
}

func applyCursorDelete(mb *dbmodel.Bucket, x curExp) {
	if x.Call == mvDelete && x.DelErr == nil {
		delete(mb.KV, string(x.From))
	}
}

// ---------------------------------------------------------------------------
// generator

var keyAlphabet = []string{"a", "b", "c", "d", "aa", "ab", "b\x00", "\x00", "\xff", "\xff\xff", "k1", "k2", "bk"}
var nameAlphabet = []string{"a", "b", "c", "bk", "\x00", "\xff"}
var topAlphabet = []string{"a", "b", "c", "waddrmgr", "\xff"}

type gen struct {
	s        src
	thorough bool
	valCtr   int
	lastPath []string // locality: consecutive operations tend to address the same bucket
}

func longBytes(prefix string, n int, fill byte) []byte {
	b := make([]byte, n)
	copy(b, prefix)
	for i := len(prefix); i < n; i++ {
		b[i] = fill + byte(i%7)
	}
	return b
}

func (g *gen) drawKey() []byte {
	s := g.s
	switch weighted(s, "keyclass", 62, 6, 8, 6, 12, 4, 1, 1) {
	case 0:
		return []byte(keyAlphabet[s.Intn(len(keyAlphabet), "key")])
	case 1:
		return []byte{}
	case 2:
		return []byte{byte(s.Intn(256, "keybyte"))}
	case 3:
		n := 2 + s.Intn(3, "keylen")
		b := make([]byte, n)
		for i := range b {
			b[i] = []byte{0, 'a', 'b', 0xff}[s.Intn(4, "kb")]
		}
		return b
	case 4:
		n := []int{4096, 4097, 5000, 8192}[s.Intn(4, "longkeylen")]
		return longBytes(keyAlphabet[s.Intn(4, "longkeyprefix")], n, 'x')
	case 5:
		// two long keys differing only in the last byte
		b := longBytes("L", 4096, 'y')
		b[len(b)-1] = byte('0' + s.Intn(3, "longkeytail"))
		return b
	case 6:
		return longBytes("M", maxKeySize, 'm') // largest key bbolt accepts
	default:
		return longBytes("T", maxKeySize+1, 't') // one more: may be refused
	}
}

func (g *gen) drawVal() []byte {
	s := g.s
	g.valCtr++
	switch weighted(s, "valclass", 8, 6, 58, 20, 8) {
	case 0:
		if s.Intn(2, "nilval") == 0 {
			return nil
		}
		return []byte{}
	case 1:
		return []byte{byte(s.Intn(256, "valbyte"))}
	case 2:
		return []byte(fmt.Sprintf("v%d", g.valCtr))
	case 3:
		n := []int{4095, 4096, 4097, 6000, 12000}[s.Intn(5, "longvallen")]
		return longBytes(fmt.Sprintf("V%d-", g.valCtr), n, 'p')
	default:
		n := 20 + s.Intn(200, "midvallen")
		return longBytes(fmt.Sprintf("w%d-", g.valCtr), n, 'q')
	}
}

func (g *gen) drawName(alphabet []string) []byte {
	s := g.s
	switch weighted(s, "nameclass", 88, 4, 5, 3) {
	case 0:
		return []byte(alphabet[s.Intn(len(alphabet), "name")])
	case 1:
		return []byte{}
	case 2:
		return []byte{byte(s.Intn(256, "namebyte"))}
	default:
		return longBytes("N", 300, 'n')
	}
}

// drawPath picks the bucket an operation addresses: mostly an existing one.
func (g *gen) drawPath(work *dbmodel.Bucket, maxLen int, preferKeys bool) (path []string) {
	s := g.s
	defer func() { g.lastPath = path }()
	if g.lastPath != nil && len(g.lastPath) <= maxLen && work.Lookup(g.lastPath) != nil && s.Intn(100, "samepath") < 45 {
		return g.lastPath
	}
	var cands [][]string
	for _, p := range work.Paths() {
		if len(p) <= maxLen {
			cands = append(cands, p)
		}
	}
	if len(cands) > 0 && s.Intn(100, "existingpath") < 90 {
		// prefer deeper buckets a little: pick two, keep the deeper
		a := cands[s.Intn(len(cands), "path")]
		b := cands[s.Intn(len(cands), "path2")]
		if len(b) > len(a) {
			a = b
		}
		if preferKeys {
			// walks are more telling over buckets that hold several keys
			for i := 0; i < 2; i++ {
				b = cands[s.Intn(len(cands), "path3")]
				if len(work.Lookup(b).Keys()) > len(work.Lookup(a).Keys()) {
					a = b
				}
			}
		}
		return a
	}
	if len(cands) > 0 && s.Intn(100, "pathThroughKey") < 30 {
		// a path whose last component is a plain key of an existing bucket
		a := cands[s.Intn(len(cands), "path")]
		if mb := work.Lookup(a); len(mb.KV) > 0 && len(a) < 3 {
			ks := make([]string, 0, len(mb.KV))
			for k := range mb.KV {
				if len(k) <= 8 {
					ks = append(ks, k)
				}
			}
			if len(ks) > 0 {
				sort.Strings(ks)
				return append(append([]string{}, a...), ks[s.Intn(len(ks), "keycomp")])
			}
		}
	}
	n := 1 + s.Intn(maxLen, "pathlen")
	p := make([]string, n)
	p[0] = topAlphabet[s.Intn(len(topAlphabet), "top")]
	for i := 1; i < n; i++ {
		p[i] = nameAlphabet[s.Intn(len(nameAlphabet), "comp")]
	}
	return p
}

// drawKeyIn prefers a key that exists in the bucket (pExisting percent).
func (g *gen) drawKeyIn(mb *dbmodel.Bucket, pExisting int) []byte {
	if mb != nil {
		ks := mb.Keys()
		if len(ks) > 0 && g.s.Intn(100, "existingkey") < pExisting {
			return []byte(ks[g.s.Intn(len(ks), "whichkey")])
		}
	}
	return g.drawKey()
}

func (g *gen) drawSubName(mb *dbmodel.Bucket, pExisting int) []byte {
	if mb != nil && len(mb.Sub) > 0 && g.s.Intn(100, "existingsub") < pExisting {
		names := make([]string, 0, len(mb.Sub))
		for n := range mb.Sub {
			names = append(names, n)
		}
		sort.Strings(names)
		return []byte(names[g.s.Intn(len(names), "whichsub")])
	}
	return g.drawName(nameAlphabet)
}

func (g *gen) drawMoves(mb *dbmodel.Bucket, writable bool) []move {
	s := g.s
	var mv []move
	seek := func() move { return move{Kind: mvSeek, Key: g.drawKeyIn(mb, 55)} }
	rep := func(k moveKind, n int) {
		for i := 0; i < n; i++ {
			mv = append(mv, move{Kind: k})
		}
	}
	delW := 0
	if writable {
		delW = 22
	}
	switch weighted(s, "walk", 18, 14, 14, 18, delW, 14) {
	case 0:
		mv = append(mv, move{Kind: mvScanFwd}, move{Kind: mvScanBack})
	case 1:
		mv = append(mv, move{Kind: mvFirst})
		rep(mvNext, 1+s.Intn(5, "nnext"))
		rep(mvPrev, 1+s.Intn(5, "nprev"))
	case 2:
		mv = append(mv, move{Kind: mvLast})
		rep(mvPrev, 1+s.Intn(5, "nprev"))
		rep(mvNext, 1+s.Intn(5, "nnext"))
	case 3:
		mv = append(mv, seek())
		if s.Intn(2, "dir") == 0 {
			rep(mvNext, 1+s.Intn(3, "nnext"))
			rep(mvPrev, s.Intn(3, "nprev"))
		} else {
			rep(mvPrev, 1+s.Intn(3, "nprev"))
			rep(mvNext, s.Intn(3, "nnext"))
		}
	case 4:
		// position, delete, re-seek, continue (the pattern wtxmgr uses)
		n := 1 + s.Intn(3, "ndel")
		for i := 0; i < n; i++ {
			switch s.Intn(3, "delpos") {
			case 0:
				mv = append(mv, move{Kind: mvFirst})
			case 1:
				mv = append(mv, move{Kind: mvLast})
			default:
				mv = append(mv, seek())
			}
			rep(mvNext, s.Intn(2, "nnext"))
			mv = append(mv, move{Kind: mvDelete})
		}
		mv = append(mv, seek())
		rep(mvNext, s.Intn(3, "nnext"))
		mv = append(mv, move{Kind: mvScanFwd})
	default:
		n := 1 + s.Intn(8, "nmoves")
		for i := 0; i < n; i++ {
			k := moveKind(weighted(s, "move", 2, 2, 4, 4, 3, delW/8, 1, 1))
			if k == mvSeek {
				mv = append(mv, seek())
			} else {
				mv = append(mv, move{Kind: k})
			}
		}
	}
	return mv
}

// genOp draws one operation and applies it to the generator's working model.
func (g *gen) genOp(work *dbmodel.Bucket, readOnly bool) op {
	s := g.s
	var o op
	if readOnly {
		o.Kind = []opKind{opGet, opForEach, opCursor, opSeqGet, opTopList, opDump, opROWrite}[weighted(s, "roop", 22, 12, 24, 5, 3, 3, 31)]
	} else {
		wTop := 4
		if len(work.Sub) == 0 {
			wTop = 120
		} else if len(work.Sub) == 1 {
			wTop = 14
		}
		o.Kind = opKind(weighted(s, "rwop",
			30, 7, 8, 9, 6, 5, wTop, 2, 2, 4, 2, 4, 14, 1, 1))
		if len(work.Sub) > 0 {
			switch weighted(s, "bulk", 88, 6, 6) {
			case 1:
				o.Kind = opBulkPut
			case 2:
				o.Kind = opBulkDelete
			}
		}
	}
	switch o.Kind {
	case opCreateTop:
		o.Key = g.drawName(topAlphabet)
		if len(o.Key) > 0 {
			if _, ok := work.Sub[string(o.Key)]; !ok {
				work.Sub[string(o.Key)] = dbmodel.New()
			}
		}
		return o
	case opDeleteTop:
		o.Key = g.drawSubName(work, 60)
		delete(work.Sub, string(o.Key))
		return o
	case opTopList, opDump:
		return o
	}

	maxLen := 3
	if o.Kind == opCreateBucket || o.Kind == opCreateIfNot {
		maxLen = 2 // parent of a bucket at depth <= 3
	}
	o.Path = g.drawPath(work, maxLen, o.Kind == opCursor || o.Kind == opForEach || o.Kind == opDeleteNested)
	mb := work.Lookup(o.Path)
	o.UseRead = !readOnly && s.Intn(4, "useread") == 0

	switch o.Kind {
	case opPut:
		o.Key = g.drawKeyIn(mb, 35)
		o.Val = g.drawVal()
		if mb != nil {
			_ = mPut(mb, o.Key, o.Val)
		}
	case opGet:
		o.Key = g.drawKeyIn(mb, 65)
	case opDelete:
		o.Key = g.drawKeyIn(mb, 75)
		if mb != nil {
			_ = mDelete(mb, o.Key)
		}
	case opCreateBucket, opCreateIfNot:
		// names overlap the key alphabet so that "key = existing bucket" and
		// "bucket = existing key" collisions happen
		if mb != nil && len(mb.KV) > 0 && s.Intn(100, "nameIsKey") < 8 {
			o.Key = g.drawKeyIn(mb, 100)
		} else {
			o.Key = g.drawSubName(mb, 25)
		}
		o.UseRet = s.Intn(3, "useret") == 0
		if mb != nil {
			if mCreate(mb, o.Key, o.Kind == opCreateIfNot) == nil && o.UseRet {
				o.Val = g.drawVal()
				_ = mPut(mb.Sub[string(o.Key)], []byte("k1"), o.Val)
			}
		}
	case opDeleteNested:
		if mb != nil && len(mb.KV) > 0 && s.Intn(100, "delNameIsKey") < 8 {
			o.Key = g.drawKeyIn(mb, 100)
		} else {
			o.Key = g.drawSubName(mb, 75)
		}
		if mb != nil {
			_ = mDeleteNested(mb, o.Key)
		}
	case opBulkPut:
		o.Key = []byte{"mnp"[s.Intn(3, "bulkprefix")]}
		o.N = 5 + s.Intn(8, "bulkn")
		o.Val = longBytes("B", []int{300, 700, 1000, 1500}[s.Intn(4, "bulkvlen")], 'b')
		if mb != nil {
			for i := 0; i < o.N; i++ {
				_ = mPut(mb, bulkKey(o.Key, i), o.Val)
			}
		}
	case opBulkDelete:
		o.Key = []byte{"mnp"[s.Intn(3, "bulkprefix")]}
		o.Lo = s.Intn(10, "bulklo")
		o.N = 1 + s.Intn(12, "bulkdeln")
		if mb != nil {
			for i := o.Lo; i < o.Lo+o.N; i++ {
				_ = mDelete(mb, bulkKey(o.Key, i))
			}
		}
	case opSeqNext:
		if mb != nil {
			mb.Seq++
		}
	case opSeqSet:
		o.Seq = []uint64{0, 1, 7, 1 << 32, 1 << 63}[s.Intn(5, "seqval")]
		if mb != nil {
			mb.Seq = o.Seq
		}
	case opCursor:
		o.Moves = g.drawMoves(mb, !readOnly && !o.UseRead)
		if mb != nil {
			for _, x := range mCursor(mb, o.Moves, !readOnly && !o.UseRead) {
				applyCursorDelete(mb, x)
			}
		}
	case opROWrite:
		o.Row = roWriteKind(s.Intn(int(nRowKinds), "rowkind"))
		switch o.Row {
		case rowPut:
			o.Key = g.drawKeyIn(mb, 40)
			if len(o.Key) == 0 || len(o.Key) > maxKeySize {
				o.Key = []byte("k1")
			}
			o.Val = g.drawVal()
		case rowDelete:
			o.Key = g.drawKeyIn(mb, 85)
		case rowDeleteNested, rowCreateBucket, rowCreateIfNot:
			o.Key = g.drawSubName(mb, 60)
			if len(o.Key) == 0 {
				o.Key = []byte("bk")
			}
		case rowSetSeq:
			o.Seq = 99
		case rowCreateTop, rowDeleteTop:
			o.Key = g.drawSubName(work, 60)
			if len(o.Key) == 0 {
				o.Key = []byte("a")
			}
		}
	}
	return o
}

// genPlan draws a whole case.
func genPlan(s src, thorough bool) []txPlan {
	g := &gen{s: s, thorough: thorough}
	maxTx, maxOps := 8, 12
	if thorough {
		maxTx, maxOps = 16, 24
	}
	committed := dbmodel.New()
	nTx := 1 + s.Intn(maxTx, "ntx")
	plans := make([]txPlan, 0, nTx)
	for i := 0; i < nTx; i++ {
		var p txPlan
		wRead := 16
		if len(committed.Sub) == 0 {
			wRead = 3
		}
		p.Kind = txKind(weighted(s, "txkind", 40, 8, wRead*3/4, wRead/4, 2, 18, wRead/3))
		switch {
		case p.Kind.managed():
			p.Outcome = outcome(weighted(s, "outcome", 52, 26, 22))
		case p.Kind == kManualRW:
			p.Outcome = outcome(weighted(s, "commit", 62, 38))
		}
		nOps := s.Intn(maxOps+1, "nops")
		if p.Outcome != oNil && p.Kind.managed() && s.Intn(4, "early") == 0 {
			nOps = 0 // fail before doing anything
		}
		work := committed.Clone()
		for k := 0; k < nOps; k++ {
			p.Ops = append(p.Ops, g.genOp(work, p.Kind.readOnly()))
		}
		if !p.Kind.readOnly() {
			p.OnCommit = s.Intn(3, "oncommit") == 0
			if p.Outcome == oNil {
				committed = work
			}
		}
		if !p.Kind.managed() {
			p.ClosedOp = s.Intn(8, "closedop")
		}
		p.Reopen = s.Intn(100, "reopen") < 15
		plans = append(plans, p)
	}
	return plans
}

// C11 - database transactions are all-or-nothing, isolated and ordered.
//
// Generator: a plan of 1-8 (thorough: 1-16) transactions over one real bdb
// file: walletdb.Update / db.Update / walletdb.View / db.View / walletdb.Batch
// and manual BeginReadWriteTx+Commit/Rollback, BeginReadTx+Rollback; each with
// 0-12 (24) operations (put, get, delete, nested bucket create /
// create-if-not-exists / delete down to depth 3, top-level create/delete,
// sequences, ForEach, ForEachBucket, cursor walks with Delete + re-seek, write
// attempts through a read transaction); the managed function returns nil, an
// error or panics, before any operation ("early") or after all of them
// ("late"); the file is closed and reopened between transactions with
// probability 0.15.  The plan is drawn first (steered by a model so that most
// operations hit existing buckets and keys) and then executed against the
// database and the reference model (internal/dbmodel, copy on begin).
//
// Oracle: see exec_test.go - after every transaction a fresh read transaction
// must see exactly the committed model; after a failed/panicked function also
// a probe write transaction must begin and commit (watchdog 20 s per step);
// inside a transaction every read is compared with committed + own writes.
//
// Deliberately not asserted (the interface is silent): cursor position after
// Delete or after a nil result, order of ForEachBucket, the exact error of
// DeleteTopLevelBucket / sequence calls / cursor.Delete on a read
// transaction, the size limit of keys, whether an empty value reads back as
// nil or as an empty slice.
package c11

import (
	"bytes"
	"fmt"
	"os"
	"path/filepath"
	"testing"
	"time"

	"github.com/btcsuite/btcwallet/walletdb"

	"pgregory.net/rapid"

	"verifharness/internal/evid"
	"verifharness/internal/known"
)

// Known findings (identifiers in /verif/known_findings.json).  Both come from
// bbolt v1.3.11 (pinned by /repo/walletdb/go.mod) mishandling, in backward
// traversal, leaf pages whose elements were all deleted by the running
// transaction (pages are only merged at commit):
//
//	findingLastHang  cursor.Last() never returns on a multi-page bucket that the
//	                 transaction has emptied completely.
//	findingPrevSkip  cursor.Prev() returns the nil key (end of iteration) when it
//	                 steps onto such an emptied page although smaller keys exist.
//
// While a finding is listed as open its shape is excluded/tolerated and
// counted; otherwise it fails the property.
//
// The identifiers below are PLACEHOLDERS until the findings are registered in
// /verif/known_findings.json; replace them by the assigned ids.
const (
	findingLastHang = "F14"
	findingPrevSkip = "F15"
)

func thorough() bool { return os.Getenv("VERIF_TIER") == "thorough" }

type fataler interface {
	Fatalf(string, ...interface{})
}

func render(c *evid.Case, plans []txPlan) {
	for i := range plans {
		c.Logf("%s", plans[i].header(i))
		for k := range plans[i].Ops {
			c.Logf("  %d %s", k, plans[i].Ops[k].String())
		}
	}
}

func checkPlan(t fataler, g *evid.Group, plans []txPlan) {
	c := g.Begin()
	defer c.End()
	render(c, plans)
	e, viol, incon := runPlan(plans, known.Open(findingLastHang), known.Open(findingPrevSkip))
	if incon != "" {
		t.Fatalf("INCONCLUSIVE: %s", incon)
	}
	if viol != "" {
		t.Fatalf("C11 VIOLATED: %s\ncase:\n%s", viol, c.Text())
	}
	for k := range e.classes {
		c.Class(k)
	}
	for n := range e.notes {
		g.Note(n)
	}
	for i := 0; i < e.hitLast; i++ {
		g.KnownHit(findingLastHang)
	}
	for i := 0; i < e.hitPrev; i++ {
		g.KnownHit(findingPrevSkip)
	}
	g.Count("transactions", int64(e.nTx))
	g.Count("operations", int64(e.ops))
	if e.nTx >= 2 && e.nFailedAfterWrite >= 1 {
		c.Class("NT:>=2-tx-with-failure-after-write")
		c.NonTrivial()
	}
	if e.bothDirWalk {
		c.Class("NT:cursor-walk-both-directions")
		c.NonTrivial()
	}
	if e.nestedDel {
		c.Class("NT:nested-bucket-delete")
		c.NonTrivial()
	}
}

func TestC11Transactions(t *testing.T) {
	g := evid.G("TestC11Transactions")
	th := thorough()
	rapid.Check(t, func(t *rapid.T) {
		plans := genPlan(rapidSrc{t}, th)
		checkPlan(t, g, plans)
	})
}

// FuzzC11 decodes the same grammar from raw bytes (one byte per choice) and
// applies the same oracle.
func FuzzC11(f *testing.F) {
	f.Add([]byte{})
	// seed corpus: plans produced by the generator from a fixed pseudo-random
	// source, recorded in the byte encoding
	for i := 0; i < 24; i++ {
		r := &recSrc{in: &lcgSrc{x: uint64(i)*7919 + 1}}
		genPlan(r, false)
		f.Add(r.out)
	}
	g := evid.G("FuzzC11")
	f.Fuzz(func(t *testing.T, data []byte) {
		if len(data) > 4096 {
			data = data[:4096]
		}
		plans := genPlan(&byteSrc{data: data}, false)
		checkPlan(t, g, plans)
	})
}

// TestC11RegressSeedCorpus runs the fuzz seed corpus as a plain test (so the
// decoder and the oracle are exercised in the quick tier too).
func TestC11RegressSeedCorpus(t *testing.T) {
	g := evid.G("TestC11RegressSeedCorpus")
	for i := 0; i < 24; i++ {
		r := &recSrc{in: &lcgSrc{x: uint64(i)*7919 + 1}}
		p1 := genPlan(r, false)
		p2 := genPlan(&byteSrc{data: r.out}, false)
		if len(p1) != len(p2) {
			t.Fatalf("INCONCLUSIVE: byte encoding does not round-trip (%d vs %d transactions)", len(p1), len(p2))
		}
		checkPlan(t, g, p2)
	}
}

// ---- minimal cases of the two findings, as plain regression tests -----------

func regressDB(t *testing.T, n, vlen int) (walletdb.DB, func()) {
	dir, err := os.MkdirTemp("/dev/shm", "verif-c11r-")
	if err != nil {
		t.Fatalf("INCONCLUSIVE: %v", err)
	}
	db, err := walletdb.Create("bdb", filepath.Join(dir, "r.db"), true, 10*time.Second, false)
	if err != nil {
		os.RemoveAll(dir)
		t.Fatalf("INCONCLUSIVE: %v", err)
	}
	err = walletdb.Update(db, func(tx walletdb.ReadWriteTx) error {
		b, err := tx.CreateTopLevelBucket([]byte("a"))
		if err != nil {
			return err
		}
		for i := 0; i < n; i++ {
			if err := b.Put([]byte(fmt.Sprintf("k%02d", i)), bytes.Repeat([]byte{'v'}, vlen)); err != nil {
				return err
			}
		}
		return nil
	})
	if err != nil {
		t.Fatalf("INCONCLUSIVE: %v", err)
	}
	return db, func() { db.Close(); os.RemoveAll(dir) }
}

// Seven keys with 1000-byte values occupy three leaf pages (k00 k01 | k02 k03 |
// k04 k05 k06).  A transaction deletes k02 and k03 and walks backwards from
// Last(): the walk must yield k06 k05 k04 k01 k00.
func TestC11RegressPrevAcrossEmptiedPage(t *testing.T) {
	g := evid.G("TestC11RegressPrevAcrossEmptiedPage")
	c := g.Begin()
	defer c.End()
	c.Logf("7 keys x 1000 bytes committed; next transaction: Delete k02, Delete k03, Last, Prev...")
	db, done := regressDB(t, 7, 1000)
	defer done()
	var got []string
	err := walletdb.Update(db, func(tx walletdb.ReadWriteTx) error {
		b := tx.ReadWriteBucket([]byte("a"))
		if err := b.Delete([]byte("k02")); err != nil {
			return err
		}
		if err := b.Delete([]byte("k03")); err != nil {
			return err
		}
		cur := b.ReadCursor()
		for k, _ := cur.Last(); k != nil; k, _ = cur.Prev() {
			got = append(got, string(k))
		}
		return nil
	})
	if err != nil {
		t.Fatalf("INCONCLUSIVE: %v", err)
	}
	want := []string{"k06", "k05", "k04", "k01", "k00"}
	if fmt.Sprint(got) == fmt.Sprint(want) {
		return
	}
	if known.Open(findingPrevSkip) && fmt.Sprint(got) == fmt.Sprint(want[:3]) {
		g.KnownHit(findingPrevSkip)
		return
	}
	t.Fatalf("C11 VIOLATED: backward cursor walk after deleting k02,k03 in the same transaction yields %v, the bucket holds %v (keys do not iterate in both directions)", got, want)
}

// Five keys with 800-byte values occupy two leaf pages.  A transaction deletes
// all five and calls Last(): it must return the nil key.
func TestC11RegressLastOnEmptiedBucket(t *testing.T) {
	g := evid.G("TestC11RegressLastOnEmptiedBucket")
	c := g.Begin()
	defer c.End()
	c.Logf("5 keys x 800 bytes committed; next transaction: Delete all five, Last")
	if known.Open(findingLastHang) {
		// not executed: the call never returns and would leave a spinning goroutine behind
		g.KnownHit(findingLastHang)
		return
	}
	db, done := regressDB(t, 5, 800)
	res := make(chan string, 1)
	go func() {
		var k []byte
		err := walletdb.Update(db, func(tx walletdb.ReadWriteTx) error {
			b := tx.ReadWriteBucket([]byte("a"))
			for i := 0; i < 5; i++ {
				if err := b.Delete([]byte(fmt.Sprintf("k%02d", i))); err != nil {
					return err
				}
			}
			k, _ = b.ReadCursor().Last()
			return nil
		})
		res <- fmt.Sprintf("err=%v key=%q", err, k)
	}()
	select {
	case r := <-res:
		done()
		if r != `err=<nil> key=""` {
			t.Fatalf("C11 VIOLATED: Last() on a bucket emptied in the same transaction: %s", r)
		}
	case <-time.After(watchdogLimit()):
		t.Fatalf("C11 VIOLATED: database unusable after deleting every key of a two-page bucket: cursor.Last() in the same transaction has not returned after %v (endless loop in bbolt Cursor.Last -> prev -> first)", watchdogLimit())
	}
}

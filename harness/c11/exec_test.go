package c11

import (
	"bytes"
	"errors"
	"fmt"
	"os"
	"path/filepath"
	"reflect"
	"runtime"
	"runtime/debug"
	"sort"
	"strings"
	"sync"
	"sync/atomic"
	"time"

	"github.com/btcsuite/btcwallet/walletdb"
	_ "github.com/btcsuite/btcwallet/walletdb/bdb"

	"verifharness/internal/dbmodel"
)

var (
	errInjected = errors.New("c11: injected error returned by the transaction function")
	errAbort    = errors.New("c11: harness aborts the transaction after a recorded violation")
)

type injectedPanic struct{ n int }

// exec runs a plan against a real bdb file and the model.
type exec struct {
	path      string
	db        walletdb.DB
	committed *dbmodel.Bucket
	work      *dbmodel.Bucket

	viol   string // first violation (sticky)
	incon  string // harness problem
	wrote  bool   // the current function invocation changed the model
	hooks  int    // OnCommit hooks run for the current invocation
	resets int

	progress atomic.Int64
	mu       sync.Mutex
	stepDesc string // what is running now
	lastDesc string // the transaction that finished before it

	classes map[string]bool
	notes   map[string]bool
	ops     int

	// Open known findings (see c11_test.go): shapes that are excluded and counted.
	knownLast, knownPrev bool
	hitLast, hitPrev     int
	// per function invocation: elements that existed when the transaction
	// began and were deleted by it, per bucket; buckets created by it
	txDeleted map[string]map[string]bool
	txFresh   map[string]bool

	everBig                bool
	nTx, nFailedAfterWrite int
	bothDirWalk, nestedDel bool
}

func newExec(path string) *exec {
	return &exec{path: path, committed: dbmodel.New(), classes: map[string]bool{}, notes: map[string]bool{}}
}

func (e *exec) class(s string) { e.classes[s] = true }

func (e *exec) failf(format string, a ...interface{}) {
	if e.viol == "" {
		e.viol = fmt.Sprintf(format, a...)
	}
}

func (e *exec) bad() bool { return e.viol != "" || e.incon != "" }

func (e *exec) step(desc string) {
	e.mu.Lock()
	e.stepDesc = desc
	e.mu.Unlock()
	e.progress.Add(1)
}

func (e *exec) stepDone(desc string) {
	e.mu.Lock()
	e.lastDesc = desc
	e.mu.Unlock()
	e.progress.Add(1)
}

func isNilIface(x interface{}) string {
	if x == nil {
		return ""
	}
	v := reflect.ValueOf(x)
	switch v.Kind() {
	case reflect.Ptr, reflect.Map, reflect.Slice, reflect.Func, reflect.Interface, reflect.Chan:
		if v.IsNil() {
			return fmt.Sprintf("a non-nil interface holding a nil %T (callers' `== nil` test fails)", x)
		}
	}
	return fmt.Sprintf("a non-nil %T", x)
}

// nav walks to the bucket of an operation, checking at every component that a
// missing bucket is reported as a nil interface and an existing one is not.
// It returns the real bucket (read and, when reached through the write
// accessors, read-write) and the model bucket; all nil when missing.
func (e *exec) nav(tx walletdb.ReadTx, rw walletdb.ReadWriteTx, path []string, useRead bool) (walletdb.ReadBucket, walletdb.ReadWriteBucket, *dbmodel.Bucket) {
	mb := e.work
	var rb walletdb.ReadBucket
	var wb walletdb.ReadWriteBucket
	for i, comp := range path {
		mnext := mb.Sub[comp]
		var got interface{}
		var acc string
		switch {
		case rw != nil && !useRead:
			if i == 0 {
				wb = rw.ReadWriteBucket([]byte(comp))
				acc = "ReadWriteBucket"
			} else {
				wb = wb.NestedReadWriteBucket([]byte(comp))
				acc = "NestedReadWriteBucket"
			}
			if wb == nil {
				rb, got = nil, nil
			} else {
				rb, got = wb, wb
			}
		default:
			wb = nil
			if i == 0 {
				rb = tx.ReadBucket([]byte(comp))
				acc = "ReadBucket"
			} else {
				rb = rb.NestedReadBucket([]byte(comp))
				acc = "NestedReadBucket"
			}
			if rb == nil {
				got = nil
			} else {
				got = rb
			}
		}
		if mnext == nil {
			e.class("nil-bucket-check")
			if _, isKey := mb.KV[comp]; isKey {
				e.class("nil-bucket-check-on-plain-key")
			}
			if got != nil {
				e.failf("%s(%s) under %s: no such bucket exists, the result must compare == nil but is %s",
					acc, dbmodel.Short([]byte(comp)), pathStr(path[:i]), isNilIface(got))
			}
			return nil, nil, nil
		}
		if got == nil {
			e.failf("%s(%s) under %s returned nil although the bucket exists (created/committed earlier)",
				acc, dbmodel.Short([]byte(comp)), pathStr(path[:i]))
			return nil, nil, nil
		}
		if s := isNilIface(got); s != "" && reflect.ValueOf(got).Kind() == reflect.Ptr && reflect.ValueOf(got).IsNil() {
			e.failf("%s(%s) under %s returned %s", acc, dbmodel.Short([]byte(comp)), pathStr(path[:i]), s)
			return nil, nil, nil
		}
		mb = mnext
	}
	if len(path) >= 3 {
		e.class("depth-3-bucket")
	}
	return rb, wb, mb
}

func pk(path []string) string {
	var sb strings.Builder
	for _, c := range path {
		fmt.Fprintf(&sb, "%d:%s/", len(c), c)
	}
	return sb.String()
}

func sub(path []string, name []byte) []string {
	return append(append([]string{}, path...), string(name))
}

// markBig flags (for good) every bucket that may span more than one leaf
// page: a bucket's single leaf is only split at a commit at which it holds
// more than four elements and at least a page of data.  The size is an upper
// estimate (nested buckets are counted with the largest inline size), so a
// bucket that really has several leaf pages always carries the mark.
func markBig(b *dbmodel.Bucket) {
	for _, s := range b.Sub {
		markBig(s)
	}
	if len(b.KV)+len(b.Sub) <= 4 {
		return
	}
	size := 16
	for k, v := range b.KV {
		size += 16 + len(k) + len(v)
	}
	for k := range b.Sub {
		size += 16 + len(k) + 16 + os.Getpagesize()/4 + 64
	}
	if size >= os.Getpagesize() {
		b.Mark = true
	}
}

func anyMark(b *dbmodel.Bucket) bool {
	if b.Mark {
		return true
	}
	for _, s := range b.Sub {
		if anyMark(s) {
			return true
		}
	}
	return false
}

// noteDelete records that the running transaction removed an element that
// was there when it began, from a bucket that it did not create itself and
// that may span several leaf pages (see markBig).
func (e *exec) noteDelete(path []string, key []byte) {
	k := pk(path)
	if e.txFresh[k] {
		return
	}
	cm := e.committed.Lookup(path)
	if cm == nil || !cm.Mark {
		return
	}
	_, inKV := cm.KV[string(key)]
	_, inSub := cm.Sub[string(key)]
	if !inKV && !inSub {
		return
	}
	if e.txDeleted[k] == nil {
		e.txDeleted[k] = map[string]bool{}
	}
	e.txDeleted[k][string(key)] = true
}

func (e *exec) noteBucketCreated(path []string) { e.txFresh[pk(path)] = true }

func (e *exec) noteBucketDeleted(path []string) {
	prefix := pk(path)
	for k := range e.txDeleted {
		if strings.HasPrefix(k, prefix) {
			delete(e.txDeleted, k)
		}
	}
	for k := range e.txFresh {
		if strings.HasPrefix(k, prefix) {
			delete(e.txFresh, k)
		}
	}
}

func sameVal(want, got []byte) bool {
	if len(want) == 0 {
		return len(got) == 0
	}
	return bytes.Equal(want, got)
}

func (e *exec) wantErr(what string, got, want error) {
	if want == nil {
		if got != nil {
			e.failf("%s: unexpected error %v", what, got)
		}
		return
	}
	if got == nil {
		e.failf("%s: succeeded, documented error is %v", what, want)
		return
	}
	if got != want {
		e.failf("%s: returned error %q (%T), the walletdb documentation says %q", what, got.Error(), got, want.Error())
	}
}

func (e *exec) checkForEach(what string, rb walletdb.ReadBucket, mb *dbmodel.Bucket) {
	type ent struct{ k, v []byte }
	var got []ent
	err := rb.ForEach(func(k, v []byte) error {
		x := ent{k: append([]byte{}, k...)}
		if v != nil {
			x.v = append([]byte{}, v...)
		}
		got = append(got, x)
		return nil
	})
	if err != nil {
		e.failf("%s: ForEach returned %v", what, err)
		return
	}
	keys := mb.Keys()
	if len(got) != len(keys) {
		gk := make([]string, len(got))
		for i := range got {
			gk[i] = dbmodel.Short(got[i].k)
		}
		wk := make([]string, len(keys))
		for i := range keys {
			wk[i] = dbmodel.Short([]byte(keys[i]))
		}
		e.failf("%s: ForEach visited %d entries %v, the bucket holds %d: %v", what, len(got), gk, len(keys), wk)
		return
	}
	for i, k := range keys {
		if string(got[i].k) != k {
			e.failf("%s: ForEach entry %d is key %s, ascending byte order requires %s", what, i, dbmodel.Short(got[i].k), dbmodel.Short([]byte(k)))
			return
		}
		if v, ok := mb.KV[k]; ok {
			if !sameVal(v, got[i].v) {
				e.failf("%s: ForEach key %s has value %s, want %s", what, dbmodel.Short([]byte(k)), dbmodel.Short(got[i].v), dbmodel.Short(v))
				return
			}
		} else if got[i].v != nil {
			e.failf("%s: ForEach passes value %s for nested bucket %s (documented: nil)", what, dbmodel.Short(got[i].v), dbmodel.Short([]byte(k)))
			return
		}
	}
	if len(keys) >= 3 {
		e.class("foreach>=3-keys")
	}
}

func (e *exec) checkCursorResult(what string, x curExp, k, v []byte) bool {
	if x.Key == nil {
		if k != nil {
			e.failf("%s: returned key %s, expected the nil key (no such position)", what, dbmodel.Short(k))
			return false
		}
		return true
	}
	if k == nil {
		e.failf("%s: returned the nil key, expected %s", what, dbmodel.Short(x.Key))
		return false
	}
	if !bytes.Equal(k, x.Key) {
		e.failf("%s: returned key %s, expected %s", what, dbmodel.Short(k), dbmodel.Short(x.Key))
		return false
	}
	if !x.IsBucket && !sameVal(x.Val, v) {
		e.failf("%s: key %s has value %s, expected %s", what, dbmodel.Short(k), dbmodel.Short(v), dbmodel.Short(x.Val))
		return false
	}
	return true
}

func (e *exec) doCursor(what string, path []string, rb walletdb.ReadBucket, wb walletdb.ReadWriteBucket, mb *dbmodel.Bucket, moves []move) {
	nKeys := len(mb.Keys())
	if len(e.txDeleted[pk(path)]) > 0 {
		e.class("cursor-walk-in-multi-page-bucket-after-deletes-in-same-tx")
	}
	exp := mCursor(mb, moves, wb != nil)
	var cur walletdb.ReadCursor
	var wcur walletdb.ReadWriteCursor
	if wb != nil {
		wcur = wb.ReadWriteCursor()
		cur = wcur
	} else {
		cur = rb.ReadCursor()
	}
	if cur == nil {
		e.failf("%s: cursor is nil", what)
		return
	}
	nNext, nPrev := 0, 0
	for i, x := range exp {
		w := fmt.Sprintf("%s call %d %s", what, i, moveNames[x.Call])
		var k, v []byte
		switch x.Call {
		case mvFirst:
			k, v = cur.First()
		case mvLast:
			if x.Key == nil && len(e.txDeleted[pk(path)]) > 0 && e.knownLast {
				// known finding: Last() on a bucket that this transaction has
				// emptied by deleting elements committed earlier never returns
				// when the bucket spans several leaf pages.  The page layout is
				// not visible here; excluded are the emptied buckets that may
				// have several leaf pages (markBig).
				e.hitLast++
				continue
			}
			if x.Key == nil && len(e.txDeleted[pk(path)]) > 0 {
				e.class("last-on-bucket-emptied-in-this-tx")
			}
			k, v = cur.Last()
		case mvNext:
			k, v = cur.Next()
			if x.Key != nil {
				nNext++
			}
		case mvPrev:
			k, v = cur.Prev()
			if x.Key != nil {
				nPrev++
			}
			if k == nil && x.Key != nil && e.knownPrev {
				// known finding: Prev() returns the nil key too early when it
				// steps onto a page whose elements were all deleted by this
				// transaction.  Exactly that symptom is tolerated: nil instead
				// of the expected key, and a key that existed at the start of
				// the transaction, deleted by it, lies between the two.
				between := false
				for d := range e.txDeleted[pk(path)] {
					if d > string(x.Key) && d < string(x.From) {
						between = true
					}
				}
				if between {
					e.hitPrev++
					return
				}
			}
		case mvSeek:
			w = fmt.Sprintf("%s(%s)", w, dbmodel.Short(x.Arg))
			k, v = cur.Seek(x.Arg)
			if x.Key != nil && !bytes.Equal(x.Key, x.Arg) {
				e.class("cursor-seek-lands-on-next-key")
			}
			if x.Key == nil {
				e.class("cursor-seek-past-end")
			}
		case mvDelete:
			err := wcur.Delete()
			e.wantErr(w, err, x.DelErr)
			if x.DelErr == nil {
				applyCursorDelete(mb, x)
				e.noteDelete(path, x.From)
				e.wrote = true
				e.class("cursor-delete")
			} else {
				e.class("cursor-delete-on-bucket")
			}
			if e.bad() {
				return
			}
			continue
		}
		if !e.checkCursorResult(w, x, k, v) {
			return
		}
	}
	if nKeys >= 3 && nNext >= 2 && nPrev >= 2 {
		e.bothDirWalk = true
		e.class("cursor-walk>=3-keys-both-directions")
	}
}

// roWrite tries to modify the database through a read transaction.
func (e *exec) roWrite(what string, tx walletdb.ReadTx, o *op) {
	e.class("write-attempt-through-read-tx")
	check := func(call string, err error, documented bool) {
		if err == nil {
			e.failf("%s: %s through a read-only transaction succeeded", what, call)
			return
		}
		if err != walletdb.ErrTxNotWritable {
			if documented {
				e.failf("%s: %s through a read-only transaction returned %q (%T), documented is walletdb.ErrTxNotWritable", what, call, err.Error(), err)
			} else {
				e.notes[fmt.Sprintf("%s on a read-only transaction returns %q (%T) instead of walletdb.ErrTxNotWritable (not documented for this call; not counted as a violation)", call, err.Error(), err)] = true
			}
		}
	}
	if o.Row == rowCreateTop || o.Row == rowDeleteTop {
		rwtx, ok := tx.(walletdb.ReadWriteTx)
		if !ok {
			e.class("read-tx-not-assertable-to-write-tx")
			return
		}
		if o.Row == rowCreateTop {
			_, err := rwtx.CreateTopLevelBucket(o.Key)
			check("CreateTopLevelBucket", err, false)
		} else {
			check("DeleteTopLevelBucket", rwtx.DeleteTopLevelBucket(o.Key), false)
		}
		return
	}
	rb, _, mb := e.nav(tx, nil, o.Path, true)
	if rb == nil || e.bad() {
		return
	}
	wb, ok := rb.(walletdb.ReadWriteBucket)
	if !ok {
		e.class("read-bucket-not-assertable-to-write-bucket")
		return
	}
	switch o.Row {
	case rowPut:
		check("Put", wb.Put(o.Key, o.Val), true)
	case rowDelete:
		check("Delete", wb.Delete(o.Key), true)
	case rowDeleteNested:
		check("DeleteNestedBucket", wb.DeleteNestedBucket(o.Key), true)
	case rowCreateBucket:
		_, err := wb.CreateBucket(o.Key)
		check("CreateBucket", err, false)
	case rowCreateIfNot:
		_, err := wb.CreateBucketIfNotExists(o.Key)
		check("CreateBucketIfNotExists", err, false)
	case rowNextSeq:
		_, err := wb.NextSequence()
		check("NextSequence", err, false)
	case rowSetSeq:
		check("SetSequence", wb.SetSequence(o.Seq), false)
	case rowCursorDelete:
		if len(mb.Keys()) == 0 {
			return
		}
		wc, ok := rb.ReadCursor().(walletdb.ReadWriteCursor)
		if !ok {
			e.class("read-cursor-not-assertable-to-write-cursor")
			return
		}
		// land on a plain key if there is one
		for k, _ := wc.First(); k != nil; k, _ = wc.Next() {
			if _, plain := mb.KV[string(k)]; plain {
				break
			}
		}
		check("cursor.Delete", wc.Delete(), false)
	}
}

func (e *exec) doOp(tx walletdb.ReadTx, rw walletdb.ReadWriteTx, o *op, idx int) {
	e.ops++
	what := fmt.Sprintf("op %d (%s)", idx, o.String())
	switch o.Kind {
	case opCreateTop:
		b, err := rw.CreateTopLevelBucket(o.Key)
		if len(o.Key) == 0 {
			e.class("empty-bucket-name")
			e.wantErr(what, err, walletdb.ErrBucketNameRequired)
			return
		}
		if err != nil || b == nil {
			e.failf("%s: returned (%v, %v), documented: creates the bucket if it does not exist and returns it", what, b, err)
			return
		}
		mb, ok := e.work.Sub[string(o.Key)]
		if !ok {
			mb = dbmodel.New()
			e.work.Sub[string(o.Key)] = mb
			e.wrote = true
			e.noteBucketCreated([]string{string(o.Key)})
		} else {
			e.class("create-top-level-existing")
		}
		if s := b.Sequence(); s != mb.Seq {
			e.failf("%s: returned bucket has sequence %d, want %d", what, s, mb.Seq)
		}
		return
	case opDeleteTop:
		err := rw.DeleteTopLevelBucket(o.Key)
		if _, ok := e.work.Sub[string(o.Key)]; ok {
			e.wantErr(what, err, nil)
			delete(e.work.Sub, string(o.Key))
			e.noteBucketDeleted([]string{string(o.Key)})
			e.wrote = true
			e.class("delete-top-level")
		} else if err == nil {
			e.failf("%s: deleting a missing top-level bucket succeeded (documented: errors if the bucket can not be found)", what)
		}
		return
	case opTopList:
		var got []string
		err := tx.ForEachBucket(func(k []byte) error { got = append(got, string(k)); return nil })
		if err != nil {
			e.failf("%s: %v", what, err)
			return
		}
		sort.Strings(got)
		var want []string
		for n := range e.work.Sub {
			want = append(want, n)
		}
		sort.Strings(want)
		if !reflect.DeepEqual(got, want) {
			e.failf("%s: ForEachBucket lists %q, want %q", what, got, want)
		}
		return
	case opDump:
		e.verifyInTx(what, tx)
		return
	case opROWrite:
		e.roWrite(what, tx, o)
		return
	}

	rb, wb, mb := e.nav(tx, rw, o.Path, o.UseRead || rw == nil)
	if rb == nil || e.bad() {
		return
	}
	if wb == nil && rw != nil {
		// a writing operation needs the write accessors
		switch o.Kind {
		case opGet, opSeqGet, opForEach, opCursor:
		default:
			_, wb, _ = e.nav(tx, rw, o.Path, false)
			if wb == nil || e.bad() {
				return
			}
			rb = wb
		}
	}

	switch o.Kind {
	case opPut:
		want := mPut(mb, o.Key, o.Val)
		err := wb.Put(o.Key, o.Val)
		switch {
		case len(o.Key) > maxKeySize:
			// the walletdb interface does not define the limit: either stored or ErrKeyTooLarge
			e.class("oversized-key")
			if err == nil {
				mb.KV[string(o.Key)] = append([]byte{}, o.Val...)
				e.wrote = true
			} else if err != walletdb.ErrKeyTooLarge {
				e.failf("%s: returned %q, documented for an oversized key: ErrKeyTooLarge", what, err.Error())
			}
		default:
			e.wantErr(what, err, want)
			if want == nil {
				e.wrote = true
			}
		}
		switch {
		case len(o.Key) == 0:
			e.class("empty-key")
		case want == walletdb.ErrIncompatibleValue:
			e.class("put-key-equals-bucket")
		case len(o.Key) >= 4096:
			e.class("long-key")
		case len(o.Key) == 1:
			e.class("1-byte-key")
		}
		if len(o.Val) == 0 {
			e.class("empty-value")
		} else if len(o.Val) >= 4096 {
			e.class("long-value")
		}
		// read your own write
		if want == nil && !e.bad() {
			if got := rb.Get(o.Key); !sameVal(o.Val, got) || (len(o.Val) > 0 && got == nil) {
				e.failf("%s: Get straight after Put returns %s, want %s", what, dbmodel.Short(got), dbmodel.Short(o.Val))
			}
		}
	case opGet:
		got := rb.Get(o.Key)
		if v, ok := mb.KV[string(o.Key)]; ok {
			if !sameVal(v, got) {
				e.failf("%s: returned %s, want %s", what, dbmodel.Short(got), dbmodel.Short(v))
			}
		} else {
			if _, isB := mb.Sub[string(o.Key)]; isB {
				e.class("get-on-bucket-name")
			}
			if got != nil {
				e.failf("%s: returned %s for a key that does not exist (documented: nil)", what, dbmodel.Short(got))
			}
		}
	case opDelete:
		_, existed := mb.KV[string(o.Key)]
		want := mDelete(mb, o.Key)
		e.wantErr(what, wb.Delete(o.Key), want)
		if want != nil {
			e.class("delete-key-equals-bucket")
		} else if existed {
			e.wrote = true
			e.noteDelete(o.Path, o.Key)
		} else {
			e.class("delete-missing-key")
		}
	case opCreateBucket, opCreateIfNot:
		_, existed := mb.Sub[string(o.Key)]
		want := mCreate(mb, o.Key, o.Kind == opCreateIfNot)
		var nb walletdb.ReadWriteBucket
		var err error
		if o.Kind == opCreateBucket {
			nb, err = wb.CreateBucket(o.Key)
		} else {
			nb, err = wb.CreateBucketIfNotExists(o.Key)
		}
		e.wantErr(what, err, want)
		switch want {
		case walletdb.ErrBucketNameRequired:
			e.class("empty-bucket-name")
		case walletdb.ErrBucketExists:
			e.class("create-existing-bucket")
		case walletdb.ErrIncompatibleValue:
			e.class("bucket-name-equals-key")
		}
		if want != nil || e.bad() {
			return
		}
		if !existed {
			e.wrote = true
			e.noteBucketCreated(sub(o.Path, o.Key))
		}
		if nb == nil {
			e.failf("%s: returned a nil bucket without an error", what)
			return
		}
		ms := mb.Sub[string(o.Key)]
		if s := nb.Sequence(); s != ms.Seq {
			e.failf("%s: returned bucket has sequence %d, want %d", what, s, ms.Seq)
			return
		}
		if o.UseRet {
			k := []byte("k1")
			w2 := mPut(ms, k, o.Val)
			e.wantErr(what+" then Put(k1) through the returned bucket", nb.Put(k, o.Val), w2)
			if w2 == nil {
				e.wrote = true
			}
		}
	case opDeleteNested:
		ms := mb.Sub[string(o.Key)]
		want := mDeleteNested(mb, o.Key)
		err := wb.DeleteNestedBucket(o.Key)
		if len(o.Key) == 0 {
			// No bucket can have an empty name (creating one is refused with
			// ErrBucketNameRequired), and no real caller deletes one; bbolt
			// answers ErrIncompatibleValue instead of ErrBucketNotFound when
			// the parent bucket is empty.  Only "fails and changes nothing" is
			// required here.
			e.class("delete-bucket-empty-name")
			if err == nil {
				e.failf("%s: deleting a nested bucket with an empty name succeeded", what)
			} else if err != walletdb.ErrBucketNotFound {
				e.notes[fmt.Sprintf("DeleteNestedBucket(empty name) returns %q instead of ErrBucketNotFound (empty parent bucket; not a caller-reachable input, not counted)", err.Error())] = true
			}
			return
		}
		e.wantErr(what, err, want)
		switch {
		case want == nil:
			e.noteBucketDeleted(sub(o.Path, o.Key))
			e.noteDelete(o.Path, o.Key)
			e.wrote = true
			e.nestedDel = true
			e.class("nested-bucket-delete")
			if k, b := ms.Count(); k+b > 0 {
				e.class("nested-bucket-delete-nonempty")
			}
		case want == walletdb.ErrBucketNotFound:
			e.class("delete-missing-bucket")
		default:
			e.class("delete-bucket-on-plain-key")
		}
	case opBulkPut:
		for i := 0; i < o.N && !e.bad(); i++ {
			k := bulkKey(o.Key, i)
			e.wantErr(fmt.Sprintf("%s key %s", what, k), wb.Put(k, o.Val), mPut(mb, k, o.Val))
		}
		e.wrote = true
		e.class("bulk-put")
	case opBulkDelete:
		for i := o.Lo; i < o.Lo+o.N && !e.bad(); i++ {
			k := bulkKey(o.Key, i)
			_, existed := mb.KV[string(k)]
			e.wantErr(fmt.Sprintf("%s key %s", what, k), wb.Delete(k), mDelete(mb, k))
			if existed {
				e.wrote = true
				e.noteDelete(o.Path, k)
				e.class("bulk-delete-existing")
			}
		}
	case opSeqGet:
		if s := rb.Sequence(); s != mb.Seq {
			e.failf("%s: returned %d, want %d", what, s, mb.Seq)
		}
		e.class("sequence-ops")
	case opSeqNext:
		s, err := wb.NextSequence()
		mb.Seq++
		e.wrote = true
		if err != nil || s != mb.Seq {
			e.failf("%s: returned (%d, %v), want (%d, nil)", what, s, err, mb.Seq)
		}
		e.class("sequence-ops")
	case opSeqSet:
		err := wb.SetSequence(o.Seq)
		mb.Seq = o.Seq
		e.wrote = true
		if err != nil {
			e.failf("%s: %v", what, err)
		} else if s := rb.Sequence(); s != o.Seq {
			e.failf("%s: Sequence afterwards is %d", what, s)
		}
		e.class("sequence-ops")
	case opForEach:
		e.checkForEach(what, rb, mb)
	case opCursor:
		e.doCursor(what, o.Path, rb, wb, mb, o.Moves)
	}
}

// verifyInTx compares everything the transaction can see with the model.
func (e *exec) verifyInTx(what string, tx walletdb.ReadTx) {
	got, err := dbmodel.Dump(tx)
	if err != nil {
		e.failf("%s: reading the database inside the transaction: %v", what, err)
		return
	}
	if d := dbmodel.Diff(e.work, got); d != "" {
		e.failf("%s: the transaction does not see the committed state plus its own writes:\n%s", what, d)
	}
}

// body is the transaction function.
func (e *exec) body(p *txPlan, tx walletdb.ReadTx, rw walletdb.ReadWriteTx) error {
	// a managed function may be invoked more than once (Batch re-runs a failed
	// function alone): every invocation starts from the committed state
	e.work = e.committed.Clone()
	e.wrote = false
	e.hooks = 0
	e.txDeleted = map[string]map[string]bool{}
	e.txFresh = map[string]bool{}
	if rw != nil && p.OnCommit {
		rw.OnCommit(func() { e.hooks++ })
	}
	for i := range p.Ops {
		e.doOp(tx, rw, &p.Ops[i], i)
		if e.bad() {
			return errAbort
		}
	}
	e.verifyInTx("end of function", tx)
	if e.bad() {
		return errAbort
	}
	switch p.Outcome {
	case oErr:
		return errInjected
	case oPanic:
		panic(injectedPanic{len(p.Ops)})
	}
	return nil
}

// checkCommitted reads the database in a fresh read transaction and compares.
func (e *exec) checkCommitted(when string) {
	if e.bad() {
		return
	}
	e.step("read transaction to compare the database " + when)
	got, err := dbmodel.DumpDB(e.db)
	if err != nil {
		e.failf("%s: cannot read the database: %v", when, err)
		return
	}
	if d := dbmodel.Diff(e.committed, got); d != "" {
		e.failf("%s: database differs from what the committed transactions wrote:\n%s", when, d)
	}
}

func (e *exec) open(create bool) {
	var err error
	if create {
		e.db, err = walletdb.Create("bdb", e.path, true, 10*time.Second, false)
	} else {
		e.db, err = walletdb.Open("bdb", e.path, true, 10*time.Second, false)
	}
	if err != nil {
		if create {
			e.incon = fmt.Sprintf("cannot create database: %v", err)
		} else {
			e.failf("reopening the database file failed: %v", err)
		}
	}
}

func (e *exec) runTx(i int, p *txPlan) {
	desc := fmt.Sprintf("tx%d (%s, outcome %s)", i, txKindNames[p.Kind], outcomeNames[p.Outcome])
	e.step(desc)
	e.nTx++
	e.class("tx-" + txKindNames[p.Kind])
	e.work = nil
	e.hooks = 0
	e.wrote = false

	var rec interface{}
	var stack []byte
	var err error
	call := func(f func() error) {
		defer func() {
			if rec = recover(); rec != nil {
				stack = debug.Stack()
			}
		}()
		err = f()
	}
	resetsBefore := -1

	switch p.Kind {
	case kUpdate:
		call(func() error {
			return walletdb.Update(e.db, func(tx walletdb.ReadWriteTx) error { return e.body(p, tx, tx) })
		})
	case kUpdateDirect:
		e.resets = 0
		call(func() error {
			return e.db.Update(func(tx walletdb.ReadWriteTx) error { resetsBefore = e.resets; return e.body(p, tx, tx) },
				func() { e.resets++ })
		})
	case kBatch:
		call(func() error {
			return walletdb.Batch(e.db, func(tx walletdb.ReadWriteTx) error { return e.body(p, tx, tx) })
		})
	case kView:
		call(func() error {
			return walletdb.View(e.db, func(tx walletdb.ReadTx) error { return e.body(p, tx, nil) })
		})
	case kViewDirect:
		e.resets = 0
		call(func() error {
			return e.db.View(func(tx walletdb.ReadTx) error { resetsBefore = e.resets; return e.body(p, tx, nil) },
				func() { e.resets++ })
		})
	case kManualRW:
		e.runManualRW(desc, p)
		return
	case kManualRO:
		e.runManualRO(desc, p)
		return
	}
	if e.bad() {
		return
	}
	if resetsBefore == 0 {
		e.failf("%s: the reset function was not called before the transaction function (documented: called before the start of the transaction)", desc)
		return
	}

	wroteBeforeFail := e.wrote
	switch p.Outcome {
	case oNil:
		if rec != nil {
			e.failf("%s: unexpected panic %v\n%s", desc, rec, stack)
			return
		}
		if err != nil {
			e.failf("%s: function returned nil but the call returned %v", desc, err)
			return
		}
		if !p.Kind.readOnly() {
			e.committed = e.work
			markBig(e.committed)
			e.everBig = e.everBig || anyMark(e.committed)
			if p.OnCommit && e.hooks != 1 {
				e.failf("%s: committed, OnCommit hook ran %d times", desc, e.hooks)
			}
		}
	case oErr:
		if rec != nil {
			e.failf("%s: unexpected panic %v\n%s", desc, rec, stack)
			return
		}
		if err != errInjected {
			e.failf("%s: function returned its error but the call returned %v (documented: f's error is returned)", desc, err)
			return
		}
		if e.hooks != 0 {
			e.failf("%s: rolled back but the OnCommit hook ran", desc)
		}
	case oPanic:
		if _, ours := rec.(injectedPanic); !ours {
			if rec == nil {
				e.failf("%s: the function panicked but the call returned normally (err=%v)", desc, err)
			} else {
				e.failf("%s: unexpected panic value %v\n%s", desc, rec, stack)
			}
			return
		}
		if e.hooks != 0 {
			e.failf("%s: function panicked but the OnCommit hook ran", desc)
		}
	}
	if p.Outcome != oNil {
		early := len(p.Ops) == 0
		when := "late"
		if early {
			when = "early"
		}
		e.class("outcome-" + outcomeNames[p.Outcome] + "-" + when)
		if !p.Kind.readOnly() {
			if wroteBeforeFail {
				e.nFailedAfterWrite++
				e.class("failed-after-write-" + outcomeNames[p.Outcome])
			}
		} else {
			e.class("read-tx-" + outcomeNames[p.Outcome])
		}
	}
	e.stepDone(desc)
	e.afterTx(desc, p)
}

func (e *exec) runManualRW(desc string, p *txPlan) {
	tx, err := e.db.BeginReadWriteTx()
	if err != nil {
		e.failf("%s: BeginReadWriteTx: %v", desc, err)
		return
	}
	berr := func() (err error) {
		defer func() {
			if r := recover(); r != nil {
				e.failf("%s: unexpected panic %v\n%s", desc, r, debug.Stack())
				err = errAbort
			}
		}()
		q := *p
		q.Outcome = oNil
		return e.body(&q, tx, tx)
	}()
	if berr != nil || e.bad() {
		_ = tx.Rollback()
		return
	}
	// the transaction may be ended through the handle a bucket gives out
	// (Bucket.Tx()) instead of the one BeginReadWriteTx returned
	ender := walletdb.ReadWriteTx(tx)
	if p.ClosedOp&4 != 0 {
		var first []byte
		_ = tx.ForEachBucket(func(k []byte) error {
			if first == nil {
				first = append([]byte{}, k...)
			}
			return nil
		})
		if first != nil {
			if b := tx.ReadWriteBucket(first); b != nil {
				ender = b.Tx()
				e.class("manual-tx-ended-through-bucket-handle")
			}
		}
	}
	if p.Outcome == oNil {
		if err := ender.Commit(); err != nil {
			e.failf("%s: Commit: %v", desc, err)
			return
		}
		e.committed = e.work
		markBig(e.committed)
		e.everBig = e.everBig || anyMark(e.committed)
		if p.OnCommit && e.hooks != 1 {
			e.failf("%s: committed, OnCommit hook ran %d times", desc, e.hooks)
		}
	} else {
		if err := ender.Rollback(); err != nil {
			e.failf("%s: Rollback: %v", desc, err)
			return
		}
		if e.hooks != 0 {
			e.failf("%s: rolled back but the OnCommit hook ran", desc)
		}
		if e.wrote {
			e.nFailedAfterWrite++
			e.class("manual-rollback-after-write")
		}
	}
	if p.ClosedOp&1 != 0 {
		e.class("closed-tx-op")
		e.wantErr(desc+": Commit on the already closed transaction", tx.Commit(), walletdb.ErrTxClosed)
	}
	if p.ClosedOp&2 != 0 {
		e.class("closed-tx-op")
		e.wantErr(desc+": Rollback on the already closed transaction", tx.Rollback(), walletdb.ErrTxClosed)
	}
	e.stepDone(desc)
	e.afterTx(desc, p)
}

func (e *exec) runManualRO(desc string, p *txPlan) {
	tx, err := e.db.BeginReadTx()
	if err != nil {
		e.failf("%s: BeginReadTx: %v", desc, err)
		return
	}
	berr := func() (err error) {
		defer func() {
			if r := recover(); r != nil {
				e.failf("%s: unexpected panic %v\n%s", desc, r, debug.Stack())
				err = errAbort
			}
		}()
		return e.body(p, tx, nil)
	}()
	if rerr := tx.Rollback(); rerr != nil && berr == nil {
		e.failf("%s: Rollback of the read transaction: %v", desc, rerr)
		return
	}
	if berr != nil || e.bad() {
		return
	}
	if p.ClosedOp&2 != 0 {
		e.class("closed-tx-op")
		e.wantErr(desc+": Rollback on the already closed transaction", tx.Rollback(), walletdb.ErrTxClosed)
	}
	e.stepDone(desc)
	e.afterTx(desc, p)
}

// afterTx is the oracle between transactions.
func (e *exec) afterTx(desc string, p *txPlan) {
	if e.bad() {
		return
	}
	e.checkCommitted("after " + desc)
	failed := p.Kind.managed() && p.Outcome != oNil
	if failed && !e.bad() {
		// still usable: a write transaction must begin and commit
		e.step("probe write transaction after " + desc)
		err := walletdb.Update(e.db, func(tx walletdb.ReadWriteTx) error {
			b, err := tx.CreateTopLevelBucket([]byte("~probe"))
			if err != nil {
				return err
			}
			_, err = b.NextSequence()
			return err
		})
		if err != nil {
			e.failf("database unusable after %s: the next write transaction failed: %v", desc, err)
			return
		}
		pb := e.committed.Sub["~probe"]
		if pb == nil {
			pb = dbmodel.New()
			e.committed.Sub["~probe"] = pb
		}
		pb.Seq++
		e.checkCommitted("after the probe write following " + desc)
	}
	if p.Reopen && !e.bad() {
		e.step("close and reopen after " + desc)
		e.class("reopen")
		if err := e.db.Close(); err != nil {
			e.failf("Close after %s: %v", desc, err)
			e.db = nil
			return
		}
		e.db = nil
		e.open(false)
		e.checkCommitted("after reopening the file following " + desc)
	}
}

func (e *exec) run(plans []txPlan) {
	e.step("create database")
	e.open(true)
	if e.bad() {
		return
	}
	for i := range plans {
		e.runTx(i, &plans[i])
		if e.bad() {
			break
		}
	}
	e.step("final close")
	if e.db != nil {
		if err := e.db.Close(); err != nil && !e.bad() {
			e.failf("final Close: %v", err)
		}
	}
	if e.bad() {
		return
	}
	// classes over the final committed state
	seen := map[string][]byte{}
	var rec func(b *dbmodel.Bucket)
	rec = func(b *dbmodel.Bucket) {
		for k, v := range b.KV {
			if o, ok := seen[k]; ok && !bytes.Equal(o, v) {
				e.class("same-key-different-value-in-two-buckets")
			}
			seen[k] = v
		}
		for _, s := range b.Sub {
			rec(s)
		}
	}
	rec(e.committed)
	if e.everBig {
		e.class("multi-page-bucket(estimated)")
	}
	e.progress.Add(1)
}

func watchdogLimit() time.Duration {
	if s := os.Getenv("VERIF_C11_WATCHDOG"); s != "" {
		if d, err := time.ParseDuration(s); err == nil {
			return d
		}
	}
	return 20 * time.Second
}

// runPlan executes the plan in its own goroutine under a watchdog: every step
// normally takes well under a millisecond; if the same step is still running
// after the limit (20 s) the database is reported unusable (a leaked writer
// lock or reader is a deterministic deadlock).
func runPlan(plans []txPlan, knownLast, knownPrev bool) (e *exec, violation, inconclusive string) {
	dir, err := os.MkdirTemp("/dev/shm", "verif-c11-")
	if err != nil {
		return nil, "", fmt.Sprintf("cannot create scratch directory: %v", err)
	}
	defer os.RemoveAll(dir)
	e = newExec(filepath.Join(dir, "c11.db"))
	e.knownLast, e.knownPrev = knownLast, knownPrev
	done := make(chan struct{})
	go func() {
		defer close(done)
		defer func() {
			if r := recover(); r != nil {
				e.failf("unexpected panic outside a transaction function: %v\n%s", r, debug.Stack())
			}
		}()
		e.run(plans)
	}()
	limit := watchdogLimit()
	timer := time.NewTimer(limit)
	defer timer.Stop()
	last := e.progress.Load()
	for {
		select {
		case <-done:
			return e, e.viol, e.incon
		case <-timer.C:
			cur := e.progress.Load()
			if cur == last {
				e.mu.Lock()
				stepDesc, lastDesc := e.stepDesc, e.lastDesc
				e.mu.Unlock()
				buf := make([]byte, 1<<20)
				buf = buf[:runtime.Stack(buf, true)]
				return nil, fmt.Sprintf("database unusable after %s: step %q has not finished after %v (leaked lock / transaction?)\ngoroutines:\n%s",
					lastDesc, stepDesc, limit, buf), ""
			}
			last = cur
			timer.Reset(limit)
		}
	}
}

// C09 - concurrent requests never receive the same address.
package c09

import (
	"fmt"
	"os"
	"sort"
	"sync"
	"sync/atomic"
	"testing"
	"time"

	"github.com/btcsuite/btcd/btcutil"
	"github.com/btcsuite/btcd/btcutil/psbt"
	"github.com/btcsuite/btcd/txscript"
	"github.com/btcsuite/btcd/wire"
	"github.com/btcsuite/btcwallet/waddrmgr"
	"github.com/btcsuite/btcwallet/wallet"
	"github.com/btcsuite/btcwallet/walletdb"
	"pgregory.net/rapid"

	"verifharness/internal/evid"
	"verifharness/internal/proxydb"
	"verifharness/internal/walletsim"
)

type call struct {
	Kind    string // new, change, current, create, create-dry, fundpsbt
	Scope   waddrmgr.KeyScope
	Account uint32
}

type result struct {
	worker, idx int
	call        call
	addr        btcutil.Address // the address the call obtained (nil: none / failed)
	err         error
}

func TestC09ConcurrentAddresses(t *testing.T) {
	g := evid.G("TestC09ConcurrentAddresses")
	thorough := os.Getenv("VERIF_TIER") == "thorough"
	rapid.Check(t, func(t *rapid.T) {
		c := g.Begin()
		defer c.End()
		// the wallet's database is wrapped so that commit handlers can be held
		var proxy *proxydb.DB
		s := newScenario(t, c, func(db walletdb.DB) walletdb.DB {
			proxy = proxydb.New(db)
			return proxy
		})
		defer s.F.Close()

		// ---- the drawn schedule ------------------------------------------------------
		nWorkers := rapid.IntRange(2, 6).Draw(t, "workers")
		maxCalls := 4
		if thorough {
			maxCalls = 6
		}
		// a small set of (scope, account) pairs so that calls collide on a branch
		pairs := []call{}
		for i := 0; i < rapid.IntRange(1, 2).Draw(t, "nPairs"); i++ {
			pairs = append(pairs, call{Scope: waddrmgr.DefaultKeyScopes[rapid.IntRange(0, 3).Draw(t, "scope")], Account: uint32(rapid.IntRange(0, 1).Draw(t, "account"))})
		}
		scripts := make([][]call, nWorkers)
		for w := range scripts {
			n := rapid.IntRange(1, maxCalls).Draw(t, "nCalls")
			for k := 0; k < n; k++ {
				p := pairs[rapid.IntRange(0, len(pairs)-1).Draw(t, "pair")]
				p.Kind = rapid.SampledFrom([]string{"new", "new", "change", "change", "current", "create", "create-dry", "fundpsbt", "fundpsbt-inputs", "fundpsbt-inputs"}).Draw(t, "kind")
				scripts[w] = append(scripts[w], p)
			}
			c.Logf("worker %d: %v", w, scripts[w])
		}
		// bystanders: callers that list accounts, read account properties or
		// rename an account while addresses are being issued; they receive nothing
		nReaders := rapid.IntRange(0, 2).Draw(t, "readers")
		c.Logf("read-only bystanders: %d", nReaders)
		gateEvery := rapid.IntRange(1, 4).Draw(t, "gateEvery") // gate every k-th commit ...
		gateBound := time.Duration(rapid.IntRange(3, 15).Draw(t, "gateBoundMs")) * time.Millisecond
		gated := rapid.IntRange(0, 4).Draw(t, "gated") > 0 // ... in 80% of the cases
		c.Logf("gate: on=%v every=%d bound=%v", gated, gateEvery, gateBound)

		// ---- pre-state -----------------------------------------------------------------
		type bk struct {
			sc     waddrmgr.KeyScope
			acct   uint32
			branch uint32
		}
		counts := func() map[bk]uint32 {
			out := map[bk]uint32{}
			for _, p := range pairs {
				props, err := s.F.W.AccountProperties(p.Scope, p.Account)
				if err != nil {
					s.F.Violation("AccountProperties failed: %v", err)
				}
				out[bk{p.Scope, p.Account, 0}] = props.ExternalKeyCount
				out[bk{p.Scope, p.Account, 1}] = props.InternalKeyCount
			}
			return out
		}
		pre := counts()

		// ---- gates -----------------------------------------------------------------------
		var completed, commits, overlaps int64
		if gated {
			proxy.Gate = func() {
				k := atomic.AddInt64(&commits, 1)
				if k%int64(gateEvery) != 0 {
					return
				}
				// hold this commit's handlers until another worker has completed a
				// call, or the bound elapses (under a correct tree everybody else is
				// blocked on the wallet's address mutex and the bound elapses)
				start := atomic.LoadInt64(&completed)
				deadline := time.Now().Add(gateBound)
				for time.Now().Before(deadline) {
					if atomic.LoadInt64(&completed) > start {
						atomic.AddInt64(&overlaps, 1)
						return
					}
					time.Sleep(200 * time.Microsecond)
				}
			}
		}

		// ---- run ---------------------------------------------------------------------------
		var mu sync.Mutex
		var results []result
		var wg sync.WaitGroup
		startGun := make(chan struct{})
		for w := range scripts {
			wg.Add(1)
			go func(w int) {
				defer wg.Done()
				<-startGun
				for i, cl := range scripts[w] {
					r := result{worker: w, idx: i, call: cl}
					r.addr, r.err = doCall(s, cl)
					atomic.AddInt64(&completed, 1)
					mu.Lock()
					results = append(results, r)
					mu.Unlock()
				}
			}(w)
		}
		stopReaders := make(chan struct{})
		var rwg sync.WaitGroup
		for r := 0; r < nReaders; r++ {
			rwg.Add(1)
			go func(r int) {
				defer rwg.Done()
				<-startGun
				for i := 0; ; i++ {
					select {
					case <-stopReaders:
						return
					default:
					}
					p := pairs[(r+i)%len(pairs)]
					switch (r + i) % 3 {
					case 0:
						_, _ = s.F.W.AccountProperties(p.Scope, p.Account)
					case 1:
						_, _ = s.F.W.Accounts(p.Scope)
					default:
						// renaming an account issues nothing either
						_ = s.F.W.RenameAccount(p.Scope, p.Account, fmt.Sprintf("n%dr%di%d", p.Account, r, i))
					}
					time.Sleep(50 * time.Microsecond)
				}
			}(r)
		}
		close(startGun)
		done := make(chan struct{})
		go func() { wg.Wait(); close(stopReaders); rwg.Wait(); close(done) }()
		select {
		case <-done:
		case <-time.After(120 * time.Second):
			s.F.Inconclusive("workers did not finish within 120s")
		}
		proxy.Gate = nil
		if nReaders > 0 {
			c.Class("read-only-bystanders")
		}

		// ---- oracle: outcome only -----------------------------------------------------------
		sort.Slice(results, func(a, b int) bool {
			if results[a].worker != results[b].worker {
				return results[a].worker < results[b].worker
			}
			return results[a].idx < results[b].idx
		})
		owner := map[string]string{}
		issued := map[bk]map[uint32]bool{}
		currentCalls := map[bk]int{}
		sameBranch := map[bk]map[int]bool{}
		for _, r := range results {
			who := fmt.Sprintf("worker %d call %d (%s %v/%d)", r.worker, r.idx, r.call.Kind, r.call.Scope, r.call.Account)
			if r.err != nil {
				c.Logf("%s -> error %v", who, r.err)
				if r.call.Kind == "new" || r.call.Kind == "change" || r.call.Kind == "current" {
					s.F.Violation("%s failed: %v", who, r.err)
				}
				continue
			}
			if r.call.Kind == "current" {
				currentCalls[bk{r.call.Scope, r.call.Account, 0}]++
				continue
			}
			if r.call.Kind == "create-dry" {
				continue // rolled back: nothing committed
			}
			if r.addr == nil {
				// a transaction that ended up without a change output still drew (and committed) a change address
				currentCalls[bk{r.call.Scope, r.call.Account, 1}]++
				continue
			}
			a := r.addr.EncodeAddress()
			c.Logf("%s -> %s", who, a)
			if prev, dup := owner[a]; dup {
				s.F.Violation("address %s was handed out twice: to %s and to %s", a, prev, who)
			}
			owner[a] = who
			ma, err := s.F.W.AddressInfo(r.addr)
			if err != nil {
				s.F.Violation("%s obtained %s but the wallet does not know that address afterwards: %v", who, a, err)
			}
			pk, ok := ma.(waddrmgr.ManagedPubKeyAddress)
			if !ok {
				s.F.Violation("%s obtained a %T", who, ma)
			}
			sc, dp, _ := pk.DerivationInfo()
			key := bk{sc, dp.InternalAccount, dp.Branch}
			wantBranch := uint32(0)
			if r.call.Kind != "new" {
				wantBranch = 1
			}
			if r.call.Kind == "fundpsbt-inputs" {
				c.Class("fundpsbt-with-caller-inputs-issued-change")
			}
			if sc != r.call.Scope || dp.InternalAccount != r.call.Account || dp.Branch != wantBranch {
				s.F.Violation("%s obtained %s which is %v account %d branch %d", who, a, sc, dp.InternalAccount, dp.Branch)
			}
			if issued[key] == nil {
				issued[key] = map[uint32]bool{}
				sameBranch[key] = map[int]bool{}
			}
			if issued[key][dp.Index] {
				s.F.Violation("index %d of %v account %d branch %d was issued twice", dp.Index, sc, dp.InternalAccount, dp.Branch)
			}
			issued[key][dp.Index] = true
			sameBranch[key][r.worker] = true
		}
		post := counts()
		for key, before := range pre {
			after := post[key]
			missing := 0
			for i := before; i < after; i++ {
				if !issued[key][i] {
					missing++
				}
			}
			for i := range issued[key] {
				if i < before || i >= after {
					s.F.Violation("%v account %d branch %d: index %d was handed out but the branch's range is [%d,%d)", key.sc, key.acct, key.branch, i, before, after)
				}
			}
			// an index nobody received can only stem from a CurrentAddress call that had to issue one
			if missing > currentCalls[key] {
				s.F.Violation("%v account %d branch %d: range [%d,%d) has %d indices no successful call received (gap); only %d calls (CurrentAddress, change-less transactions) could have drawn one silently",
					key.sc, key.acct, key.branch, before, after, missing, currentCalls[key])
			}
		}
		// the database agrees with memory: a freshly opened manager reports the same counts
		err := walletdb.View(s.F.DB, func(tx walletdb.ReadTx) error {
			ns := tx.ReadBucket([]byte("waddrmgr"))
			fresh, err := waddrmgr.Open(ns, s.F.PubPass, s.F.Params)
			if err != nil {
				return err
			}
			defer fresh.Close()
			for key, after := range post {
				sm, err := fresh.FetchScopedKeyManager(key.sc)
				if err != nil {
					return err
				}
				props, err := sm.AccountProperties(ns, key.acct)
				if err != nil {
					return err
				}
				n := props.ExternalKeyCount
				if key.branch == 1 {
					n = props.InternalKeyCount
				}
				if n != after {
					return fmt.Errorf("%v account %d branch %d: memory says next index %d, the database says %d", key.sc, key.acct, key.branch, after, n)
				}
			}
			return nil
		})
		if err != nil {
			s.F.Violation("after the concurrent run: %v", err)
		}
		collide := false
		for _, ws := range sameBranch {
			if len(ws) >= 2 {
				collide = true
			}
		}
		if collide {
			c.Class(">=2-workers-issued-on-the-same-branch")
		}
		if gated {
			c.Class("gated")
		}
		if atomic.LoadInt64(&overlaps) > 0 {
			c.Class("gate-released-by-a-call-completing-meanwhile")
		}
		if collide && gated && atomic.LoadInt64(&commits) >= int64(gateEvery) {
			c.NonTrivial()
		}
	})
}

func newScenario(t *rapid.T, c *evid.Case, wrap func(walletdb.DB) walletdb.DB) *walletsim.Scenario {
	walletsim.WrapNext = wrap
	defer func() { walletsim.WrapNext = nil }()
	s := walletsim.NewScenario(t, "C09", c, 3, 1)
	// funds on every address so that transactions needing change can be created
	s.Mine(1, []*wire.MsgTx{s.FundingTx(4), s.FundingTx(4), s.FundingTx(4), s.FundingTx(4)}, nil)
	s.Mine(1, []*wire.MsgTx{s.FundingTx(4), s.FundingTx(4), s.FundingTx(4), s.FundingTx(4)}, nil)
	return s
}

func doCall(s *walletsim.Scenario, cl call) (btcutil.Address, error) {
	w := s.F.W
	switch cl.Kind {
	case "new":
		return w.NewAddress(cl.Account, cl.Scope)
	case "change":
		return w.NewChangeAddress(cl.Account, cl.Scope)
	case "current":
		return w.CurrentAddress(cl.Account, cl.Scope)
	case "create", "create-dry":
		sc := cl.Scope
		out := wire.NewTxOut(1500, []byte{0x00, 0x14, 1, 2, 3, 4, 5, 6, 7, 8, 9, 10, 11, 12, 13, 14, 15, 16, 17, 18, 19, 20})
		tx, err := w.CreateSimpleTx(&sc, cl.Account, []*wire.TxOut{out}, 1, 1000, wallet.CoinSelectionLargest, cl.Kind == "create-dry")
		if err != nil {
			return nil, err
		}
		if tx.ChangeIndex < 0 {
			return nil, nil
		}
		_, addrs, _, err := txscript.ExtractPkScriptAddrs(tx.Tx.TxOut[tx.ChangeIndex].PkScript, s.F.Params)
		if err != nil || len(addrs) != 1 {
			return nil, fmt.Errorf("cannot parse change script: %v", err)
		}
		return addrs[0], nil
	case "fundpsbt-inputs":
		// FundPsbt with inputs chosen by the caller: the wallet only adds the change output
		sc := cl.Scope
		var pick *walletsim.Coin
		for _, co := range s.Eligible(walletsim.EligibleQuery{Scope: &sc, Account: cl.Account, MinConf: 1}) {
			if co.Value > 20_000 && (pick == nil || co.OutPoint.String() < pick.OutPoint.String()) {
				pick = co
			}
		}
		if pick == nil {
			return nil, fmt.Errorf("no coin for an explicit-input PSBT")
		}
		out := wire.NewTxOut(1500, []byte{0x00, 0x14, 1, 2, 3, 4, 5, 6, 7, 8, 9, 10, 11, 12, 13, 14, 15, 16, 17, 18, 19, 22})
		op := pick.OutPoint
		pkt, err := psbt.New([]*wire.OutPoint{&op}, []*wire.TxOut{out}, 2, 0, []uint32{wire.MaxTxInSequenceNum})
		if err != nil {
			return nil, err
		}
		changeIdx, err := w.FundPsbt(pkt, &sc, 1, cl.Account, 1000, wallet.CoinSelectionLargest)
		if err != nil || changeIdx < 0 {
			return nil, err
		}
		_, addrs, _, err := txscript.ExtractPkScriptAddrs(pkt.UnsignedTx.TxOut[changeIdx].PkScript, s.F.Params)
		if err != nil || len(addrs) != 1 {
			return nil, fmt.Errorf("cannot parse change script: %v", err)
		}
		return addrs[0], nil
	case "fundpsbt":
		sc := cl.Scope
		out := wire.NewTxOut(1500, []byte{0x00, 0x14, 1, 2, 3, 4, 5, 6, 7, 8, 9, 10, 11, 12, 13, 14, 15, 16, 17, 18, 19, 21})
		pkt, err := psbt.New(nil, []*wire.TxOut{out}, 2, 0, nil)
		if err != nil {
			return nil, err
		}
		changeIdx, err := w.FundPsbt(pkt, &sc, 1, cl.Account, 1000, wallet.CoinSelectionLargest)
		if err != nil || changeIdx < 0 {
			return nil, err
		}
		// FundPsbt issues (and commits) a change address of its own
		_, addrs, _, err := txscript.ExtractPkScriptAddrs(pkt.UnsignedTx.TxOut[changeIdx].PkScript, s.F.Params)
		if err != nil || len(addrs) != 1 {
			return nil, fmt.Errorf("cannot parse change script: %v", err)
		}
		return addrs[0], nil
	}
	return nil, fmt.Errorf("unknown call %q", cl.Kind)
}

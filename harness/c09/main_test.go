package c09

import (
	"testing"

	"verifharness/internal/evid"
)

func TestMain(m *testing.M) { evid.Main(m.Run) }

// C14 - unconfirmed transactions are returned parents-first, each exactly once.
//
// Generator: a set of transactions forming a DAG by construction (an input may
// only reference an earlier transaction of the construction order, a
// transaction outside the set, or an outpoint another set member already
// spends = conflicting siblings).  Oracle: validity predicate over the output
// (many orders are right): same length, every member exactly once, every
// in-set parent before its child.
package c14

import (
	"encoding/binary"
	"fmt"
	"testing"

	"github.com/btcsuite/btcd/chaincfg/chainhash"
	"github.com/btcsuite/btcd/wire"
	"github.com/btcsuite/btcwallet/wtxmgr"
	"github.com/btcsuite/btcwallet/walletdb"
	"pgregory.net/rapid"

	"verifharness/internal/evid"
	"verifharness/internal/known"
	"verifharness/internal/txsim"
)

// dagSpec is the drawn description of a case: for each transaction the list of
// inputs as (parent index or -1 for external, output index).
type inSpec struct {
	Parent int // index into the construction order, -1 = outside the set
	Out    uint32
}
type dagSpec struct {
	Ins   [][]inSpec
	NOuts []int
	InSet []bool // false: the transaction exists (others may spend it) but is not a member of the set
}

func drawDAG(t *rapid.T) dagSpec {
	n := rapid.IntRange(0, 40).Draw(t, "n")
	shape := rapid.SampledFrom([]string{"random", "chain", "diamond", "multi", "fan", "components", "noedges"}).Draw(t, "shape")
	var d dagSpec
	for i := 0; i < n; i++ {
		nouts := rapid.IntRange(1, 4).Draw(t, "nouts")
		nin := rapid.IntRange(1, 4).Draw(t, "nin")
		var ins []inSpec
		for k := 0; k < nin; k++ {
			var parent int
			switch {
			case i == 0 || shape == "noedges":
				parent = -1
			case shape == "chain":
				parent = i - 1
			case shape == "multi":
				// several edges to the same parent
				if k == 0 {
					parent = rapid.IntRange(0, i-1).Draw(t, "p")
				} else {
					parent = ins[0].Parent
				}
			case shape == "fan":
				parent = 0
			case shape == "components":
				// only link within the same residue class mod 3
				cands := []int{}
				for j := i - 1; j >= 0; j-- {
					if j%3 == i%3 {
						cands = append(cands, j)
					}
				}
				if len(cands) == 0 {
					parent = -1
				} else {
					parent = rapid.SampledFrom(cands).Draw(t, "p")
				}
			case shape == "diamond":
				// i spends two of the nearest predecessors
				parent = i - 1 - (k % 2)
				if parent < 0 {
					parent = 0
				}
			default:
				if rapid.IntRange(0, 3).Draw(t, "ext") == 0 {
					parent = -1
				} else {
					parent = rapid.IntRange(0, i-1).Draw(t, "p")
				}
			}
			out := uint32(0)
			if parent >= 0 {
				// may equal an outpoint already spent by a sibling: conflicting siblings
				out = uint32(rapid.IntRange(0, d.NOuts[parent]-1).Draw(t, "o"))
			} else {
				out = uint32(rapid.IntRange(0, 3).Draw(t, "o"))
			}
			ins = append(ins, inSpec{parent, out})
		}
		d.Ins = append(d.Ins, ins)
		d.NOuts = append(d.NOuts, nouts)
		d.InSet = append(d.InSet, rapid.IntRange(0, 9).Draw(t, "inset") != 0)
	}
	return d
}

// build materialises the transactions; hashes depend on the content so the
// parent hashes are filled in construction order.
func build(d dagSpec) []*wire.MsgTx {
	txs := make([]*wire.MsgTx, len(d.Ins))
	for i := range d.Ins {
		tx := wire.NewMsgTx(2)
		seen := map[wire.OutPoint]bool{}
		for k, in := range d.Ins[i] {
			var op wire.OutPoint
			if in.Parent >= 0 {
				op = wire.OutPoint{Hash: txs[in.Parent].TxHash(), Index: in.Out}
			} else {
				var h chainhash.Hash
				binary.LittleEndian.PutUint32(h[:], uint32(i*16+k)+1)
				h[31] = 0xee
				op = wire.OutPoint{Hash: h, Index: in.Out}
			}
			if seen[op] {
				continue // a transaction never spends the same outpoint twice
			}
			seen[op] = true
			tx.AddTxIn(wire.NewTxIn(&op, nil, nil))
		}
		for o := 0; o < d.NOuts[i]; o++ {
			script := []byte{0x6a, 4, byte(i), byte(i >> 8), byte(o), 0x14}
			tx.AddTxOut(wire.NewTxOut(int64(1000+i), script))
		}
		txs[i] = tx
	}
	return txs
}

// checkOrder is the oracle.
func checkOrder(set map[chainhash.Hash]*wire.MsgTx, sorted []*wire.MsgTx) error {
	if len(sorted) != len(set) {
		return fmt.Errorf("sorted list has %d transactions, the set has %d", len(sorted), len(set))
	}
	pos := map[chainhash.Hash]int{}
	for i, tx := range sorted {
		if tx == nil {
			return fmt.Errorf("nil transaction at position %d", i)
		}
		h := tx.TxHash()
		if _, ok := set[h]; !ok {
			return fmt.Errorf("position %d: transaction %v is not a member of the set", i, h)
		}
		if j, dup := pos[h]; dup {
			return fmt.Errorf("transaction %v listed twice (positions %d and %d)", h, j, i)
		}
		pos[h] = i
	}
	for h, tx := range set {
		for _, in := range tx.TxIn {
			ph := in.PreviousOutPoint.Hash
			if _, ok := set[ph]; !ok {
				continue
			}
			if pos[ph] >= pos[h] {
				return fmt.Errorf("child %v at position %d precedes its parent %v at position %d", h, pos[h], ph, pos[ph])
			}
		}
	}
	return nil
}

func classify(c *evid.Case, d dagSpec) {
	edges := 0
	dupEdge := false
	conflict := false
	spent := map[[2]int]bool{}
	indeg := map[int]map[int]bool{}
	members := 0
	for i, ins := range d.Ins {
		if !d.InSet[i] {
			continue
		}
		members++
		seenP := map[int]int{}
		for _, in := range ins {
			if in.Parent >= 0 && d.InSet[in.Parent] {
				edges++
				seenP[in.Parent]++
				if indeg[i] == nil {
					indeg[i] = map[int]bool{}
				}
				indeg[i][in.Parent] = true
			}
			if in.Parent >= 0 {
				k := [2]int{in.Parent, int(in.Out)}
				if spent[k] {
					conflict = true
				}
				spent[k] = true
			}
		}
		for _, n := range seenP {
			if n > 1 {
				dupEdge = true
			}
		}
	}
	if edges > 0 {
		c.Class("has-edge")
		c.NonTrivial()
	} else {
		c.Class("no-edges")
	}
	if dupEdge {
		c.Class("duplicate-edges")
	}
	if conflict {
		c.Class("conflicting-siblings")
	}
	for _, ps := range indeg {
		if len(ps) >= 2 {
			c.Class("fan-in(diamond-capable)")
			break
		}
	}
	if members == 0 {
		c.Class("empty-set")
	}
	for i := range d.InSet {
		if !d.InSet[i] {
			c.Class("has-out-of-set-parent-candidates")
			break
		}
	}
}

func runDAG(t interface {
	Fatalf(string, ...interface{})
}, d dagSpec, c *evid.Case, repeats int) {
	txs := build(d)
	for rep := 0; rep < repeats; rep++ {
		set := make(map[chainhash.Hash]*wire.MsgTx, len(txs))
		// vary the insertion order too; Go randomises iteration in any case
		for k := range txs {
			i := k
			if rep%2 == 1 {
				i = len(txs) - 1 - k
			}
			if d.InSet[i] {
				set[txs[i].TxHash()] = txs[i]
			}
		}
		sorted := wtxmgr.DependencySort(set)
		if err := checkOrder(set, sorted); err != nil {
			t.Fatalf("C14 VIOLATED (repeat %d): %v\ncase:\n%s", rep, err, c.Text())
		}
	}
}

func render(c *evid.Case, d dagSpec) {
	c.Logf("n=%d", len(d.Ins))
	for i, ins := range d.Ins {
		c.Logf("tx%d inset=%v outs=%d ins=%v", i, d.InSet[i], d.NOuts[i], ins)
	}
}

func TestC14DependencySort(t *testing.T) {
	g := evid.G("TestC14DependencySort")
	rapid.Check(t, func(t *rapid.T) {
		d := drawDAG(t)
		c := g.Begin()
		defer c.End()
		render(c, d)
		classify(c, d)
		runDAG(t, d, c, 8)
	})
}

// decodeDAG turns fuzz bytes into a DAG description (total: any byte string is
// a valid description).
func decodeDAG(data []byte) dagSpec {
	var d dagSpec
	pos := 0
	next := func() int {
		if pos >= len(data) {
			return 0
		}
		b := data[pos]
		pos++
		return int(b)
	}
	n := next() % 41
	for i := 0; i < n; i++ {
		nouts := 1 + next()%4
		nin := 1 + next()%4
		var ins []inSpec
		for k := 0; k < nin; k++ {
			sel := next()
			parent := -1
			if i > 0 && sel%5 != 0 {
				parent = (sel / 5) % i
			}
			out := uint32(next() % 4)
			if parent >= 0 {
				out = out % uint32(d.NOuts[parent])
			}
			ins = append(ins, inSpec{parent, out})
		}
		d.Ins = append(d.Ins, ins)
		d.NOuts = append(d.NOuts, nouts)
		d.InSet = append(d.InSet, next()%10 != 0)
	}
	return d
}

func FuzzDependencySort(f *testing.F) {
	f.Add([]byte{})
	f.Add([]byte{3, 1, 1, 0, 0, 1, 1, 1, 6, 0, 1, 1, 2, 11, 0, 1})
	f.Add([]byte{4, 2, 2, 0, 0, 0, 1, 1, 2, 2, 6, 0, 6, 1, 1, 1, 2, 6, 0, 11, 0, 1, 1, 2, 11, 0, 16, 0, 1})
	g := evid.G("FuzzDependencySort")
	f.Fuzz(func(t *testing.T, data []byte) {
		d := decodeDAG(data)
		c := g.Begin()
		defer c.End()
		render(c, d)
		classify(c, d)
		runDAG(t, d, c, 3)
	})
}

// ---- through the store ------------------------------------------------------

func TestC14UnminedTxs(t *testing.T) {
	g := evid.G("TestC14UnminedTxs")
	rapid.Check(t, func(t *rapid.T) {
		c := g.Begin()
		defer c.End()
		cfg := txsim.Config{
			Prop: "C14",
			Weights: map[string]int{"announce": 10, "mine": 3, "advance": 1, "rollback": 3, "abandon": 1,
				"redeliver": 1, "reopen": 1},
			MinSteps: 5, MaxSteps: 40,
			Universe: txsim.UniverseOpts{MinTx: 4, MaxTx: 16},
			KnownF4:  known.Open("F4"),
		}
		s := txsim.NewSim(t, cfg, c)
		defer s.Close()
		maxEdges, maxUnmined := 0, 0
		s.Run(t, nil, func() {
			s.View(func(ns walletdb.ReadBucket) {
				n, e := s.CheckC14(ns, "read-tx")
				if e > maxEdges {
					maxEdges = e
				}
				if n > maxUnmined {
					maxUnmined = n
				}
			})
		})
		if maxEdges > 0 {
			c.Class("has-edge")
			c.NonTrivial()
		}
		if maxEdges >= 3 {
			c.Class(">=3-edges-among-unconfirmed")
		}
		if s.NRollback > 0 {
			c.Class("unconfirmed-by-rollback")
		}
	})
}

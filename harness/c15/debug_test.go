package c15

import (
	"os"

	"github.com/btcsuite/btclog"
	"github.com/btcsuite/btcwallet/wallet"
)

func init() {
	if os.Getenv("VERIF_WALLET_LOG") != "" {
		b := btclog.NewBackend(os.Stdout)
		l := b.Logger("WLLT")
		l.SetLevel(btclog.LevelError)
		wallet.UseLogger(l)
	}
}

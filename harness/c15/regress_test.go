package c15

import (
	"bytes"
	"testing"
	"time"

	"github.com/btcsuite/btcd/chaincfg"
	"github.com/btcsuite/btcwallet/chain"

	"verifharness/internal/evid"
	"verifharness/internal/known"
	"verifharness/internal/walletsim"
)

const findingBelowBirthday = "F20"

// A reorg whose fork point lies below the wallet's birthday block happens while
// the wallet is stopped. The wallet stores no block hash below its birthday
// block, so the startup rollback runs out of remembered blocks. The generator
// of TestC15TipFollowsBackend keeps fork points at or above the birthday block;
// this is the minimal history outside that restriction.
func TestC15RegressReorgBelowBirthday(t *testing.T) {
	g := evid.G("TestC15RegressReorgBelowBirthday")
	c := g.Begin()
	defer c.End()
	t0 := time.Unix(1_700_000_000, 0)
	f := walletsim.New(t, "C15", &chaincfg.RegressionNetParams, bytes.Repeat([]byte{7}, 32), t0, 0)
	defer f.Close()
	f.Text = c.Text
	// ten blocks 200 minutes apart, block 5 carries the birthday time (the
	// wallet puts its birthday 48 hours before the creation time it is given)
	at := func(h int) time.Time { return t0.Add(-48*time.Hour + time.Duration(h-5)*200*time.Minute) }
	for h := 1; h <= 10; h++ {
		f.Chain.Extend(nil, at(h), nil, 0)
	}
	f.Open()
	f.Connect()
	bb, err := f.W.BirthdayBlock()
	if err != nil {
		f.Violation("no birthday block after the first sync: %v", err)
	}
	f.CheckTipAndHistory("after first sync", bb.Height)
	c.Logf("chain of 10 blocks, birthday block %d, wallet synced to %d", bb.Height, f.W.Manager.SyncedTo().Height)
	if bb.Height < 3 {
		t.Fatalf("INCONCLUSIVE: birthday block %d leaves no room for a fork point below it", bb.Height)
	}
	f.Stop()
	fork := bb.Height - 2
	for f.Chain.Tip().Height > fork {
		f.Chain.DisconnectTip()
	}
	for h := int(fork) + 1; h <= 11; h++ {
		f.Chain.Extend(nil, at(h), nil, 0)
	}
	tip := f.Chain.Tip()
	c.Logf("while stopped: reorg with fork point %d (below the birthday block), new branch up to %d %s", fork, tip.Height, tip.Hash.String()[:8])
	f.Open()
	f.Client.Push(chain.ClientConnected{})
	limit := 60 * time.Second
	if known.Open(findingBelowBirthday) {
		limit = 4 * time.Second
	}
	synced := func() bool {
		st := f.W.Manager.SyncedTo()
		return st.Height == tip.Height && st.Hash == tip.Hash
	}
	deadline := time.Now().Add(limit)
	for !synced() && time.Now().Before(deadline) {
		time.Sleep(5 * time.Millisecond)
	}
	c.NonTrivial()
	c.Class("reorg-below-birthday-while-stopped")
	if synced() {
		f.Quiesce()
		nb, err := f.W.BirthdayBlock()
		if err != nil {
			f.Violation("no birthday block after the restart: %v", err)
		}
		f.CheckTipAndHistory("after restart", nb.Height)
		if known.Open(findingBelowBirthday) {
			g.Note("finding " + findingBelowBirthday + " is listed as open but did not reproduce")
		}
		return
	}
	st := f.W.Manager.SyncedTo()
	if known.Open(findingBelowBirthday) {
		c.Logf("wallet still at %d %s after %v [known finding %s]", st.Height, st.Hash.String()[:8], limit, findingBelowBirthday)
		g.KnownHit(findingBelowBirthday)
		return
	}
	f.Violation("after a reorg below the birthday block while stopped the wallet does not follow the backend: synced to %d %s after %v, backend tip is %d %s", st.Height, st.Hash, limit, tip.Height, tip.Hash)
}

// C15 - the wallet's view of the chain tip follows the backend through reorgs.
package c15

import (
	"encoding/binary"
	"github.com/btcsuite/btcd/btcec/v2"
	"github.com/btcsuite/btcd/btcutil"
	"github.com/btcsuite/btcwallet/wallet"
	"os"
	"testing"
	"time"

	"github.com/btcsuite/btcd/chaincfg"
	"github.com/btcsuite/btcd/chaincfg/chainhash"
	"github.com/btcsuite/btcd/wire"
	"github.com/btcsuite/btcwallet/chain"
	"github.com/btcsuite/btcwallet/waddrmgr"
	"github.com/btcsuite/btcwallet/wtxmgr"
	"pgregory.net/rapid"

	"verifharness/internal/evid"
	"verifharness/internal/simchain"
	"verifharness/internal/walletsim"
)

type sim struct {
	t       *rapid.T
	f       *walletsim.Fixture
	c       *evid.Case
	book    *walletsim.Book
	now     time.Time
	extSeq  uint32
	orphans []*simchain.Block // most recently disconnected blocks
	bdayH   int32             // birthday block height chosen by the wallet
	// statistics
	reorgs, deepReorgWithTx, reorgWhileStopped, restarts, stale, flips int
}

func (s *sim) tick() time.Time {
	s.now = s.now.Add(time.Duration(rapid.IntRange(1, 20).Draw(s.t, "dt")) * time.Minute)
	return s.now
}

// externalInputsOnly reports whether all inputs of tx are outpoints made up by
// fundingTx, i.e. outside the wallet.
func externalInputsOnly(tx *wire.MsgTx) bool {
	for _, in := range tx.TxIn {
		if in.PreviousOutPoint.Hash[31] != 0xf0 {
			return false
		}
	}
	return true
}

// fundingTx pays one of the wallet's addresses from an outpoint outside the wallet.
func (s *sim) fundingTx() *wire.MsgTx {
	own := s.book.List[rapid.IntRange(0, len(s.book.List)-1).Draw(s.t, "payTo")]
	s.extSeq++
	var h chainhash.Hash
	binary.LittleEndian.PutUint32(h[:], s.extSeq)
	h[31] = 0xf0
	tx := wire.NewMsgTx(2)
	tx.AddTxIn(wire.NewTxIn(&wire.OutPoint{Hash: h, Index: 0}, nil, nil))
	tx.AddTxOut(wire.NewTxOut(int64(rapid.IntRange(1000, 5_000_000).Draw(s.t, "amount")), own.Script))
	if rapid.Bool().Draw(s.t, "secondOutput") {
		tx.AddTxOut(wire.NewTxOut(777, []byte{0x51}))
	}
	return tx
}

// spendTx spends an unspent confirmed wallet coin to a script outside the
// wallet (another instance of the same seed could do that), or nil.
func (s *sim) spendTx(spent map[wire.OutPoint]bool) *wire.MsgTx {
	var cands []*walletsim.Coin
	for _, co := range s.book.Coins(s.f.Chain) {
		if co.SpentBy == nil && co.Block != nil && !co.Coinbase && !spent[co.OutPoint] {
			cands = append(cands, co)
		}
	}
	if len(cands) == 0 {
		return nil
	}
	co := cands[rapid.IntRange(0, len(cands)-1).Draw(s.t, "spendWhich")]
	tx := wire.NewMsgTx(2)
	op := co.OutPoint
	tx.AddTxIn(wire.NewTxIn(&op, nil, nil))
	s.extSeq++
	tx.AddTxOut(wire.NewTxOut(co.Value-500, []byte{0x00, 0x14, byte(s.extSeq), byte(s.extSeq >> 8), 3, 4, 5, 6, 7, 8, 9, 10, 11, 12, 13, 14, 15, 16, 17, 18, 19, 20}))
	if rapid.Bool().Draw(s.t, "spendWithChange") {
		own := s.book.List[rapid.IntRange(0, len(s.book.List)-1).Draw(s.t, "changeTo")]
		tx.TxOut[0].Value = co.Value / 2
		tx.AddTxOut(wire.NewTxOut(co.Value/2-500, own.Script))
	}
	return tx
}

// draft is the drawn content of a block that is not mined yet.
type draft struct {
	txs      []*wire.MsgTx
	ts       time.Time
	cbScript []byte
	cbVal    int64
}

// draftBlock draws the content of the next block: some mempool transactions
// (parents first: mempool order is arrival order) and some new ones. spent and
// planned carry the outpoints consumed and transactions included by earlier
// drafts that are not mined yet.
//
// With noSpends the block contains no transaction spending a wallet coin: a
// block found while a rescan is in flight is announced at once, and a spend in
// it would reach the wallet before the rescan has delivered the transaction it
// spends - a child confirmed before its parent, which no history of the
// property's domain contains.
func (s *sim) draftBlock(spent map[wire.OutPoint]bool, planned map[chainhash.Hash]bool, noSpends bool) draft {
	var d draft
	inBlock := map[chainhash.Hash]bool{}
	add := func(tx *wire.MsgTx) {
		for _, in := range tx.TxIn {
			if spent[in.PreviousOutPoint] {
				return
			}
		}
		for _, in := range tx.TxIn {
			spent[in.PreviousOutPoint] = true
		}
		d.txs = append(d.txs, tx)
		inBlock[tx.TxHash()] = true
	}
	for _, tx := range s.f.Chain.Mempool() {
		if planned[tx.TxHash()] {
			continue
		}
		if noSpends && !externalInputsOnly(tx) {
			continue
		}
		// a transaction can only confirm when its parents are confirmed or earlier in the block
		ok := true
		for _, in := range tx.TxIn {
			ph := in.PreviousOutPoint.Hash
			if s.f.Chain.InMempool(ph) && !inBlock[ph] && !planned[ph] {
				ok = false
			}
		}
		if ok && rapid.IntRange(0, 9).Draw(s.t, "takeMempool") < 7 {
			add(tx)
		}
	}
	if len(s.book.List) > 0 {
		nf := rapid.IntRange(0, 2).Draw(s.t, "nFunding")
		for k := 0; k < nf; k++ {
			add(s.fundingTx())
		}
		if !noSpends && rapid.IntRange(0, 3).Draw(s.t, "withSpend") == 0 {
			if tx := s.spendTx(spent); tx != nil {
				add(tx)
			}
		}
		if rapid.IntRange(0, 7).Draw(s.t, "coinbaseToWallet") == 0 {
			d.cbScript = s.book.List[rapid.IntRange(0, len(s.book.List)-1).Draw(s.t, "cbTo")].Script
			d.cbVal = 50_0000
		}
	}
	for h := range inBlock {
		planned[h] = true
	}
	d.ts = s.tick()
	return d
}

// extend mines n blocks.
func (s *sim) extend(n int, log string) {
	for i := 0; i < n; i++ {
		d := s.draftBlock(map[wire.OutPoint]bool{}, map[chainhash.Hash]bool{}, false)
		b := s.f.Chain.Extend(d.txs, d.ts, d.cbScript, d.cbVal)
		s.c.Logf("%s: block %d %s with %d txs (coinbase to wallet: %v)", log, b.Height, b.Hash.String()[:8], len(d.txs), d.cbScript != nil)
	}
}

// blocksDuringRescan draws n blocks now and mines them while the wallet's next
// Rescan call is in flight: their connect notifications reach the wallet before
// the rescan's own notifications and its RescanFinished.
func (s *sim) blocksDuringRescan(n int) {
	spent, planned := map[wire.OutPoint]bool{}, map[chainhash.Hash]bool{}
	var ds []draft
	for i := 0; i < n; i++ {
		ds = append(ds, s.draftBlock(spent, planned, true))
	}
	ch := s.f.Chain
	s.f.Client.DuringRescan = func() {
		for _, d := range ds {
			ch.Extend(d.txs, d.ts, d.cbScript, d.cbVal)
		}
	}
	s.c.Logf("%d block(s) will be found while the startup rescan is in flight", n)
	s.c.Class("block-arrives-during-startup-rescan")
}

// reorg disconnects depth blocks and connects a new branch at least as long.
func (s *sim) reorg(depth int, log string) {
	tipH := s.f.Chain.Tip().Height
	if int32(depth) > tipH-s.bdayH {
		depth = int(tipH - s.bdayH)
	}
	if depth <= 0 {
		return
	}
	touched := false
	s.orphans = nil
	for i := 0; i < depth; i++ {
		b := s.f.Chain.DisconnectTip()
		s.orphans = append(s.orphans, b)
		for _, tx := range b.Msg.Transactions {
			for _, out := range tx.TxOut {
				if _, ok := s.book.ByScript[string(out.PkScript)]; ok {
					touched = true
				}
			}
		}
	}
	s.c.Logf("%s: reorg depth %d (fork point %d), touched wallet tx: %v", log, depth, s.f.Chain.Tip().Height, touched)
	s.reorgs++
	if depth >= 2 && touched {
		s.deepReorgWithTx++
	}
	// between the disconnects and the new branch: the backend's tip is the fork
	// point; repeated disconnect notifications (any subset, any order) must not
	// move the wallet away from it
	if s.f.Client != nil && rapid.Bool().Draw(s.t, "checkMidReorg") {
		n := rapid.IntRange(0, len(s.orphans)).Draw(s.t, "repeatedDisconnects")
		for i := 0; i < n; i++ {
			b := s.orphans[rapid.IntRange(0, len(s.orphans)-1).Draw(s.t, "repeatWhich")]
			s.f.Client.Push(chain.BlockDisconnected(wtxmgr.BlockMeta{Block: wtxmgr.Block{Height: b.Height, Hash: b.Hash}, Time: b.Time()}))
			s.c.Logf("%s: disconnect of %d %s delivered again before the new branch", log, b.Height, b.Hash.String()[:8])
			s.stale++
		}
		s.check("mid-reorg")
		s.c.Class("checked-between-disconnect-and-new-branch")
	}
	newLen := depth + rapid.IntRange(0, 2).Draw(s.t, "extraLen")
	s.extend(newLen, log+" new branch")
}

// importRescan: on the running, synchronised wallet a key is imported with a
// rescan from a few blocks back. The backend reports progress after every
// block, and after the first report the chain reorganises under the running
// rescan (announced at once); the rescan continues on the new chain.
func (s *sim) importRescan(step int) {
	if s.f.Client == nil || s.f.Recovery > 0 {
		return
	}
	tip := s.f.Chain.Tip().Height
	back := int32(rapid.IntRange(2, 5).Draw(s.t, "rescanBack"))
	startH := tip - back
	if startH < s.bdayH {
		startH = s.bdayH
	}
	if tip-startH < 2 {
		return
	}
	start := s.f.Chain.At(startH)
	depth := rapid.IntRange(1, int(tip-startH)).Draw(s.t, "reorgUnderRescan")
	extra := rapid.IntRange(0, 1).Draw(s.t, "extraLen")
	spent, planned := map[wire.OutPoint]bool{}, map[chainhash.Hash]bool{}
	var ds []draft
	for i := 0; i < depth+extra; i++ {
		d := s.draftBlock(spent, planned, true)
		// only new receipts: what the disconnected blocks held returns to the mempool and stays there
		var fresh []*wire.MsgTx
		for _, tx := range d.txs {
			if !s.f.Chain.InMempool(tx.TxHash()) {
				fresh = append(fresh, tx)
			}
		}
		d.txs = fresh
		ds = append(ds, d)
	}
	ch := s.f.Chain
	s.f.Client.ProgressEvery = 1
	s.f.Client.AfterProgress = func() {
		for i := 0; i < depth; i++ {
			ch.DisconnectTip()
		}
		for _, d := range ds {
			ch.Extend(d.txs, d.ts, d.cbScript, d.cbVal)
		}
	}
	raw := make([]byte, 32)
	raw[0], raw[1], raw[2] = 0x41, byte(step+1), byte(tip)
	priv, _ := btcec.PrivKeyFromBytes(raw)
	wif, err := btcutil.NewWIF(priv, s.f.Params, true)
	if err != nil {
		s.f.Inconclusive("NewWIF: %v", err)
	}
	s.f.Unlock() // a restarted wallet is locked
	before := len(s.f.Client.CallsOf("Rescan"))
	bs := waddrmgr.BlockStamp{Height: start.Height, Hash: start.Hash, Timestamp: start.Time()}
	// The import is followed by an explicit rescan request whose answer is
	// waited for, as Wallet.Rescan does. (ImportPrivateKey's own rescan option
	// drops the job's answer channel; if the wallet is stopped at the wrong
	// moment afterwards its rescan goroutine blocks on that channel and the
	// wallet never shuts down - a shutdown race outside every listed property.)
	addrStr, err := s.f.W.ImportPrivateKey(waddrmgr.KeyScopeBIP0084, wif, &bs, false)
	if err != nil {
		s.f.Violation("ImportPrivateKey failed: %v", err)
	}
	addr, err := btcutil.DecodeAddress(addrStr, s.f.Params)
	if err != nil {
		s.f.Violation("ImportPrivateKey returned the undecodable address %q", addrStr)
	}
	select {
	case err := <-s.f.W.SubmitRescan(&wallet.RescanJob{Addrs: []btcutil.Address{addr}, BlockStamp: bs}):
		if err != nil {
			s.f.Violation("the rescan for the imported key failed: %v", err)
		}
	case <-time.After(60 * time.Second):
		s.f.Inconclusive("the rescan for the imported key was not answered within 60s")
	}
	if len(s.f.Client.CallsOf("Rescan")) != before+1 {
		s.f.Inconclusive("the wallet did not send the rescan for the imported key to the backend")
	}
	s.f.Quiesce()
	s.f.Client.ProgressEvery = 0
	s.c.Logf("key imported with a rescan from block %d; after the first progress report the chain reorganised %d deep (new tip %d)", startH, depth, s.f.Chain.Tip().Height)
	s.c.Class("reorg-under-a-running-rescan")
	s.reorgs++
}

func (s *sim) staleNotifications() {
	if s.f.Client == nil {
		return
	}
	tip := s.f.Chain.Tip()
	kind := rapid.IntRange(0, 3).Draw(s.t, "staleKind")
	switch kind {
	case 0: // a disconnect for a future height
		s.f.Client.Push(chain.BlockDisconnected(wtxmgr.BlockMeta{Block: wtxmgr.Block{Height: tip.Height + int32(rapid.IntRange(1, 3).Draw(s.t, "future")), Hash: chainhash.Hash{9}}, Time: s.now}))
		s.c.Logf("stale: disconnect of a future height")
	case 1: // a disconnect for an existing height with a hash that is not the wallet's
		h := tip.Height - int32(rapid.IntRange(0, 2).Draw(s.t, "back"))
		if h < s.bdayH+1 {
			h = tip.Height
		}
		s.f.Client.Push(chain.BlockDisconnected(wtxmgr.BlockMeta{Block: wtxmgr.Block{Height: h, Hash: chainhash.Hash{7, 7}}, Time: s.now}))
		s.c.Logf("stale: disconnect of height %d with a foreign hash", h)
	case 2: // the disconnects of the last reorg delivered again
		for _, b := range s.orphans {
			s.f.Client.Push(chain.BlockDisconnected(wtxmgr.BlockMeta{Block: wtxmgr.Block{Height: b.Height, Hash: b.Hash}, Time: b.Time()}))
		}
		s.c.Logf("stale: %d disconnect notifications of the last reorg delivered again", len(s.orphans))
	default: // the tip's connect notification again
		s.f.Client.Push(chain.BlockConnected(wtxmgr.BlockMeta{Block: wtxmgr.Block{Height: tip.Height, Hash: tip.Hash}, Time: tip.Time()}))
		s.c.Logf("stale: connect of the tip delivered again")
	}
	s.stale++
}

func (s *sim) check(where string) {
	s.f.Quiesce()
	s.f.CheckTipAndHistory(where, s.bdayH)
	if s.f.Recovery > 0 {
		// The recovery loop filters blocks itself, with the watch lists the
		// wallet gives it (issued addresses, unspent outputs); whether those
		// lists suffice to see every relevant transaction again after a reorg
		// is not a statement of this property, so the ledger comparison - which
		// assumes an ideally informed backend - is left to the other cases.
		return
	}
	s.f.CheckBalances(where, s.book, []int32{0, 1, 2, 6})
}

func TestC15TipFollowsBackend(t *testing.T) {
	g := evid.G("TestC15TipFollowsBackend")
	maxSteps := 14
	if os.Getenv("VERIF_TIER") == "thorough" {
		maxSteps = 40
	}
	rapid.Check(t, func(t *rapid.T) {
		c := g.Begin()
		defer c.End()
		seed := rapid.SliceOfN(rapid.Byte(), 32, 32).Draw(t, "seed")
		t0 := time.Unix(1_700_000_000, 0)
		// a quarter of the wallets are opened with a recovery window, as the
		// daemon does by default: every start then runs the recovery loop too
		recov := uint32(rapid.SampledFrom([]int{0, 0, 0, 5}).Draw(t, "recoveryWindow"))
		f := walletsim.New(t, "C15", &chaincfg.RegressionNetParams, seed, t0, recov)
		f.StallIsViolation = true
		f.PerAccount = true
		defer f.Close()
		f.Text = c.Text
		f.Style = simchain.Style(rapid.IntRange(0, 1).Draw(t, "style"))
		s := &sim{t: t, f: f, c: c, book: walletsim.NewBook()}
		// initial chain around the wallet birthday
		n0 := rapid.IntRange(8, 40).Draw(t, "initialBlocks")
		before := rapid.IntRange(2, n0-2).Draw(t, "blocksBeforeBirthday")
		s.now = t0.Add(-time.Duration(before) * 10 * time.Minute * 20)
		for i := 0; i < n0; i++ {
			s.now = s.now.Add(200 * time.Minute)
			f.Chain.Extend(nil, s.now, nil, 0)
		}
		c.Logf("style=%d initial chain %d blocks, birthday %v", f.Style, n0, t0.Unix())
		f.Open()
		f.Client.TxBeforeBlock = rapid.Bool().Draw(t, "txBeforeBlock")
		if os.Getenv("VERIF_DEBUG") != "" {
			f.OnOpen = func() { f.Client.Trace = func(s string) { c.Logf("    %s", s) } }
			f.OnOpen()
		}
		if rapid.IntRange(0, 2).Draw(t, "blockDuringFirstRescan") == 0 {
			s.blocksDuringRescan(rapid.IntRange(1, 2).Draw(t, "nDuringRescan"))
		}
		f.Connect()
		f.Unlock()
		for _, sc := range waddrmgr.DefaultKeyScopes {
			a, err := f.W.NewAddress(0, sc)
			if err != nil {
				f.Violation("NewAddress(%v) failed: %v", sc, err)
			}
			s.book.Add(&walletsim.OwnAddr{Addr: a, Scope: sc})
		}
		bb, err := f.W.BirthdayBlock()
		if err != nil {
			f.Violation("no birthday block after the first sync: %v", err)
		}
		s.bdayH = bb.Height
		s.check("after first sync")
		steps := rapid.IntRange(1, maxSteps).Draw(t, "steps")
		for i := 0; i < steps; i++ {
			switch rapid.SampledFrom([]string{"extend", "extend", "reorg", "reorg", "stale", "mempool", "restart", "import-rescan"}).Draw(t, "step") {
			case "import-rescan":
				s.importRescan(i)
			case "extend":
				s.extend(rapid.IntRange(1, 5).Draw(t, "n"), "extend")
			case "reorg":
				s.reorg(rapid.IntRange(1, 8).Draw(t, "depth"), "reorg")
			case "stale":
				s.staleNotifications()
			case "mempool":
				tx := s.fundingTx()
				f.Chain.AddToMempool(tx)
				c.Logf("mempool: funding tx %s", tx.TxHash().String()[:8])
			case "restart":
				f.Stop()
				c.Logf("wallet stopped")
				if rapid.Bool().Draw(t, "extendWhileDown") {
					s.extend(rapid.IntRange(1, 4).Draw(t, "nDown"), "while stopped: extend")
				}
				if rapid.IntRange(0, 2).Draw(t, "reorgWhileDown") > 0 {
					s.reorg(rapid.IntRange(1, 6).Draw(t, "depthDown"), "while stopped: reorg")
					s.reorgWhileStopped++
				}
				f.Style = simchain.Style(rapid.IntRange(0, 1).Draw(t, "style"))
				f.Open()
				f.Client.TxBeforeBlock = rapid.Bool().Draw(t, "txBeforeBlock")
				if f.Client.ProgressEvery = rapid.IntRange(0, 3).Draw(t, "progressEvery"); f.Client.ProgressEvery > 0 {
					c.Class("rescan-reports-progress")
				}
				if rapid.IntRange(0, 2).Draw(t, "blockDuringRescan") == 0 {
					s.blocksDuringRescan(rapid.IntRange(1, 2).Draw(t, "nDuringRescan"))
				}
				f.Connect()
				c.Logf("wallet restarted (style %d)", f.Style)
				s.restarts++
			}
			s.check("after step")
		}
		// persistence: the same facts after reopening the database
		f.Stop()
		f.Open()
		f.Connect()
		s.check("after final reopen")
		if s.reorgs > 0 {
			c.Class("reorg")
		}
		if s.deepReorgWithTx > 0 {
			c.Class("reorg-depth>=2-touching-wallet-tx")
		}
		if s.reorgWhileStopped > 0 {
			c.Class("reorg-while-stopped")
		}
		if s.restarts > 0 {
			c.Class("restart")
		}
		if s.stale > 0 {
			c.Class("stale-or-repeated-notification")
		}
		if recov > 0 {
			c.Class("opened-with-recovery-window")
		}
		if f.Style == simchain.StyleBitcoind {
			c.Class("style-bitcoind")
		} else {
			c.Class("style-btcd")
		}
		if s.deepReorgWithTx > 0 || s.reorgWhileStopped > 0 {
			c.NonTrivial()
		}
	})
}

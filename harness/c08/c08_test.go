// C08 - what the wallet says in memory is what a restart would say.
package c08

import (
	"os"
	"testing"
	"verifharness/internal/known"
	"verifharness/internal/watchdog"

	"pgregory.net/rapid"

	"verifharness/internal/evid"
	"verifharness/internal/mgrsim"
)

var weights = map[string]int{
	"next": 10, "extend": 2, "lookup": 4, "derivePath": 1, "markUsed": 4, "lock": 2, "unlock": 3, "changePass": 1,
	"newAccount": 3, "newWOAcct": 3, "rename": 3, "invalidate": 1, "importKey": 2, "importScript": 1, "importPubKey": 1, "setSynced": 3, "newScope": 1, "restart": 1, "convert": 1,
}

func TestC08MemoryEqualsRestart(t *testing.T) {
	g := evid.G("TestC08MemoryEqualsRestart")
	maxSteps := 25
	if os.Getenv("VERIF_TIER") == "thorough" {
		maxSteps = 50
	}
	rapid.Check(t, func(t *rapid.T) {
		watchdog.Case(t, "C08", g, func(c *evid.Case) {
			m := mgrsim.New(t, "C08", c)
			defer m.Close()
			// every mutating operation may also run in a transaction that is
			// rolled back (error after success, or failed commit)
			m.ExtraFates = map[string]bool{"extend": true, "markUsed": true, "rename": true, "importKey": true, "importScript": true, "importPubKey": true, "newScope": true}
			m.KnownF22 = func() bool {
				if known.Open("F22") {
					g.KnownHit("F22")
					return true
				}
				return false
			}
			rolledBackThenCommitted := false
			lastRB := 0
			m.Run(t, weights, 5, maxSteps, 30, func(op string) {
				// a restart is considered at every commit boundary
				m.CheckFresh("after " + op)
				if m.N["rolled-back-issue"] > 0 && m.N["issued"] > lastRB {
					rolledBackThenCommitted = true
				}
				if m.N["rolled-back-issue"] == 0 {
					lastRB = m.N["issued"]
				}
			})
			for _, k := range []string{"rolled-back-issue", "rename", "mark-used", "restart", "imported-account", "new-account", "passphrase-change",
				"extended", "import-key", "import-script", "custom-scope", "fresh-compare"} {
				if m.N[k] > 0 {
					c.Class(k)
				}
			}
			if rolledBackThenCommitted {
				c.Class("rolled-back-issue-followed-by-committed-issue")
			}
			if rolledBackThenCommitted || ((m.N["rename"] > 0 || m.N["mark-used"] > 0) && m.N["lookup"] > 0) {
				c.NonTrivial()
			}
		})
	})
}

package c08

import (
	"fmt"
	"math"
	"sort"
	"testing"

	"github.com/btcsuite/btcd/btcutil/hdkeychain"
	"github.com/btcsuite/btcd/btcutil/psbt"
	"github.com/btcsuite/btcd/wire"
	"github.com/btcsuite/btcwallet/waddrmgr"
	"github.com/btcsuite/btcwallet/wallet"
	"github.com/btcsuite/btcwallet/walletdb"
	"pgregory.net/rapid"

	"verifharness/internal/evid"
	"verifharness/internal/walletsim"
)

// answers of one manager about every account of the default scopes
func ask(mgr *waddrmgr.Manager, ns walletdb.ReadBucket) (map[string]string, error) {
	out := map[string]string{}
	for _, sc := range waddrmgr.DefaultKeyScopes {
		sm, err := mgr.FetchScopedKeyManager(sc)
		if err != nil {
			return nil, err
		}
		var accts []uint32
		if err := sm.ForEachAccount(ns, func(a uint32) error { accts = append(accts, a); return nil }); err != nil {
			return nil, err
		}
		sort.Slice(accts, func(i, j int) bool { return accts[i] < accts[j] })
		out[fmt.Sprintf("%v/accounts", sc)] = fmt.Sprint(accts)
		for _, a := range accts {
			if a == waddrmgr.ImportedAddrAccount {
				continue
			}
			p, err := sm.AccountProperties(ns, a)
			if err != nil {
				out[fmt.Sprintf("%v/%d", sc, a)] = "ERR " + err.Error()
				continue
			}
			le, li := "-", "-"
			if ma, err := sm.LastExternalAddress(ns, a); err == nil {
				le = ma.Address().EncodeAddress()
			}
			if ma, err := sm.LastInternalAddress(ns, a); err == nil {
				li = ma.Address().EncodeAddress()
			}
			// the name through the other accessors as well
			byNum, err1 := sm.AccountName(ns, a)
			byName, err2 := sm.LookupAccount(ns, p.AccountName)
			out[fmt.Sprintf("%v/%d", sc, a)] = fmt.Sprintf("name=%q ext=%d int=%d lastExt=%s lastInt=%s accountName=%q(%v) lookup=%d(%v)", p.AccountName, p.ExternalKeyCount,
				p.InternalKeyCount, le, li, byNum, err1, byName, err2)
		}
	}
	return out, nil
}

// TestC08WalletLevel: dry-run transaction creation, FundPsbt and dry-run account
// import roll their database transaction back; afterwards - and after every
// committed counterpart - the running wallet and a freshly opened manager on
// the same database must agree, and dry runs must not advance any index.
func TestC08WalletLevel(t *testing.T) {
	g := evid.G("TestC08WalletLevel")
	rapid.Check(t, func(t *rapid.T) {
		c := g.Begin()
		defer c.End()
		s := walletsim.NewScenario(t, "C08", c, 3, 1)
		defer s.F.Close()
		s.Mine(1, []*wire.MsgTx{s.FundingTx(4), s.FundingTx(4), s.FundingTx(4)}, nil)
		compare := func(where string) map[string]string {
			var run, fresh map[string]string
			err := walletdb.View(s.F.DB, func(tx walletdb.ReadTx) error {
				ns := tx.ReadBucket([]byte("waddrmgr"))
				var err error
				if run, err = ask(s.F.W.Manager, ns); err != nil {
					return err
				}
				fm, err := waddrmgr.Open(ns, s.F.PubPass, s.F.Params)
				if err != nil {
					return err
				}
				defer fm.Close()
				fresh, err = ask(fm, ns)
				return err
			})
			if err != nil {
				s.F.Violation("[%s] query failed: %v", where, err)
			}
			for k, v := range run {
				if fresh[k] != v {
					s.F.Violation("[%s] the running wallet and a freshly opened manager disagree on %s:\n   running: %s\n   restart: %s", where, k, v, fresh[k])
				}
			}
			for k := range fresh {
				if _, ok := run[k]; !ok {
					s.F.Violation("[%s] a freshly opened manager knows %s, the running wallet does not", where, k)
				}
			}
			return run
		}
		before := compare("start")
		imported := 0
		steps := rapid.IntRange(2, 10).Draw(t, "steps")
		dry, committedAfterDry := 0, 0
		for i := 0; i < steps; i++ {
			sc := waddrmgr.DefaultKeyScopes[rapid.IntRange(0, 3).Draw(t, "scope")]
			acct := uint32(rapid.IntRange(0, 1).Draw(t, "account"))
			op := rapid.SampledFrom([]string{"new", "change", "create-dry", "create-dry", "create", "fundpsbt", "import-dry", "import-dry", "import", "rename"}).Draw(t, "op")
			out := wire.NewTxOut(1500, s.ExternalScript())
			isDry := false
			var err error
			switch op {
			case "new":
				_, err = s.F.W.NewAddress(acct, sc)
			case "change":
				_, err = s.F.W.NewChangeAddress(acct, sc)
			case "create-dry", "create":
				isDry = op == "create-dry"
				_, err = s.F.W.CreateSimpleTx(&sc, acct, []*wire.TxOut{out}, 1, 1000, wallet.CoinSelectionLargest, isDry)
				if err != nil {
					isDry = true // a refused request must not change anything either
				}
			case "fundpsbt":
				pkt, e := psbt.New(nil, []*wire.TxOut{out}, 2, 0, nil)
				if e != nil {
					s.F.Inconclusive("psbt.New: %v", e)
				}
				_, err = s.F.W.FundPsbt(pkt, &sc, 1, acct, 1000, wallet.CoinSelectionLargest)
				if err != nil {
					isDry = true
				}
			case "rename":
				nn := fmt.Sprintf("r%d%s", i, rapid.StringMatching(`[a-z]{1,4}`).Draw(t, "newName"))
				err = s.F.W.RenameAccount(sc, acct, nn)
				if err != nil {
					isDry = true // a refused rename must not change anything
				} else {
					c.Class("account-renamed")
				}
			case "import-dry", "import":
				isDry = op == "import-dry"
				imported++
				seed2 := make([]byte, 32)
				seed2[0], seed2[1] = 0x5e, byte(imported)
				root, _ := hdkeychain.NewMaster(seed2, s.F.Params)
				k, _ := root.Derive(hdkeychain.HardenedKeyStart + 84)
				k, _ = k.Derive(hdkeychain.HardenedKeyStart + 1)
				k, _ = k.Derive(hdkeychain.HardenedKeyStart + uint32(imported))
				pub, _ := k.Neuter()
				ver := []byte{0x04, 0x5f, 0x1c, 0xf6} // vpub: BIP84 on test networks
				pub, e := pub.CloneWithVersion(ver)
				if e != nil {
					s.F.Inconclusive("CloneWithVersion: %v", e)
				}
				at := waddrmgr.WitnessPubKey
				name := fmt.Sprintf("imp%d", imported)
				if isDry {
					// a dry run can also fail after the account was created in its
					// transaction (more addresses requested than an account can hold)
					numAddrs := rapid.SampledFrom([]uint32{1, 2, 3, math.MaxUint32}).Draw(t, "numAddrs")
					_, _, _, err = s.F.W.ImportAccountDryRun(name, pub, 0x01020304, &at, numAddrs)
					if numAddrs == math.MaxUint32 {
						if err == nil {
							s.F.Violation("ImportAccountDryRun with %d addresses succeeded", numAddrs)
						}
						c.Class("import-dry-run-failing-after-account-creation")
					}
				} else {
					_, err = s.F.W.ImportAccount(name, pub, 0x01020304, &at)
				}
				if err != nil {
					isDry = true
				}
			}
			c.Logf("%s scope=%v acct=%d -> %v", op, sc, acct, err)
			after := compare("after " + op)
			if isDry {
				dry++
				for k, v := range before {
					if after[k] != v {
						s.F.Violation("%s (rolled back) changed %s:\n   before: %s\n   after:  %s", op, k, v, after[k])
					}
				}
				for k := range after {
					if _, ok := before[k]; !ok {
						s.F.Violation("%s (rolled back) left %s behind: %s", op, k, after[k])
					}
				}
			} else if dry > 0 {
				committedAfterDry++
			}
			before = after
		}
		if dry > 0 {
			c.Class("rolled-back-operation")
		}
		if committedAfterDry > 0 {
			c.Class("committed-operation-after-a-rolled-back-one")
			c.NonTrivial()
		}
	})
}

// C01 - balance and spendable outputs equal the ledger truth after every event.
package c01

import (
	"os"
	"testing"

	"github.com/btcsuite/btcwallet/walletdb"
	"pgregory.net/rapid"

	"verifharness/internal/evid"
	"verifharness/internal/known"
	"verifharness/internal/txsim"
)

func cfg() txsim.Config {
	max := 40
	maxTx := 12
	if os.Getenv("VERIF_TIER") == "thorough" {
		max = 120
		maxTx = 16
	}
	return txsim.Config{
		Prop: "C01",
		Weights: map[string]int{"announce": 6, "mine": 6, "advance": 2, "rollback": 3, "abandon": 1,
			"redeliver": 2, "reopen": 1, "lease": 2, "release": 1, "clock": 1, "sweep": 1},
		Oracles:  txsim.Oracles{C01: true},
		MinSteps: 5, MaxSteps: max,
		Universe: txsim.UniverseOpts{MinTx: 4, MaxTx: maxTx},
		Leases:   true,
		KnownF4:  known.Open("F4"),
	}
}

func TestC01LedgerTruth(t *testing.T) {
	g := evid.G("TestC01LedgerTruth")
	rapid.Check(t, func(t *rapid.T) {
		c := g.Begin()
		defer c.End()
		s := txsim.NewSim(t, cfg(), c)
		defer s.Close()
		extra := map[string]func(*rapid.T) bool{
			"lease": s.ActLease, "release": s.ActRelease, "clock": s.ActClock, "sweep": s.ActSweep,
		}
		s.Run(t, extra, func() {
			em := int32(rapid.IntRange(0, 260).Draw(t, "minconf"))
			es := int32(rapid.IntRange(0, 300).Draw(t, "syncOff"))
			s.View(func(ns walletdb.ReadBucket) { s.CheckC01(ns, "read-tx", em, es) })
		})
		// classification / non-triviality
		kinds := 0
		if s.NRollback > 0 {
			c.Class("rollback")
			kinds++
		}
		if s.NConflictRemoved > 0 {
			c.Class("conflict-removal")
			kinds++
		}
		if s.NUnconfSpendOfConfirmed > 0 {
			c.Class("unconfirmed-spend-of-confirmed-credit")
			kinds++
		}
		if s.NLease > 0 {
			c.Class("lease")
			kinds++
		}
		if s.NImmatureCoinbase > 0 {
			c.Class("coinbase")
			kinds++
		}
		if s.NRedeliver > 0 {
			c.Class("redelivery")
		}
		if s.NReopen > 0 {
			c.Class("reopen")
		}
		if s.NReconfirm > 0 {
			c.Class("reconfirmed-after-rollback")
		}
		if s.NRollbackCreditAndSpender > 0 {
			c.Class("rollback-of-block-with-credit-and-spender")
		}
		if s.NCoinbaseDescRemoved > 0 {
			c.Class("coinbase-descendant-removed")
		}
		if s.L.F4Hits > 0 {
			g.KnownHit("F4")
		}
		if s.NConfirm > 0 && kinds > 0 {
			c.NonTrivial()
		}
	})
}

// C20 - a rejected broadcast leaves no trace; unconfirmed sends are re-offered.
package c20

import (
	"errors"
	"fmt"
	"github.com/btcsuite/btcwallet/wtxmgr"
	"os"
	"sort"
	"strings"
	"testing"
	"time"

	"github.com/btcsuite/btcd/btcutil"
	"github.com/btcsuite/btcd/chaincfg/chainhash"
	"github.com/btcsuite/btcd/wire"
	"github.com/btcsuite/btcwallet/chain"
	"github.com/btcsuite/btcwallet/waddrmgr"
	"github.com/btcsuite/btcwallet/wallet"
	"github.com/btcsuite/btcwallet/walletdb"
	"pgregory.net/rapid"

	"verifharness/internal/evid"
	"verifharness/internal/known"
	"verifharness/internal/walletsim"
)

type answer struct {
	name string
	err  error
}

var answers = []answer{
	{"accepted", nil},
	{"accepted", nil},
	{"already-in-mempool", chain.ErrTxAlreadyInMempool},
	{"already-known", chain.ErrTxAlreadyKnown},
	{"already-confirmed", chain.ErrTxAlreadyConfirmed},
	{"rejected:insufficient-fee", chain.ErrInsufficientFee},
	{"rejected:min-fee-not-met", chain.ErrMempoolMinFeeNotMet},
	{"rejected:missing-inputs", chain.ErrMissingInputsOrSpent},
	{"rejected:other", errors.New("-26: non-mandatory-script-verify-flag (some other reason)")},
	{"subscription-failure", nil},
}

type run struct {
	*walletsim.Scenario
	g            *evid.Group
	chainPending bool
	// rescanRefused: the backend refused a rescan request of the running wallet
	rescanRefused bool
}

func (r *run) snapshot() string {
	w := r.F.W
	b0, _ := w.CalculateBalance(0)
	b1, _ := w.CalculateBalance(1)
	un, _ := w.ListUnspent(0, 9999999, "")
	var ops []string
	for _, u := range un {
		ops = append(ops, fmt.Sprintf("%s:%d=%v", u.TxID[:8], u.Vout, u.Amount))
	}
	sort.Strings(ops)
	var unconf []string
	walletdb.View(w.Database(), func(tx walletdb.ReadTx) error {
		hs, _ := w.TxStore.UnminedTxHashes(tx.ReadBucket([]byte("wtxmgr")))
		for _, h := range hs {
			unconf = append(unconf, h.String()[:8])
		}
		return nil
	})
	sort.Strings(unconf)
	leased, _ := w.ListLeasedOutputs()
	return fmt.Sprintf("balance0=%d balance1=%d unspent=%v unconfirmed=%v leases=%d", b0, b1, ops, unconf, len(leased))
}

func (r *run) known(h chainhash.Hash) bool {
	found := false
	walletdb.View(r.F.W.Database(), func(tx walletdb.ReadTx) error {
		d, _ := r.F.W.TxStore.TxDetails(tx.ReadBucket([]byte("wtxmgr")), &h)
		found = d != nil
		return nil
	})
	return found
}

func (r *run) unconfirmed() []chainhash.Hash {
	var out []chainhash.Hash
	walletdb.View(r.F.W.Database(), func(tx walletdb.ReadTx) error {
		hs, _ := r.F.W.TxStore.UnminedTxHashes(tx.ReadBucket([]byte("wtxmgr")))
		for _, h := range hs {
			out = append(out, *h)
		}
		return nil
	})
	return out
}

// attempt creates a transaction and broadcasts it with a drawn backend answer.
func (r *run) attempt(t *rapid.T) {
	s := r.Scenario
	s.F.Quiesce()
	ans := answers[rapid.IntRange(0, len(answers)-1).Draw(t, "answer")]
	sc := waddrmgr.DefaultKeyScopes[rapid.IntRange(1, 3).Draw(t, "scope")]
	acct := uint32(0)
	minconf := int32(rapid.IntRange(0, 1).Draw(t, "minconf"))
	elig := s.Eligible(walletsim.EligibleQuery{Scope: &sc, Account: acct, MinConf: minconf})
	var total int64
	for _, co := range elig {
		total += co.Value
	}
	if total < 20_000 {
		s.C.Logf("attempt skipped: scope %v has only %d sat eligible", sc, total)
		return
	}
	outs := []*wire.TxOut{wire.NewTxOut(total/int64(rapid.IntRange(2, 6).Draw(t, "fraction")), s.ExternalScript())}
	if rapid.Bool().Draw(t, "payOwnAddressToo") {
		own := s.Book.List[rapid.IntRange(0, len(s.Book.List)-1).Draw(t, "ownDest")]
		if rapid.IntRange(0, 2).Draw(t, "ownDestSameScope") > 0 {
			// in the scope the change will be in: a later send can then
			// consolidate both outputs of this transaction
			for _, o := range s.Book.List {
				if o.Scope == sc && o.Account == acct {
					own = o
					break
				}
			}
		}
		outs = append(outs, wire.NewTxOut(30000, own.Script))
	}
	hadOtherUnconfirmed := len(r.unconfirmed()) > 0
	before := r.snapshot()
	viaSend := rapid.Bool().Draw(t, "viaSendOutputs")
	// chained send: spend an unconfirmed output of the wallet explicitly
	var chainFrom []wire.OutPoint
	if rapid.IntRange(0, 1).Draw(t, "chained") == 0 {
	search:
		for _, csc := range waddrmgr.DefaultKeyScopes {
			csc := csc
			elig := s.Eligible(walletsim.EligibleQuery{Scope: &csc, Account: acct, MinConf: 0})
			var ops []wire.OutPoint
			for op := range elig {
				ops = append(ops, op)
			}
			sort.Slice(ops, func(a, b int) bool { return ops[a].String() < ops[b].String() })
			for _, op := range ops {
				co := elig[op]
				if co.Block == nil && co.Value > 5000 && s.F.Chain.LookupTx(op.Hash) != nil && r.known(op.Hash) {
					sc = csc
					chainFrom = []wire.OutPoint{op}
					// a second output of the same unconfirmed parent, if the
					// wallet has one in this scope (a consolidation)
					for _, op2 := range ops {
						if op2 != op && op2.Hash == op.Hash && elig[op2].Block == nil && rapid.Bool().Draw(t, "bothOutputsOfTheParent") {
							chainFrom = append(chainFrom, op2)
							s.C.Class("chained-on-two-outputs-of-one-parent")
							break
						}
					}
					outs = []*wire.TxOut{wire.NewTxOut(co.Value/3, s.ExternalScript())}
					minconf = 0
					viaSend = false
					s.C.Class("chained-on-unconfirmed-output")
					break search
				}
			}
		}
	}
	// program the backend
	var offered *wire.MsgTx
	// The programmed answer is for the transaction of this attempt. The wallet
	// re-offers its older unconfirmed transactions from a goroutine of its own
	// after every resynchronisation, possibly this late: those get the answer
	// the model node gives (it holds them already).
	older := map[chainhash.Hash]bool{}
	for _, h := range r.unconfirmed() {
		older[h] = true
	}
	program := func() {
		s.F.Client.SendAnswer = func(tx *wire.MsgTx) error {
			if older[tx.TxHash()] {
				return s.F.Chain.Offer(tx)
			}
			offered = tx
			if ans.err != nil && errors.Is(ans.err, chain.ErrTxAlreadyInMempool) {
				s.F.Chain.AddToMempool(tx) // it is there already
			}
			return ans.err
		}
		if ans.name == "subscription-failure" {
			s.F.Client.NotifyReceivedErr = func([]btcutil.Address) error { return errors.New("simchain: subscription failed") }
		}
	}
	// the label that is recorded with the transaction: none, an ordinary
	// one, the longest allowed, or one that cannot be stored (the hand-over
	// then cannot be completed: an error, and no trace)
	label := rapid.SampledFrom([]string{"", "c20", "c20", strings.Repeat("l", wtxmgr.TxLabelLimit), strings.Repeat("L", wtxmgr.TxLabelLimit+1)}).Draw(t, "label")
	labelTooLong := len(label) > wtxmgr.TxLabelLimit
	var tx *wire.MsgTx
	var err error
	if viaSend {
		program()
		tx, err = s.F.W.SendOutputs(outs, &sc, acct, minconf, 2000, wallet.CoinSelectionLargest, label)
	} else {
		var opts []wallet.TxCreateOption
		if len(chainFrom) > 0 {
			opts = append(opts, wallet.WithCustomSelectUtxos(chainFrom))
		}
		var atx, cerr = s.F.W.CreateSimpleTx(&sc, acct, outs, minconf, 2000, wallet.CoinSelectionLargest, false, opts...)
		if cerr != nil {
			s.F.Client.SendAnswer, s.F.Client.NotifyReceivedErr = nil, nil
			s.C.Logf("attempt: CreateSimpleTx failed: %v", cerr)
			return
		}
		tx = atx.Tx
		before = r.snapshot()
		program()
		err = s.F.W.PublishTransaction(tx, label)
	}
	if labelTooLong {
		s.C.Class("label-that-cannot-be-stored")
		if err == nil {
			s.F.Violation("a transaction was broadcast with a %d-byte label, which cannot be stored (limit %d)", len(label), wtxmgr.TxLabelLimit)
		}
		if offered != nil {
			s.F.Violation("the label could not be stored and the call failed (%v), but the transaction was handed to the backend", err)
		}
	}
	s.F.Client.SendAnswer, s.F.Client.NotifyReceivedErr = nil, nil
	s.F.Quiesce()
	after := r.snapshot()
	var h chainhash.Hash
	if tx != nil {
		h = tx.TxHash()
	} else if offered != nil {
		h = offered.TxHash()
	}
	s.C.Logf("broadcast via %s answer=%s tx=%s -> err=%v", map[bool]string{true: "SendOutputs", false: "PublishTransaction"}[viaSend], ans.name, h.String()[:8], err)
	s.C.Class("answer:" + ans.name)
	switch {
	case err != nil:
		// the attempt failed: no trace
		if ans.name == "subscription-failure" && known.Open("F5") && after != before {
			r.g.KnownHit("F5")
			return
		}
		if after != before {
			s.F.Violation("the broadcast attempt failed (%s: %v) but the wallet is not as before:\n before: %s\n after:  %s", ans.name, err, before, after)
		}
		if (h != chainhash.Hash{}) && r.known(h) {
			s.F.Violation("the broadcast attempt failed (%s) but transaction %v is still recorded", ans.name, h)
		}
		if hadOtherUnconfirmed {
			s.C.Class("failed-attempt-while-other-unconfirmed-existed")
			s.C.NonTrivial()
		}
	case ans.err == nil && ans.name != "subscription-failure", errors.Is(ans.err, chain.ErrTxAlreadyInMempool):
		// accepted or already in the mempool: recorded exactly once, inputs spent
		if !r.known(h) {
			s.F.Violation("broadcast answered %q but transaction %v is not recorded", ans.name, h)
		}
		n := 0
		for _, u := range r.unconfirmed() {
			if u == h {
				n++
			}
		}
		if n != 1 {
			s.F.Violation("transaction %v is listed %d times as unconfirmed after %q", h, n, ans.name)
		}
		un, _ := s.F.W.ListUnspent(0, 9999999, "")
		for _, in := range tx.TxIn {
			for _, u := range un {
				if u.TxID == in.PreviousOutPoint.Hash.String() && u.Vout == in.PreviousOutPoint.Index {
					s.F.Violation("input %v of the broadcast transaction is still listed as spendable", in.PreviousOutPoint)
				}
			}
		}
		r.registerChange(tx)
		if len(chainFrom) > 0 {
			r.chainPending = true
		}
		// balances equal the ledger (change counted once)
		s.F.CheckBalances("after accepted broadcast", s.Book, []int32{0, 1})
	default:
		// already known / already confirmed / subscription failure that the wallet reported as success:
		// the statement is silent about the store; require internal consistency only
		if ans.name == "subscription-failure" {
			s.F.Violation("the subscription failed but the broadcast reported success")
		}
		if after != before && !r.known(h) {
			// removed: balances must be as before
			s.F.Violation("transaction %v was dropped after %q but the wallet is not as before:\n before: %s\n after:  %s", h, ans.name, before, after)
		}
		if r.known(h) {
			s.F.Chain.AddToMempool(tx)
			r.registerChange(tx)
			s.F.Quiesce()
		}
	}
}

// pendingInBoth lists the wallet's unconfirmed transactions that the model node
// holds too, in a stable order.
func (r *run) pendingInBoth() []*wire.MsgTx {
	s := r.Scenario
	var out []*wire.MsgTx
	for _, h := range r.unconfirmed() {
		if tx := s.F.Chain.LookupTx(h); tx != nil && s.F.Chain.InMempool(h) {
			out = append(out, tx)
		}
	}
	sort.Slice(out, func(a, b int) bool { return out[a].TxHash().String() < out[b].TxHash().String() })
	return out
}

// refund: somebody who was paid by a still unconfirmed wallet transaction pays
// part of it back to the wallet, spending the unconfirmed output.
func (r *run) refund(t *rapid.T) {
	s := r.Scenario
	s.F.Quiesce()
	type cand struct {
		tx  *wire.MsgTx
		idx int
	}
	var cands []cand
	for _, tx := range r.pendingInBoth() {
		for i, o := range tx.TxOut {
			if _, own := s.Book.ByScript[string(o.PkScript)]; !own && o.Value > 3000 && ownFromWallet(s, o.PkScript) == nil {
				spent := false
				for _, m := range s.F.Chain.Mempool() {
					for _, in := range m.TxIn {
						if in.PreviousOutPoint == (wire.OutPoint{Hash: tx.TxHash(), Index: uint32(i)}) {
							spent = true
						}
					}
				}
				if !spent {
					cands = append(cands, cand{tx, i})
				}
			}
		}
	}
	if len(cands) == 0 {
		return
	}
	cd := cands[rapid.IntRange(0, len(cands)-1).Draw(t, "refundFrom")]
	own := s.Book.List[rapid.IntRange(0, len(s.Book.List)-1).Draw(t, "refundTo")]
	rtx := wire.NewMsgTx(2)
	rtx.AddTxIn(wire.NewTxIn(&wire.OutPoint{Hash: cd.tx.TxHash(), Index: uint32(cd.idx)}, nil, nil))
	rtx.AddTxOut(wire.NewTxOut(cd.tx.TxOut[cd.idx].Value-700, own.Script))
	s.F.Chain.AddToMempool(rtx)
	s.F.Quiesce()
	s.C.Logf("refund %s: the payee of %s:%d pays the wallet back from the unconfirmed output", rtx.TxHash().String()[:8], cd.tx.TxHash().String()[:8], cd.idx)
	if !r.known(rtx.TxHash()) {
		s.F.Violation("the wallet does not record the unconfirmed transaction %v that pays one of its addresses", rtx.TxHash())
	}
	s.F.CheckBalances("after refund", s.Book, []int32{0, 1})
	s.C.Class("refund-spending-an-unconfirmed-payment")
}

// republish hands a recorded, still unconfirmed transaction to the wallet
// again; the node has dropped it meanwhile (with everything spending it) and
// now refuses it, or still has it.
func (r *run) republish(t *rapid.T) {
	s := r.Scenario
	s.F.Quiesce()
	pend := r.pendingInBoth()
	if len(pend) == 0 {
		return
	}
	p := pend[rapid.IntRange(0, len(pend)-1).Draw(t, "republishWhich")]
	ph := p.TxHash()
	reject := rapid.IntRange(0, 3).Draw(t, "republishRejected") > 0
	// the unconfirmed descendants of p the wallet knows
	desc := map[chainhash.Hash]bool{ph: true}
	for grew := true; grew; {
		grew = false
		for _, h := range r.unconfirmed() {
			tx := s.F.Chain.LookupTx(h)
			if tx == nil || desc[h] {
				continue
			}
			for _, in := range tx.TxIn {
				if desc[in.PreviousOutPoint.Hash] {
					desc[h] = true
					grew = true
				}
			}
		}
	}
	if !reject {
		err := s.F.W.PublishTransaction(p, "")
		s.F.Quiesce()
		s.C.Logf("republish %s (node still has it) -> %v", ph.String()[:8], err)
		if err != nil {
			s.F.Violation("publishing %v again, which the node still holds, failed: %v", ph, err)
		}
		if !r.known(ph) {
			s.F.Violation("transaction %v is no longer recorded after it was published again (node: already in mempool)", ph)
		}
		s.F.CheckBalances("after republish (already in mempool)", s.Book, []int32{0, 1})
		s.C.Class("republish:already-in-mempool")
		return
	}
	// the node evicted p and whatever spent it, and refuses p now
	for _, m := range s.F.Chain.Mempool() {
		drop := desc[m.TxHash()]
		for _, in := range m.TxIn {
			if desc[in.PreviousOutPoint.Hash] {
				drop = true
			}
		}
		if drop {
			desc[m.TxHash()] = true
			s.F.Chain.DropFromMempool(m.TxHash())
		}
	}
	why := rapid.SampledFrom([]error{chain.ErrInsufficientFee, chain.ErrMempoolMinFeeNotMet, errors.New("-26: some other reason")}).Draw(t, "republishWhy")
	s.F.Client.SendAnswer = func(tx *wire.MsgTx) error {
		if !desc[tx.TxHash()] {
			// a late re-offer of an unrelated older transaction
			return s.F.Chain.Offer(tx)
		}
		return why
	}
	err := s.F.W.PublishTransaction(p, "")
	s.F.Client.SendAnswer = nil
	s.F.Quiesce()
	s.C.Logf("republish %s (node refuses: %v; %d unconfirmed transactions hang off it) -> %v", ph.String()[:8], why, len(desc)-1, err)
	if err == nil {
		s.F.Violation("the node refused %v but PublishTransaction reported success", ph)
	}
	for h := range desc {
		if r.known(h) {
			s.F.Violation("the broadcast of %v failed, but %v (the transaction itself or an unconfirmed transaction spending its outputs) is still recorded", ph, h)
		}
	}
	s.F.CheckBalances("after refused republish", s.Book, []int32{0, 1})
	s.C.Class("republish:refused")
	if len(desc) > 1 {
		s.C.Class("republish:refused-with-descendants")
		s.C.NonTrivial()
	}
	r.chainPending = false
}

func (r *run) registerChange(tx *wire.MsgTx) {
	s := r.Scenario
	for _, to := range tx.TxOut {
		if _, ok := s.Book.ByScript[string(to.PkScript)]; ok {
			continue
		}
		if own := ownFromWallet(s, to.PkScript); own != nil {
			s.Book.Add(own)
		}
	}
}

// resync makes the wallet synchronise again - after a restart, after the
// backend connection was re-established on the running wallet, or through an
// explicit rescan request - and checks the re-broadcast.
func (r *run) resync(t *rapid.T) {
	s := r.Scenario
	s.F.Quiesce()
	pending := r.unconfirmed()
	how := rapid.SampledFrom([]string{"restart", "restart", "reconnect", "rescan"}).Draw(t, "resyncHow")
	if r.rescanRefused {
		// a rescan request the backend refused leaves this wallet's rescan
		// manager waiting for its end for good (observation, DESIGN section 6):
		// every later rescan of the same Wallet value would queue behind it, so
		// only a restart resynchronises from here on
		how = "restart"
	}
	mineFirst := rapid.IntRange(0, 3).Draw(t, "mineWhileDown") == 0
	if how == "restart" {
		s.F.Stop()
	}
	if mineFirst {
		s.F.Chain.Extend(nil, s.Tick(), nil, 0)
		if how != "restart" {
			s.F.Quiesce()
		}
	}
	// the backend may have lost its mempool (restart); it may then refuse one
	// of the re-offered transactions - and with it everything spending it
	lost := rapid.Bool().Draw(t, "backendLostMempool")
	rejected := map[chainhash.Hash]bool{}
	var rejectRoot *chainhash.Hash
	if lost {
		for _, h := range pending {
			s.F.Chain.DropFromMempool(h)
		}
		if len(pending) > 0 && rapid.IntRange(0, 2).Draw(t, "rejectOne") == 0 {
			h := pending[rapid.IntRange(0, len(pending)-1).Draw(t, "rejectWhich")]
			rejectRoot = &h
		}
	}
	if how == "restart" {
		s.F.Open()
		r.rescanRefused = false
	}
	base := len(s.F.Client.CallsOf("SendRawTransaction"))
	s.F.Client.SendAnswer = func(tx *wire.MsgTx) error {
		h := tx.TxHash()
		if rejectRoot != nil && h == *rejectRoot {
			rejected[h] = true
			return chain.ErrInsufficientFee
		}
		for _, in := range tx.TxIn {
			if rejected[in.PreviousOutPoint.Hash] {
				rejected[h] = true
				return chain.ErrMissingInputsOrSpent
			}
		}
		if !lost {
			return chain.ErrTxAlreadyInMempool
		}
		return nil
	}
	switch how {
	case "restart":
		s.F.Unlock()
		s.F.Connect()
	case "reconnect":
		// the RPC connection came back: the wallet is told so and synchronises again
		s.F.Connect()
	case "rescan":
		if err := s.F.W.Rescan(nil, nil); err != nil {
			s.F.Violation("Wallet.Rescan failed: %v", err)
		}
	}
	s.C.Class("resync-by-" + how)
	// the re-broadcast runs in a goroutine of the wallet: wait on the call log
	if !s.F.Client.WaitCalls("SendRawTransaction", base+len(pending), 20*time.Second) {
		got := s.F.Client.CallsOf("SendRawTransaction")
		s.F.Violation("after the resynchronisation (%s) %d unconfirmed transactions should be offered to the backend again, %d were (waited 20s)", how, len(pending), len(got)-base)
	}
	s.F.Quiesce()
	s.F.Client.SendAnswer = nil
	calls := s.F.Client.CallsOf("SendRawTransaction")[base:]
	pos := map[chainhash.Hash]int{}
	for i, c := range calls {
		if _, dup := pos[c.TxHash]; !dup {
			pos[c.TxHash] = i
		}
	}
	pset := map[chainhash.Hash]bool{}
	for _, h := range pending {
		pset[h] = true
		if _, ok := pos[h]; !ok {
			s.F.Violation("unconfirmed transaction %v was not offered to the backend after the resynchronisation", h)
		}
	}
	// parents before children
	edges := 0
	for _, h := range pending {
		tx := s.F.Chain.LookupTx(h)
		if tx == nil {
			continue
		}
		for _, in := range tx.TxIn {
			if pset[in.PreviousOutPoint.Hash] {
				edges++
				if pos[in.PreviousOutPoint.Hash] > pos[h] {
					s.F.Violation("re-broadcast offered %v before its unconfirmed parent %v", h, in.PreviousOutPoint.Hash)
				}
			}
		}
	}
	// rejected on re-broadcast: forgotten together with everything spending it
	if rejectRoot != nil {
		deadline := time.Now().Add(20 * time.Second)
		for r.known(*rejectRoot) && time.Now().Before(deadline) {
			time.Sleep(2 * time.Millisecond)
		}
		time.Sleep(5 * time.Millisecond)
		s.F.Quiesce()
		for h := range rejected {
			if r.known(h) {
				s.F.Violation("transaction %v was rejected on re-broadcast (or spends a rejected one) but is still recorded", h)
			}
		}
		s.C.Class("rejected-on-rebroadcast")
		if len(rejected) > 1 {
			s.C.Class("rejected-on-rebroadcast-with-descendant")
		}
	}
	s.F.CheckBalances("after resynchronisation", s.Book, []int32{0, 1})
	s.C.Logf("resync (%s): %d unconfirmed transactions re-offered (%d parent/child edges)", how, len(pending), edges)
	if len(pending) > 0 {
		s.C.Class("rebroadcast-after-" + how)
		s.C.NonTrivial()
	}
	if edges > 0 {
		s.C.Class("rebroadcast-with-parent-child")
	}
}

func ownFromWallet(s *walletsim.Scenario, script []byte) *walletsim.OwnAddr {
	return walletsim.OwnFromWallet(s.F, script)
}

func TestC20Broadcast(t *testing.T) {
	g := evid.G("TestC20Broadcast")
	maxSteps := 6
	if os.Getenv("VERIF_TIER") == "thorough" {
		maxSteps = 14
	}
	rapid.Check(t, func(t *rapid.T) {
		c := g.Begin()
		defer c.End()
		s := walletsim.NewScenario(t, "C20", c, 5, 0)
		s.F.StallIsViolation = true
		defer s.F.Close()
		r := &run{Scenario: s, g: g}
		// funding: several confirmed coins per scope, some unconfirmed
		s.Mine(1, []*wire.MsgTx{s.FundingTx(4), s.FundingTx(4), s.FundingTx(3)}, nil)
		s.Mine(1, []*wire.MsgTx{s.FundingTx(4)}, nil)
		if rapid.Bool().Draw(t, "unconfirmedFunding") {
			s.F.Chain.AddToMempool(s.FundingTx(2))
			s.F.Quiesce()
		}
		steps := rapid.IntRange(2, maxSteps).Draw(t, "steps")
		for i := 0; i < steps; i++ {
			step := rapid.SampledFrom([]string{"attempt", "attempt", "attempt", "attempt", "mine", "resync", "resync", "refund", "refund", "republish"}).Draw(t, "step")
			if r.chainPending && rapid.Bool().Draw(t, "resyncWhileChained") {
				step = "resync"
			}
			switch step {
			case "attempt":
				r.attempt(t)
			case "mine":
				s.Mine(1, nil, nil)
				r.chainPending = false
			case "resync":
				r.resync(t)
			case "refund":
				r.refund(t)
			case "republish":
				r.republish(t)
			}
		}
	})
}

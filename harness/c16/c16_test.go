// C16 - recovery from seed finds every used address within the look-ahead window.
package c16

import (
	"bytes"
	"encoding/binary"
	"fmt"
	"os"
	"sort"
	"testing"
	"time"

	"github.com/btcsuite/btcd/btcutil"
	"github.com/btcsuite/btcd/chaincfg"
	"github.com/btcsuite/btcd/chaincfg/chainhash"
	"github.com/btcsuite/btcd/txscript"
	"github.com/btcsuite/btcd/wire"
	"github.com/btcsuite/btcwallet/chain"
	"github.com/btcsuite/btcwallet/waddrmgr"
	"github.com/btcsuite/btcwallet/wallet"
	"github.com/btcsuite/btcwallet/walletdb"
	"pgregory.net/rapid"

	"verifharness/internal/bip32ref"
	"verifharness/internal/evid"
	"verifharness/internal/mgrsim"
	"verifharness/internal/simchain"
	"verifharness/internal/walletsim"
)

type branchKey struct {
	scope  waddrmgr.KeyScope
	branch uint32
}

type oracle struct {
	params *chaincfg.Params
	accts  map[waddrmgr.KeyScope]*bip32ref.Key
	cache  map[string]*walletsim.OwnAddr
	priv   map[string][]byte
}

func newOracle(seed []byte, params *chaincfg.Params) (*oracle, error) {
	m, err := bip32ref.Master(seed)
	if err != nil {
		return nil, err
	}
	o := &oracle{params: params, accts: map[waddrmgr.KeyScope]*bip32ref.Key{}, cache: map[string]*walletsim.OwnAddr{}, priv: map[string][]byte{}}
	for _, sc := range waddrmgr.DefaultKeyScopes {
		sk, err := bip32ref.DeriveScope(m, bip32ref.Scope{Purpose: sc.Purpose, Coin: sc.Coin})
		if err != nil {
			return nil, err
		}
		a, err := sk.AccountAtCreation(0)
		if err != nil {
			return nil, err
		}
		o.accts[sc] = a.Stored()
	}
	return o, nil
}

func kindFor(sc waddrmgr.KeyScope, branch uint32) bip32ref.AddrKind {
	sch := waddrmgr.ScopeAddrMap[sc]
	t := sch.ExternalAddrType
	if branch == 1 {
		t = sch.InternalAddrType
	}
	switch t {
	case waddrmgr.PubKeyHash:
		return bip32ref.P2PKH
	case waddrmgr.NestedWitnessPubKey:
		return bip32ref.NestedP2WPKH
	case waddrmgr.WitnessPubKey:
		return bip32ref.P2WPKH
	}
	return bip32ref.P2TR
}

func (o *oracle) addr(sc waddrmgr.KeyScope, branch, index uint32) (*walletsim.OwnAddr, error) {
	key := fmt.Sprintf("%v/%d/%d", sc, branch, index)
	if a, ok := o.cache[key]; ok {
		return a, nil
	}
	k, err := bip32ref.AddrKey(o.accts[sc], branch, index)
	if err != nil {
		return nil, err
	}
	a, err := bip32ref.Address(k.Pub, kindFor(sc, branch), o.params)
	if err != nil {
		return nil, err
	}
	script, err := txscript.PayToAddrScript(a)
	if err != nil {
		return nil, err
	}
	own := &walletsim.OwnAddr{Addr: a, Script: script, Scope: sc, Account: 0, Branch: branch, Index: index}
	o.cache[key] = own
	p := make([]byte, 32)
	copy(p[32-len(k.Priv):], k.Priv)
	o.priv[a.EncodeAddress()] = p
	return own, nil
}

func TestC16Recovery(t *testing.T) {
	g := evid.G("TestC16Recovery")
	thorough := os.Getenv("VERIF_TIER") == "thorough"
	rapid.Check(t, func(t *rapid.T) {
		c := g.Begin()
		defer c.End()
		params := &chaincfg.RegressionNetParams
		var seed []byte
		var orc *oracle
		for {
			seed = mgrsim.DrawSeed(t, params, "seed")
			var err error
			if orc, err = newOracle(seed, params); err == nil {
				break
			}
		}
		windows := []int{1, 2, 3, 5, 8, 12}
		W := uint32(rapid.SampledFrom(windows).Draw(t, "window"))
		if thorough && rapid.IntRange(0, 39).Draw(t, "defaultWindow") == 0 {
			W = 250
		}
		nBlocks := rapid.IntRange(20, 90).Draw(t, "nBlocks")
		long := false
		if rapid.IntRange(0, 11).Draw(t, "longChain") == 0 {
			// longer than one recovery batch (2000 blocks): a resumed recovery then
			// starts from persisted state
			nBlocks = rapid.IntRange(2040, 2120).Draw(t, "nBlocksLong")
			long = true
			c.Class("chain-longer-than-recovery-batch")
		}
		created := time.Unix(1_700_000_000, 0)
		f := walletsim.New(t, "C16", params, seed, created, W)
		f.StallIsViolation = true
		f.PerAccount = true
		defer f.Close()
		f.Text = c.Text
		f.Style = simchain.Style(rapid.IntRange(0, 1).Draw(t, "style"))
		book := walletsim.NewBook()
		c.Logf("seed=%x window=%d blocks=%d style=%d", seed, W, nBlocks, f.Style)

		// ---- the chain, built before the wallet exists -------------------------
		firstPay := rapid.IntRange(3, nBlocks/2).Draw(t, "firstPayableBlock")
		if long {
			firstPay = rapid.IntRange(3, 40).Draw(t, "firstPayableBlockLong")
		}
		// monotone timestamps: the block at height firstPay is the first with a
		// timestamp >= the wallet's creation time
		ts := created.Add(-time.Duration(firstPay) * 3 * time.Hour)
		highest := map[branchKey]int{} // highest index paid in earlier blocks
		used := map[string]*walletsim.OwnAddr{}
		var ext uint32
		jumps, multi, spends, sameBlockSpend := 0, 0, 0, 0
		band := long && rapid.Bool().Draw(t, "payAroundBatchEnd")
		bandKey := branchKey{waddrmgr.DefaultKeyScopes[rapid.IntRange(0, 3).Draw(t, "bandScope")], uint32(rapid.IntRange(0, 1).Draw(t, "bandBranch"))}
		bandBlocks := 0
		for h := 1; h <= nBlocks; h++ {
			step := time.Duration(rapid.IntRange(1, 200).Draw(t, "dtMin")) * time.Minute
			ts = ts.Add(step)
			if h == firstPay && ts.Before(created) {
				ts = created.Add(time.Duration(rapid.IntRange(0, 3).Draw(t, "atOrAfter")) * time.Second)
			}
			if h < firstPay && !ts.Before(created) {
				ts = created.Add(-time.Second)
			}
			var txs []*wire.MsgTx
			// look-ahead is relative to what EARLIER blocks paid
			before := map[branchKey]int{}
			for k, v := range highest {
				before[k] = v
			}
			paidNow := map[branchKey]int{}
			payHere := h >= firstPay
			if long && !(h < firstPay+40 || h > 1960) {
				payHere = false // keep the long stretch empty (cheap), pay before and after the batch boundary
			}
			// half of the long chains pay in every block of a band around the end
			// of the first recovery batch, each time at the far end of the
			// look-ahead window of one branch: whichever block closes the batch, the
			// next one pays an address that is in the window only because of it
			forced := long && band && h >= firstPay+1985 && h <= firstPay+2005
			if forced {
				bandBlocks++
			}
			if payHere && (forced || rapid.IntRange(0, 9).Draw(t, "paying") < 4) {
				nPay := rapid.IntRange(1, 4).Draw(t, "nPayments")
				if nPay > 1 {
					multi++
				}
				var newOuts []wire.OutPoint
				for k := 0; k < nPay; k++ {
					sc := waddrmgr.DefaultKeyScopes[rapid.IntRange(0, 3).Draw(t, "scope")]
					br := uint32(rapid.IntRange(0, 1).Draw(t, "branch"))
					if forced && k == 0 {
						sc, br = bandKey.scope, bandKey.branch
					}
					bk := branchKey{sc, br}
					hi, ok := before[bk]
					if !ok {
						hi = -1
					}
					// index < W beyond the highest index paid in EARLIER blocks
					idx := rapid.IntRange(0, hi+int(W)).Draw(t, "index")
					if forced && k == 0 {
						idx = hi + int(W)
					}
					if idx > hi+1 {
						jumps++
					}
					own, err := orc.addr(sc, br, uint32(idx))
					if err != nil {
						t.Skip("invalid child in oracle")
					}
					book.Add(own)
					used[own.Addr.EncodeAddress()] = own
					if cur, ok := paidNow[bk]; !ok || idx > cur {
						paidNow[bk] = idx
					}
					ext++
					var eh chainhash.Hash
					binary.LittleEndian.PutUint32(eh[:], ext)
					eh[31] = 0xc1
					tx := wire.NewMsgTx(2)
					tx.AddTxIn(wire.NewTxIn(&wire.OutPoint{Hash: eh}, nil, nil))
					tx.AddTxOut(wire.NewTxOut(int64(rapid.IntRange(10_000, 900_000).Draw(t, "amount")), own.Script))
					txs = append(txs, tx)
					newOuts = append(newOuts, wire.OutPoint{Hash: tx.TxHash(), Index: 0})
					c.Logf("block %d pays %v branch %d index %d (%s)", h, sc, br, idx, own.Addr.EncodeAddress())
				}
				// a spend of an output created in this very block
				if rapid.IntRange(0, 5).Draw(t, "sameBlockSpend") == 0 {
					op := newOuts[rapid.IntRange(0, len(newOuts)-1).Draw(t, "whichNew")]
					tx := wire.NewMsgTx(2)
					tx.AddTxIn(wire.NewTxIn(&op, nil, nil))
					tx.AddTxOut(wire.NewTxOut(5000, []byte{0x00, 0x14, 9, 9, 9, 9, 9, 9, 9, 9, 9, 9, 9, 9, 9, 9, 9, 9, 9, 9, byte(ext), byte(ext >> 8)}))
					txs = append(txs, tx)
					sameBlockSpend++
					c.Logf("block %d spends %v created in the same block", h, op)
				}
			}
			// spends of outputs recovered in earlier blocks
			if h > firstPay && payHere && rapid.IntRange(0, 9).Draw(t, "spending") < 2 {
				var cands []*walletsim.Coin
				for _, co := range book.Coins(f.Chain) {
					if co.SpentBy == nil && co.Block != nil {
						cands = append(cands, co)
					}
				}
				already := map[wire.OutPoint]bool{}
				for _, tx := range txs {
					for _, in := range tx.TxIn {
						already[in.PreviousOutPoint] = true
					}
				}
				if len(cands) > 0 {
					co := cands[rapid.IntRange(0, len(cands)-1).Draw(t, "spendWhich")]
					if !already[co.OutPoint] {
						tx := wire.NewMsgTx(2)
						op := co.OutPoint
						tx.AddTxIn(wire.NewTxIn(&op, nil, nil))
						tx.AddTxOut(wire.NewTxOut(co.Value/3, []byte{0x00, 0x14, 7, 7, 7, 7, 7, 7, 7, 7, 7, 7, 7, 7, 7, 7, 7, 7, 7, 7, byte(h), byte(h >> 8)}))
						if rapid.Bool().Draw(t, "changeToWallet") {
							// change goes to an internal address of the same scope within the look-ahead
							bk := branchKey{co.Own.Scope, 1}
							hi, ok := before[bk]
							if !ok {
								hi = -1
							}
							idx := rapid.IntRange(0, hi+int(W)).Draw(t, "changeIndex")
							own, err := orc.addr(co.Own.Scope, 1, uint32(idx))
							if err == nil {
								book.Add(own)
								used[own.Addr.EncodeAddress()] = own
								tx.AddTxOut(wire.NewTxOut(co.Value/3, own.Script))
								if cur, ok := paidNow[bk]; !ok || idx > cur {
									paidNow[bk] = idx
								}
								c.Logf("block %d spend pays change to %v branch 1 index %d", h, co.Own.Scope, idx)
							}
						}
						txs = append(txs, tx)
						spends++
						c.Logf("block %d spends %s:%d", h, co.OutPoint.Hash.String()[:8], co.OutPoint.Index)
					}
				}
			}
			for bk, idx := range paidNow {
				if cur, ok := highest[bk]; !ok || idx > cur {
					highest[bk] = idx
				}
			}
			f.Chain.Extend(txs, ts, nil, 0)
		}

		// ---- recovery -------------------------------------------------------------
		locked := rapid.Bool().Draw(t, "locked")
		interrupt := rapid.IntRange(0, 3).Draw(t, "interrupt")
		f.Open()
		if !locked {
			f.Unlock()
		}
		switch interrupt {
		case 1:
			f.Client.FailNth["FilterBlocks"] = rapid.IntRange(1, 4).Draw(t, "failFilterBlocks")
			c.Class("interrupted:FilterBlocks-fails-once")
		case 2:
			f.Client.FailNth["GetBlock"] = rapid.IntRange(1, 30).Draw(t, "failGetBlock")
			c.Class("interrupted:GetBlock-fails-once")
		case 3:
			f.Client.FailNth["GetBlockHeader"] = rapid.IntRange(3, 60).Draw(t, "failGetBlockHeader")
			c.Class("interrupted:GetBlockHeader-fails-once")
		}
		if long && rapid.IntRange(0, 3).Draw(t, "interruptSecondBatch") > 0 {
			// the backend fails once after the first batch has been committed
			f.Client.FailHeightOnce = int64(rapid.IntRange(2003, nBlocks-1).Draw(t, "failAtHeight"))
			c.Class("interrupted-after-a-committed-batch")
		}
		f.Client.Push(chain.ClientConnected{})
		if interrupt != 0 && rapid.Bool().Draw(t, "restartMidway") {
			// stop the wallet while the first attempt is failing/retrying, then start over
			time.Sleep(time.Duration(rapid.IntRange(0, 3).Draw(t, "stopAfterMs")) * time.Millisecond)
			f.Stop()
			f.Open()
			if !locked {
				f.Unlock()
			}
			f.Client.Push(chain.ClientConnected{})
			c.Class("stopped-and-reopened-during-recovery")
		}
		f.Quiesce()
		c.Logf("recovery done: locked=%v interrupt=%d", locked, interrupt)

		// ---- oracle -----------------------------------------------------------------
		f.CheckTipAndHistory("after recovery", f.Chain.Tip().Height)
		f.CheckBalances("after recovery", book, []int32{0, 1, 6})
		err := walletdb.View(f.W.Database(), func(tx walletdb.ReadTx) error {
			ns := tx.ReadBucket([]byte("waddrmgr"))
			for _, own := range used {
				ma, err := f.W.Manager.Address(ns, own.Addr)
				if err != nil {
					return fmt.Errorf("used address %s (scope %v branch %d index %d) was not recovered: %v", own.Addr.EncodeAddress(), own.Scope, own.Branch, own.Index, err)
				}
				if !ma.Used(ns) {
					return fmt.Errorf("recovered address %s (scope %v branch %d index %d) is not marked used", own.Addr.EncodeAddress(), own.Scope, own.Branch, own.Index)
				}
				if ma.InternalAccount() != 0 || ma.Internal() != (own.Branch == 1) {
					return fmt.Errorf("recovered address %s reports account %d internal=%v", own.Addr.EncodeAddress(), ma.InternalAccount(), ma.Internal())
				}
			}
			for bk, hi := range highest {
				sm, err := f.W.Manager.FetchScopedKeyManager(bk.scope)
				if err != nil {
					return err
				}
				props, err := sm.AccountProperties(ns, 0)
				if err != nil {
					return err
				}
				n := props.ExternalKeyCount
				if bk.branch == 1 {
					n = props.InternalKeyCount
				}
				if int(n) <= hi {
					return fmt.Errorf("scope %v branch %d: next index %d is not above the highest used index %d", bk.scope, bk.branch, n, hi)
				}
			}
			return nil
		})
		if err != nil {
			f.Violation("%v", err)
		}
		// the spendable set equals the ledger's
		unspent, err := f.W.ListUnspent(0, 9999999, "")
		if err != nil {
			f.Violation("ListUnspent failed: %v", err)
		}
		want := map[string]int64{}
		for _, co := range book.Coins(f.Chain) {
			if co.SpentBy == nil {
				want[fmt.Sprintf("%v:%d", co.OutPoint.Hash, co.OutPoint.Index)] = co.Value
			}
		}
		got := map[string]int64{}
		for _, u := range unspent {
			amt, _ := btcutil.NewAmount(u.Amount)
			got[fmt.Sprintf("%s:%d", u.TxID, u.Vout)] = int64(amt)
		}
		if fmt.Sprint(sortedKV(got)) != fmt.Sprint(sortedKV(want)) {
			f.Violation("ListUnspent after recovery = %v, the ledger has %v", sortedKV(got), sortedKV(want))
		}
		// birthday: scanning starts before the first block that could pay the wallet
		bb, err := f.W.BirthdayBlock()
		if err != nil {
			f.Violation("no birthday block after recovery: %v", err)
		}
		if int(bb.Height) >= firstPay {
			f.Violation("the wallet's birthday block is %d but block %d (timestamp %v >= creation time %v) could already pay the wallet; scanning starts at %d",
				bb.Height, firstPay, f.Chain.At(int32(firstPay)).Time().Unix(), created.Unix(), bb.Height+1)
		}
		// unlocked: private keys of recovered addresses (C03 at wallet level)
		if !locked {
			for _, own := range used {
				priv, err := f.W.PrivKeyForAddress(own.Addr)
				if err != nil {
					f.Violation("unlocked wallet cannot produce the private key of recovered address %s (scope %v branch %d index %d): %v",
						own.Addr.EncodeAddress(), own.Scope, own.Branch, own.Index, err)
				}
				if !bytes.Equal(priv.Serialize(), orc.priv[own.Addr.EncodeAddress()]) {
					f.Violation("private key of recovered address %s is not the seed's child", own.Addr.EncodeAddress())
				}
			}
			c.Class("unlocked")
		} else {
			c.Class("locked")
		}
		scopesUsed := map[branchKey]bool{}
		for _, own := range used {
			scopesUsed[branchKey{own.Scope, own.Branch}] = true
		}
		if jumps > 0 {
			c.Class("jump>=2-indices")
		}
		if multi > 0 {
			c.Class("several-payments-in-one-block")
		}
		if spends > 0 {
			c.Class("spend-of-recovered-output")
		}
		if sameBlockSpend > 0 {
			c.Class("same-block-spend")
		}
		if bandBlocks > 0 {
			c.Class("window-edge-payment-in-every-block-around-batch-end")
		}
		if W == 250 {
			c.Class("default-window-250")
		}
		if len(scopesUsed) >= 2 && jumps > 0 && spends > 0 {
			c.NonTrivial()
		}
	})
}

func sortedKV(m map[string]int64) []string {
	var out []string
	for k, v := range m {
		out = append(out, fmt.Sprintf("%s=%d", k[:8]+k[64:], v))
	}
	sort.Strings(out)
	return out
}

var _ = wallet.ErrNotSynced

package c16

import (
	"testing"

	"github.com/btcsuite/btcd/btcutil"
	"github.com/btcsuite/btcd/chaincfg"
	"github.com/btcsuite/btcwallet/wallet"
	"pgregory.net/rapid"

	"verifharness/internal/evid"
)

// The look-ahead arithmetic with INVALID child indices cannot be reached with
// real keys (probability 2^-127 per child); it lives in the exported
// BranchRecoveryState, which is driven here with the protocol
// wallet.expandScopeHorizons uses. Model: after every expansion the W valid
// indices following the highest found index are all being watched.
func TestC16BranchRecoveryState(t *testing.T) {
	g := evid.G("TestC16BranchRecoveryState")
	dummy, _ := btcutil.NewAddressPubKeyHash(make([]byte, 20), &chaincfg.RegressionNetParams)
	rapid.Check(t, func(t *rapid.T) {
		c := g.Begin()
		defer c.End()
		W := uint32(rapid.IntRange(1, 12).Draw(t, "window"))
		invalid := map[uint32]bool{}
		nInv := rapid.IntRange(0, 8).Draw(t, "nInvalid")
		for i := 0; i < nInv; i++ {
			invalid[uint32(rapid.IntRange(0, 60).Draw(t, "invalidIndex"))] = true
		}
		brs := wallet.NewBranchRecoveryState(W)
		c.Logf("W=%d invalid=%v", W, invalid)
		expand := func() {
			cur, delta := brs.ExtendHorizon()
			count, idx := uint32(0), cur
			for count < delta {
				if invalid[idx] {
					brs.MarkInvalidChild(idx)
					idx++
					continue
				}
				brs.AddAddr(idx, dummy)
				idx++
				count++
			}
		}
		highest := -1
		rounds := rapid.IntRange(1, 12).Draw(t, "rounds")
		sawInvalidInWindow := false
		for r := 0; r < rounds; r++ {
			expand()
			// the W valid indices after the highest found one must be watched
			need, idx := int(W), uint32(highest+1)
			var window []uint32
			for need > 0 {
				if invalid[idx] {
					sawInvalidInWindow = true
					idx++
					continue
				}
				window = append(window, idx)
				if brs.GetAddr(idx) == nil {
					t.Fatalf("C16 VIOLATED: window %d, highest found %d, invalid children %v: valid index %d is within the look-ahead of %d valid indices but is not being watched (round %d)\n%s",
						W, highest, invalid, idx, W, r, c.Text())
				}
				idx++
				need--
			}
			// a block pays some indices within the window
			k := rapid.IntRange(0, 3).Draw(t, "nFound")
			for j := 0; j < k; j++ {
				f := window[rapid.IntRange(0, len(window)-1).Draw(t, "found")]
				brs.ReportFound(f)
				c.Logf("round %d: found %d", r, f)
				if int(f) > highest {
					highest = int(f)
				}
			}
			if int(brs.NextUnfound()) != highest+1 {
				t.Fatalf("C16 VIOLATED: NextUnfound()=%d after the highest found index %d\n%s", brs.NextUnfound(), highest, c.Text())
			}
		}
		if sawInvalidInWindow {
			c.Class("invalid-child-inside-window")
			c.NonTrivial()
		}
		if highest >= 0 {
			c.Class("found-some")
		}
	})
}

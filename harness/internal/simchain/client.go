package simchain

import (
	"errors"
	"fmt"
	"sync"
	"time"

	"github.com/btcsuite/btcd/btcjson"
	"github.com/btcsuite/btcd/btcutil"
	"github.com/btcsuite/btcd/chaincfg/chainhash"
	"github.com/btcsuite/btcd/txscript"
	"github.com/btcsuite/btcd/wire"
	"github.com/btcsuite/btcwallet/chain"
	"github.com/btcsuite/btcwallet/waddrmgr"
	"github.com/btcsuite/btcwallet/wtxmgr"
)

// Style selects how block contents are delivered.
type Style int

// Delivery styles used by real backends.
const (
	// StyleBtcd: a RelevantTx per relevant transaction, then BlockConnected.
	StyleBtcd Style = iota
	// StyleBitcoind: FilteredBlockConnected with the relevant transactions,
	// then BlockConnected.
	StyleBitcoind
)

// Call is one logged call of the wallet into the backend.
type Call struct {
	Method string
	TxHash chainhash.Hash
	Err    error
}

type sentinel struct{ id int64 }

// Client is one backend session; it implements chain.Interface.
type Client struct {
	C     *Chain
	Style Style
	// TxBeforeBlock: in btcd style deliver transactions before (true) or
	// after (false) the BlockConnected notification.
	TxBeforeBlock bool

	mu         sync.Mutex
	cond       *sync.Cond
	q          []interface{}
	handed     int64 // number of items handed over to the wallet
	pushed     int64
	out        chan interface{}
	quit       chan struct{}
	stopped    bool
	watchAddr  map[string]bool
	watchOp    map[wire.OutPoint]bool
	notifyBlks bool
	Calls      []Call

	// Trace, when set, receives a rendering of every queued notification.
	Trace func(string)

	// Programmable answers.
	SendAnswer        func(tx *wire.MsgTx) error // nil func or nil error: accept
	NotifyReceivedErr func(addrs []btcutil.Address) error
	// FailNth makes the n-th (1-based) call of the named method fail once.
	FailNth map[string]int
	// DuringRescan, when set, is called once while a Rescan call is in progress
	// (after the watch lists were extended, before the chain is scanned): blocks
	// that arrive meanwhile are announced before the rescan finishes, and the
	// rescan covers them, as with a backend that rescans up to its current tip.
	DuringRescan func()
	// AfterProgress, when set, is called once right after the first
	// RescanProgress of a Rescan call was queued: what it does to the chain (a
	// reorg, new blocks) is announced at once, and the rescan then continues on
	// the best chain as it is afterwards, from the last block both chains
	// share - as a bitcoind-backed client does when the chain moves under a
	// running rescan.
	AfterProgress func()
	// ProgressEvery > 0 makes Rescan report its progress (RescanProgress) after
	// every ProgressEvery-th scanned block, as btcd does every few seconds and
	// bitcoind-backed clients do every 10000 blocks.
	ProgressEvery int
	// FailHeightOnce makes GetBlockHash fail once when asked for this height (0: off).
	FailHeightOnce int64
	counts         map[string]int
}

// NewClient creates a session on the chain and starts its pump.
func (c *Chain) NewClient(style Style) *Client {
	cl := &Client{C: c, Style: style, TxBeforeBlock: true, out: make(chan interface{}), quit: make(chan struct{}),
		watchAddr: map[string]bool{}, watchOp: map[wire.OutPoint]bool{}, FailNth: map[string]int{}, counts: map[string]int{}}
	cl.cond = sync.NewCond(&cl.mu)
	c.attach(cl)
	go cl.pump()
	return cl
}

func (cl *Client) pump() {
	for {
		cl.mu.Lock()
		for len(cl.q) == 0 && !cl.stopped {
			cl.cond.Wait()
		}
		if cl.stopped {
			cl.mu.Unlock()
			return
		}
		item := cl.q[0]
		cl.q = cl.q[1:]
		cl.mu.Unlock()
		select {
		case cl.out <- item:
		case <-cl.quit:
			return
		}
		cl.mu.Lock()
		cl.handed++
		cl.cond.Broadcast()
		cl.mu.Unlock()
	}
}

// Push queues a notification for the wallet.
func (cl *Client) Push(n interface{}) {
	if cl.Trace != nil {
		cl.Trace(describe(n))
	}
	cl.mu.Lock()
	cl.q = append(cl.q, n)
	cl.pushed++
	cl.cond.Broadcast()
	cl.mu.Unlock()
}

// ErrStalled is returned by Quiesce when the wallet does not take
// notifications any more.
var ErrStalled = errors.New("simchain: the wallet stopped consuming notifications")

// Quiesce returns once the wallet has completely processed every notification
// queued so far: the wallet's notification loop is sequential, so when it takes
// the sentinel queued here it has finished everything before it.
func (cl *Client) Quiesce(timeout time.Duration) error {
	deadline := time.Now().Add(timeout)
	timer := time.AfterFunc(timeout, func() {
		cl.mu.Lock()
		cl.cond.Broadcast()
		cl.mu.Unlock()
	})
	defer timer.Stop()
	cl.mu.Lock()
	defer cl.mu.Unlock()
	for {
		cl.q = append(cl.q, sentinel{})
		cl.pushed++
		target := cl.pushed
		cl.cond.Broadcast()
		for cl.handed < target && !cl.stopped {
			if time.Now().After(deadline) {
				return ErrStalled
			}
			cl.cond.Wait()
		}
		// Processing a notification may itself queue more (the startup sync
		// queues the rescan results before it returns): repeat until a
		// sentinel went through with nothing queued behind it.
		if cl.stopped || cl.pushed == target {
			return nil
		}
	}
}

// Shutdown ends the session (the wallet was stopped).
func (cl *Client) Shutdown() {
	cl.mu.Lock()
	if cl.stopped {
		cl.mu.Unlock()
		return
	}
	cl.stopped = true
	close(cl.quit)
	cl.cond.Broadcast()
	cl.mu.Unlock()
	cl.C.detach(cl)
}

func (cl *Client) logCall(method string, h chainhash.Hash, err error) {
	cl.mu.Lock()
	cl.Calls = append(cl.Calls, Call{Method: method, TxHash: h, Err: err})
	cl.cond.Broadcast()
	cl.mu.Unlock()
}

// CallsOf returns the logged calls of a method.
func (cl *Client) CallsOf(method string) []Call {
	cl.mu.Lock()
	defer cl.mu.Unlock()
	var out []Call
	for _, c := range cl.Calls {
		if c.Method == method {
			out = append(out, c)
		}
	}
	return out
}

// WaitCalls waits until at least n calls of method were logged.
func (cl *Client) WaitCalls(method string, n int, timeout time.Duration) bool {
	deadline := time.Now().Add(timeout)
	for {
		if len(cl.CallsOf(method)) >= n {
			return true
		}
		if time.Now().After(deadline) {
			return false
		}
		time.Sleep(2 * time.Millisecond)
	}
}

func (cl *Client) injected(method string) error {
	cl.mu.Lock()
	defer cl.mu.Unlock()
	cl.counts[method]++
	if n, ok := cl.FailNth[method]; ok && n == cl.counts[method] {
		delete(cl.FailNth, method)
		return fmt.Errorf("simchain: injected failure of %s call #%d", method, n)
	}
	return nil
}

// FailNext makes the next call of the named method fail once; ClearFail
// withdraws a failure that has not been used.
func (cl *Client) FailNext(method string) {
	cl.mu.Lock()
	defer cl.mu.Unlock()
	cl.FailNth[method] = cl.counts[method] + 1
}

func (cl *Client) ClearFail(method string) {
	cl.mu.Lock()
	defer cl.mu.Unlock()
	delete(cl.FailNth, method)
}

// ---- relevance ----------------------------------------------------------------

func (cl *Client) relevant(tx *wire.MsgTx) bool {
	// inputs spending an output that pays a watched address (looked up before
	// taking the client lock: the chain has its own)
	var prevScripts [][]byte
	for _, in := range tx.TxIn {
		if ptx := cl.C.LookupTx(in.PreviousOutPoint.Hash); ptx != nil && int(in.PreviousOutPoint.Index) < len(ptx.TxOut) {
			prevScripts = append(prevScripts, ptx.TxOut[in.PreviousOutPoint.Index].PkScript)
		}
	}
	cl.mu.Lock()
	defer cl.mu.Unlock()
	rel := false
	for _, in := range tx.TxIn {
		if cl.watchOp[in.PreviousOutPoint] {
			rel = true
		}
	}
	for _, ps := range prevScripts {
		_, addrs, _, err := txscript.ExtractPkScriptAddrs(ps, cl.C.Params)
		if err != nil {
			continue
		}
		for _, a := range addrs {
			if cl.watchAddr[a.EncodeAddress()] {
				rel = true
			}
		}
	}
	h := tx.TxHash()
	for i, out := range tx.TxOut {
		_, addrs, _, err := txscript.ExtractPkScriptAddrs(out.PkScript, cl.C.Params)
		if err != nil {
			continue
		}
		for _, a := range addrs {
			if cl.watchAddr[a.EncodeAddress()] {
				rel = true
				cl.watchOp[wire.OutPoint{Hash: h, Index: uint32(i)}] = true
			}
		}
	}
	return rel
}

func meta(b *Block) wtxmgr.BlockMeta {
	return wtxmgr.BlockMeta{Block: wtxmgr.Block{Hash: b.Hash, Height: b.Height}, Time: b.Time()}
}

func rec(tx *wire.MsgTx, t time.Time) *wtxmgr.TxRecord {
	r, err := wtxmgr.NewTxRecordFromMsgTx(tx, t)
	if err != nil {
		panic(err)
	}
	return r
}

func (cl *Client) blockNotifications(b *Block) []interface{} {
	var out []interface{}
	bm := meta(b)
	var recs []*wtxmgr.TxRecord
	for _, tx := range b.Msg.Transactions {
		if cl.relevant(tx) {
			recs = append(recs, rec(tx, b.Time()))
		}
	}
	switch cl.Style {
	case StyleBtcd:
		if cl.TxBeforeBlock {
			for _, r := range recs {
				m := bm
				out = append(out, chain.RelevantTx{TxRecord: r, Block: &m})
			}
			out = append(out, chain.BlockConnected(bm))
		} else {
			out = append(out, chain.BlockConnected(bm))
			for _, r := range recs {
				m := bm
				out = append(out, chain.RelevantTx{TxRecord: r, Block: &m})
			}
		}
	default:
		m := bm
		out = append(out, chain.FilteredBlockConnected{Block: &m, RelevantTxs: recs})
		out = append(out, chain.BlockConnected(bm))
	}
	return out
}

func (cl *Client) blockConnected(b *Block) {
	cl.mu.Lock()
	on := cl.notifyBlks
	cl.mu.Unlock()
	if !on {
		return
	}
	for _, n := range cl.blockNotifications(b) {
		cl.Push(n)
	}
}

func (cl *Client) blockDisconnected(b *Block) {
	cl.mu.Lock()
	on := cl.notifyBlks
	cl.mu.Unlock()
	if !on {
		return
	}
	cl.Push(chain.BlockDisconnected(meta(b)))
}

func (cl *Client) mempoolTx(tx *wire.MsgTx) {
	cl.mu.Lock()
	on := cl.notifyBlks
	cl.mu.Unlock()
	if on && cl.relevant(tx) {
		cl.Push(chain.RelevantTx{TxRecord: rec(tx, time.Unix(1_700_000_000, 0))})
	}
}

// ---- chain.Interface ------------------------------------------------------------

// Start implements chain.Interface.
func (cl *Client) Start() error { return nil }

// Stop implements chain.Interface.
func (cl *Client) Stop() {}

// WaitForShutdown implements chain.Interface.
func (cl *Client) WaitForShutdown() {}

// GetBestBlock implements chain.Interface.
func (cl *Client) GetBestBlock() (*chainhash.Hash, int32, error) {
	if err := cl.injected("GetBestBlock"); err != nil {
		return nil, 0, err
	}
	t := cl.C.Tip()
	h := t.Hash
	return &h, t.Height, nil
}

// GetBlock implements chain.Interface.
func (cl *Client) GetBlock(h *chainhash.Hash) (*wire.MsgBlock, error) {
	if err := cl.injected("GetBlock"); err != nil {
		return nil, err
	}
	b := cl.C.ByHash(*h)
	if b == nil {
		return nil, fmt.Errorf("simchain: block %v not found", h)
	}
	return b.Msg, nil
}

// GetBlockHash implements chain.Interface.
func (cl *Client) GetBlockHash(height int64) (*chainhash.Hash, error) {
	if err := cl.injected("GetBlockHash"); err != nil {
		return nil, err
	}
	cl.mu.Lock()
	if cl.FailHeightOnce != 0 && cl.FailHeightOnce == height {
		cl.FailHeightOnce = 0
		cl.mu.Unlock()
		return nil, fmt.Errorf("simchain: injected failure of GetBlockHash(%d)", height)
	}
	cl.mu.Unlock()
	b := cl.C.At(int32(height))
	if b == nil {
		return nil, fmt.Errorf("simchain: no block at height %d", height)
	}
	h := b.Hash
	return &h, nil
}

// GetBlockHeader implements chain.Interface (also serves disconnected blocks,
// as real nodes do).
func (cl *Client) GetBlockHeader(h *chainhash.Hash) (*wire.BlockHeader, error) {
	if err := cl.injected("GetBlockHeader"); err != nil {
		return nil, err
	}
	b := cl.C.ByHash(*h)
	if b == nil {
		return nil, fmt.Errorf("simchain: header %v not found", h)
	}
	hd := b.Msg.Header
	return &hd, nil
}

// IsCurrent implements chain.Interface.
func (cl *Client) IsCurrent() bool { return true }

// FilterBlocks implements chain.Interface exactly like the bitcoind client:
// the real chain.BlockFilterer over the model's blocks.
func (cl *Client) FilterBlocks(req *chain.FilterBlocksRequest) (*chain.FilterBlocksResponse, error) {
	if err := cl.injected("FilterBlocks"); err != nil {
		return nil, err
	}
	bf := chain.NewBlockFilterer(cl.C.Params, req)
	for i, block := range req.Blocks {
		raw, err := cl.GetBlock(&block.Hash)
		if err != nil {
			return nil, err
		}
		if !bf.FilterBlock(raw) {
			continue
		}
		return &chain.FilterBlocksResponse{
			BatchIndex:         uint32(i),
			BlockMeta:          block,
			FoundExternalAddrs: bf.FoundExternal,
			FoundInternalAddrs: bf.FoundInternal,
			FoundOutPoints:     bf.FoundOutPoints,
			RelevantTxns:       bf.RelevantTxns,
		}, nil
	}
	return nil, nil
}

// BlockStamp implements chain.Interface.
func (cl *Client) BlockStamp() (*waddrmgr.BlockStamp, error) {
	t := cl.C.Tip()
	return &waddrmgr.BlockStamp{Height: t.Height, Hash: t.Hash, Timestamp: t.Time()}, nil
}

// SendRawTransaction implements chain.Interface with a programmable answer;
// without one the model node decides (Chain.Offer).
func (cl *Client) SendRawTransaction(tx *wire.MsgTx, allowHighFees bool) (*chainhash.Hash, error) {
	h := tx.TxHash()
	var err error
	if cl.SendAnswer != nil {
		// The wallet re-offers its unconfirmed transactions from a goroutine
		// of its own, so an offer may arrive for a transaction the model has
		// confirmed meanwhile; Offer leaves such a transaction alone (it must
		// never sit in the mempool and in a block at once).
		if err = cl.SendAnswer(tx); err == nil {
			if oerr := cl.C.Offer(tx); oerr != nil && !errors.Is(oerr, chain.ErrTxAlreadyInMempool) {
				err = oerr
			}
		}
	} else {
		err = cl.C.Offer(tx)
	}
	cl.logCall("SendRawTransaction", h, err)
	if err != nil {
		return nil, err
	}
	return &h, nil
}

// Rescan implements chain.Interface: the watch lists are extended and the best
// chain after the given block is scanned; relevant transactions and the final
// RescanFinished are queued before the call returns (as with btcd, whose
// notifications arrive while the RPC is in flight).
func (cl *Client) Rescan(start *chainhash.Hash, addrs []btcutil.Address, ops map[wire.OutPoint]btcutil.Address) error {
	if err := cl.injected("Rescan"); err != nil {
		return err
	}
	cl.mu.Lock()
	for _, a := range addrs {
		cl.watchAddr[a.EncodeAddress()] = true
	}
	for op := range ops {
		cl.watchOp[op] = true
	}
	cl.mu.Unlock()
	sb := cl.C.ByHash(*start)
	if sb == nil {
		return fmt.Errorf("simchain: rescan start block %v unknown", start)
	}
	cl.mu.Lock()
	hook := cl.DuringRescan
	cl.DuringRescan = nil
	cl.mu.Unlock()
	if hook != nil {
		hook()
	}
	best := cl.C.Best()
	from := sb.Height + 1
	// when the start block is no longer on the best chain, a node rescans from
	// the fork point; the wallet is expected to have rolled back before
	if int(sb.Height) < len(best) && best[sb.Height].Hash != sb.Hash {
		return fmt.Errorf("simchain: rescan start block %v is not on the best chain", start)
	}
	for h := from; int(h) < len(best); h++ {
		b := best[h]
		bm := meta(b)
		var recs []*wtxmgr.TxRecord
		for _, tx := range b.Msg.Transactions {
			if cl.relevant(tx) {
				recs = append(recs, rec(tx, b.Time()))
			}
		}
		switch cl.Style {
		case StyleBtcd:
			for _, r := range recs {
				m := bm
				cl.Push(chain.RelevantTx{TxRecord: r, Block: &m})
			}
		default:
			m := bm
			cl.Push(chain.FilteredBlockConnected{Block: &m, RelevantTxs: recs})
			cl.Push(chain.BlockConnected(bm))
		}
		if cl.ProgressEvery > 0 && int(h-from+1)%cl.ProgressEvery == 0 && int(h) < len(best)-1 {
			cl.Push(&chain.RescanProgress{Hash: b.Hash, Height: b.Height, Time: b.Time()})
			cl.mu.Lock()
			hook := cl.AfterProgress
			cl.AfterProgress = nil
			cl.mu.Unlock()
			if hook != nil {
				hook()
				now := cl.C.Best()
				k := h
				for int(k) >= len(now) || now[k].Hash != best[k].Hash {
					k--
				}
				best, h = now, k
			}
		}
	}
	tip := best[len(best)-1]
	th := tip.Hash
	cl.Push(&chain.RescanFinished{Hash: &th, Height: tip.Height, Time: tip.Time()})
	// unconfirmed relevant transactions are (re)announced too
	for _, tx := range cl.C.Mempool() {
		if cl.relevant(tx) {
			cl.Push(chain.RelevantTx{TxRecord: rec(tx, time.Unix(1_700_000_000, 0))})
		}
	}
	cl.logCall("Rescan", *start, nil)
	return nil
}

// NotifyReceived implements chain.Interface.
func (cl *Client) NotifyReceived(addrs []btcutil.Address) error {
	if cl.NotifyReceivedErr != nil {
		if err := cl.NotifyReceivedErr(addrs); err != nil {
			cl.logCall("NotifyReceived", chainhash.Hash{}, err)
			return err
		}
	}
	cl.mu.Lock()
	for _, a := range addrs {
		cl.watchAddr[a.EncodeAddress()] = true
	}
	cl.mu.Unlock()
	cl.logCall("NotifyReceived", chainhash.Hash{}, nil)
	return nil
}

// NotifyBlocks implements chain.Interface.
func (cl *Client) NotifyBlocks() error {
	cl.mu.Lock()
	cl.notifyBlks = true
	cl.mu.Unlock()
	return nil
}

// Notifications implements chain.Interface.
func (cl *Client) Notifications() <-chan interface{} { return cl.out }

// BackEnd implements chain.Interface.
func (cl *Client) BackEnd() string {
	if cl.Style == StyleBitcoind {
		return "bitcoind"
	}
	return "btcd"
}

// TestMempoolAccept implements chain.Interface.
func (cl *Client) TestMempoolAccept([]*wire.MsgTx, float64) ([]*btcjson.TestMempoolAcceptResult, error) {
	return nil, errors.New("simchain: testmempoolaccept not supported")
}

// MapRPCErr implements chain.Interface.
func (cl *Client) MapRPCErr(err error) error { return err }

var _ chain.Interface = (*Client)(nil)

func describe(n interface{}) string {
	switch v := n.(type) {
	case chain.ClientConnected:
		return "ntfn ClientConnected"
	case chain.BlockConnected:
		return fmt.Sprintf("ntfn BlockConnected %d %s", v.Height, v.Hash.String()[:8])
	case chain.BlockDisconnected:
		return fmt.Sprintf("ntfn BlockDisconnected %d %s", v.Height, v.Hash.String()[:8])
	case chain.RelevantTx:
		if v.Block == nil {
			return fmt.Sprintf("ntfn RelevantTx %s unconfirmed", v.TxRecord.Hash.String()[:8])
		}
		return fmt.Sprintf("ntfn RelevantTx %s in %d %s", v.TxRecord.Hash.String()[:8], v.Block.Height, v.Block.Hash.String()[:8])
	case chain.FilteredBlockConnected:
		s := fmt.Sprintf("ntfn FilteredBlockConnected %d %s txs:", v.Block.Height, v.Block.Hash.String()[:8])
		for _, r := range v.RelevantTxs {
			s += " " + r.Hash.String()[:8]
		}
		return s
	case *chain.RescanFinished:
		return fmt.Sprintf("ntfn RescanFinished %d", v.Height)
	case sentinel:
		return "ntfn (sentinel)"
	}
	return fmt.Sprintf("ntfn %T", n)
}

// Package simchain is a model of a chain backend for wallet-level checks: a
// best chain with reorganisations and a mempool (Chain), and per-session
// chain.Interface clients (Client) that deliver notifications to the wallet
// through an unbounded FIFO feeding an unbuffered channel, so that the harness
// can wait deterministically until the wallet has processed everything.
package simchain

import (
	"encoding/binary"
	"fmt"
	"github.com/btcsuite/btcwallet/chain"
	"sort"
	"sync"
	"time"

	"github.com/btcsuite/btcd/chaincfg"
	"github.com/btcsuite/btcd/chaincfg/chainhash"
	"github.com/btcsuite/btcd/wire"
)

// Block is a block of the model chain.
type Block struct {
	Height int32
	Hash   chainhash.Hash
	Msg    *wire.MsgBlock
}

// Time is the block's timestamp.
func (b *Block) Time() time.Time { return b.Msg.Header.Timestamp }

// Chain is the backend's view of the block chain.
type Chain struct {
	mu      sync.Mutex
	Params  *chaincfg.Params
	best    []*Block
	byHash  map[chainhash.Hash]*Block
	mempool []*wire.MsgTx
	nonce   uint32
	clients []*Client
	// txIndex holds every transaction the backend has ever seen; the model is
	// an ideal backend that can tell whether an input spends an output paying
	// a watched address, however long ago that output was created.
	txIndex map[chainhash.Hash]*wire.MsgTx
}

// LookupTx returns a transaction the backend has seen.
func (c *Chain) LookupTx(h chainhash.Hash) *wire.MsgTx {
	c.mu.Lock()
	defer c.mu.Unlock()
	return c.txIndex[h]
}

// NewChain creates a chain holding only the genesis block of params.
func NewChain(params *chaincfg.Params) *Chain {
	c := &Chain{Params: params, byHash: map[chainhash.Hash]*Block{}, txIndex: map[chainhash.Hash]*wire.MsgTx{}}
	g := &Block{Height: 0, Hash: *params.GenesisHash, Msg: params.GenesisBlock}
	c.best = []*Block{g}
	c.byHash[g.Hash] = g
	return c
}

// Tip returns the best block.
func (c *Chain) Tip() *Block {
	c.mu.Lock()
	defer c.mu.Unlock()
	return c.best[len(c.best)-1]
}

// At returns the best-chain block at a height (nil when beyond the tip).
func (c *Chain) At(h int32) *Block {
	c.mu.Lock()
	defer c.mu.Unlock()
	if h < 0 || int(h) >= len(c.best) {
		return nil
	}
	return c.best[h]
}

// ByHash returns any block ever created (also disconnected ones).
func (c *Chain) ByHash(h chainhash.Hash) *Block {
	c.mu.Lock()
	defer c.mu.Unlock()
	return c.byHash[h]
}

// Best returns a copy of the best chain.
func (c *Chain) Best() []*Block {
	c.mu.Lock()
	defer c.mu.Unlock()
	return append([]*Block(nil), c.best...)
}

// coinbase builds a unique coinbase transaction paying `script` (or an
// unspendable script when nil).
func (c *Chain) coinbase(height int32, script []byte, value int64) *wire.MsgTx {
	c.nonce++
	tx := wire.NewMsgTx(1)
	sig := make([]byte, 12)
	sig[0] = 0x03
	sig[1], sig[2], sig[3] = byte(height), byte(height>>8), byte(height>>16)
	binary.LittleEndian.PutUint32(sig[4:], c.nonce)
	copy(sig[8:], "sim!")
	tx.AddTxIn(wire.NewTxIn(wire.NewOutPoint(&chainhash.Hash{}, wire.MaxPrevOutIndex), sig, nil))
	if script == nil {
		script = []byte{0x6a, 0x04, 's', 'i', 'm', '0'}
		value = 0
	}
	tx.AddTxOut(wire.NewTxOut(value, script))
	return tx
}

// Extend appends a block on top of the current tip with the given
// transactions (after a generated coinbase). cbScript/cbValue make the
// coinbase pay a script (nil: nobody). It notifies the clients.
func (c *Chain) Extend(txs []*wire.MsgTx, ts time.Time, cbScript []byte, cbValue int64) *Block {
	c.mu.Lock()
	tip := c.best[len(c.best)-1]
	h := tip.Height + 1
	msg := wire.NewMsgBlock(&wire.BlockHeader{Version: 4, PrevBlock: tip.Hash, Timestamp: ts, Bits: c.Params.PowLimitBits})
	cb := c.coinbase(h, cbScript, cbValue)
	msg.AddTransaction(cb)
	included := map[chainhash.Hash]bool{}
	c.txIndex[cb.TxHash()] = cb
	for _, tx := range txs {
		msg.AddTransaction(tx)
		included[tx.TxHash()] = true
		c.txIndex[tx.TxHash()] = tx
	}
	// merkle root: any value unique to the content
	var mr chainhash.Hash
	for _, tx := range msg.Transactions {
		th := tx.TxHash()
		mr = chainhash.DoubleHashH(append(mr[:], th[:]...))
	}
	msg.Header.MerkleRoot = mr
	c.nonce++
	msg.Header.Nonce = c.nonce
	b := &Block{Height: h, Hash: msg.BlockHash(), Msg: msg}
	c.best = append(c.best, b)
	c.byHash[b.Hash] = b
	// confirmed transactions and their conflicts leave the mempool
	spent := map[wire.OutPoint]bool{}
	for _, tx := range txs {
		for _, in := range tx.TxIn {
			spent[in.PreviousOutPoint] = true
		}
	}
	keep := c.mempool[:0]
	for _, tx := range c.mempool {
		if included[tx.TxHash()] {
			continue
		}
		conflict := false
		for _, in := range tx.TxIn {
			if spent[in.PreviousOutPoint] {
				conflict = true
			}
		}
		if !conflict {
			keep = append(keep, tx)
		}
	}
	c.mempool = keep
	clients := append([]*Client(nil), c.clients...)
	c.mu.Unlock()
	for _, cl := range clients {
		cl.blockConnected(b)
	}
	return b
}

// Reconnect puts an earlier disconnected block back on top of the tip (the
// chain flips back). The block's parent must be the tip.
func (c *Chain) Reconnect(b *Block) error {
	c.mu.Lock()
	tip := c.best[len(c.best)-1]
	if b.Msg.Header.PrevBlock != tip.Hash {
		c.mu.Unlock()
		return fmt.Errorf("block %v does not extend the tip", b.Hash)
	}
	c.best = append(c.best, b)
	included := map[chainhash.Hash]bool{}
	for _, tx := range b.Msg.Transactions {
		included[tx.TxHash()] = true
	}
	keep := c.mempool[:0]
	for _, tx := range c.mempool {
		if !included[tx.TxHash()] {
			keep = append(keep, tx)
		}
	}
	c.mempool = keep
	clients := append([]*Client(nil), c.clients...)
	c.mu.Unlock()
	for _, cl := range clients {
		cl.blockConnected(b)
	}
	return nil
}

// DisconnectTip removes the tip block; its non-coinbase transactions return
// to the mempool. It notifies the clients.
func (c *Chain) DisconnectTip() *Block {
	c.mu.Lock()
	if len(c.best) <= 1 {
		c.mu.Unlock()
		return nil
	}
	b := c.best[len(c.best)-1]
	c.best = c.best[:len(c.best)-1]
	// the block's transactions come before what is already in the mempool:
	// later blocks are disconnected first, and mempool order must stay
	// parent-first
	back := append([]*wire.MsgTx(nil), b.Msg.Transactions[1:]...)
	c.mempool = append(back, c.mempool...)
	clients := append([]*Client(nil), c.clients...)
	c.mu.Unlock()
	for _, cl := range clients {
		cl.blockDisconnected(b)
	}
	return b
}

// AddToMempool accepts a transaction into the mempool and notifies clients
// (unconfirmed relevant transaction).
func (c *Chain) AddToMempool(tx *wire.MsgTx) {
	c.mu.Lock()
	h := tx.TxHash()
	for _, m := range c.mempool {
		if m.TxHash() == h {
			c.mu.Unlock()
			return
		}
	}
	c.mempool = append(c.mempool, tx)
	c.txIndex[h] = tx
	clients := append([]*Client(nil), c.clients...)
	c.mu.Unlock()
	for _, cl := range clients {
		cl.mempoolTx(tx)
	}
}

// Offer is what a node does with a transaction a client submits, as one atomic
// step: a transaction it already holds is answered with "already in mempool"; a
// transaction already in the best chain is taken note of and changes nothing;
// a transaction spending an output that a confirmed or a held transaction
// already spends is refused; anything else enters the mempool.
func (c *Chain) Offer(tx *wire.MsgTx) error {
	c.mu.Lock()
	h := tx.TxHash()
	spends := map[wire.OutPoint]bool{}
	for _, in := range tx.TxIn {
		spends[in.PreviousOutPoint] = true
	}
	for _, m := range c.mempool {
		if m.TxHash() == h {
			c.mu.Unlock()
			return chain.ErrTxAlreadyInMempool
		}
		for _, in := range m.TxIn {
			if spends[in.PreviousOutPoint] {
				c.mu.Unlock()
				return chain.ErrMempoolConflict
			}
		}
	}
	for _, b := range c.best {
		for _, btx := range b.Msg.Transactions {
			if btx.TxHash() == h {
				c.mu.Unlock()
				return nil
			}
		}
	}
	for _, b := range c.best {
		for _, btx := range b.Msg.Transactions[1:] {
			for _, in := range btx.TxIn {
				if spends[in.PreviousOutPoint] {
					c.mu.Unlock()
					return chain.ErrMissingInputsOrSpent
				}
			}
		}
	}
	c.mempool = append(c.mempool, tx)
	c.txIndex[h] = tx
	clients := append([]*Client(nil), c.clients...)
	c.mu.Unlock()
	for _, cl := range clients {
		cl.mempoolTx(tx)
	}
	return nil
}

// DropFromMempool removes a transaction (and nothing else) from the mempool.
func (c *Chain) DropFromMempool(h chainhash.Hash) {
	c.mu.Lock()
	defer c.mu.Unlock()
	keep := c.mempool[:0]
	for _, m := range c.mempool {
		if m.TxHash() != h {
			keep = append(keep, m)
		}
	}
	c.mempool = keep
}

// Mempool returns the mempool transactions in arrival order.
func (c *Chain) Mempool() []*wire.MsgTx {
	c.mu.Lock()
	defer c.mu.Unlock()
	return append([]*wire.MsgTx(nil), c.mempool...)
}

// InMempool reports whether the transaction is in the mempool.
func (c *Chain) InMempool(h chainhash.Hash) bool {
	c.mu.Lock()
	defer c.mu.Unlock()
	for _, m := range c.mempool {
		if m.TxHash() == h {
			return true
		}
	}
	return false
}

// Orphaned returns every block the chain ever had that is not on the best
// chain now, lowest first (ties in creation order are not defined).
func (c *Chain) Orphaned() []*Block {
	c.mu.Lock()
	defer c.mu.Unlock()
	var out []*Block
	for _, b := range c.byHash {
		if int(b.Height) >= len(c.best) || c.best[b.Height].Hash != b.Hash {
			out = append(out, b)
		}
	}
	sort.Slice(out, func(i, j int) bool {
		if out[i].Height != out[j].Height {
			return out[i].Height < out[j].Height
		}
		return out[i].Hash.String() < out[j].Hash.String()
	})
	return out
}

// ConfirmedIn returns the best-chain block containing the transaction.
func (c *Chain) ConfirmedIn(h chainhash.Hash) *Block {
	c.mu.Lock()
	defer c.mu.Unlock()
	for i := len(c.best) - 1; i >= 0; i-- {
		for _, tx := range c.best[i].Msg.Transactions {
			if tx.TxHash() == h {
				return c.best[i]
			}
		}
	}
	return nil
}

func (c *Chain) attach(cl *Client) {
	c.mu.Lock()
	c.clients = append(c.clients, cl)
	c.mu.Unlock()
}

func (c *Chain) detach(cl *Client) {
	c.mu.Lock()
	keep := c.clients[:0]
	for _, x := range c.clients {
		if x != cl {
			keep = append(keep, x)
		}
	}
	c.clients = keep
	c.mu.Unlock()
}

package txsim

import (
	"encoding/binary"
	"time"

	"github.com/btcsuite/btcd/chaincfg/chainhash"
	"github.com/btcsuite/btcd/wire"
)

// Blk is a block of the model chain that holds wallet transactions. Blocks
// without wallet transactions only move the tip height.
type Blk struct {
	Height int32
	Hash   chainhash.Hash
	Time   time.Time
	Txs    []int // universe indices in block order
}

// Node is a model of a validating node: a best chain and a mempool. It is used
// to decide which events are chain-consistent; it never looks at the store.
type Node struct {
	U        *Universe
	Maturity int32
	Blocks   []*Blk // ascending heights
	Tip      int32
	ConfIn   map[int]*Blk          // confirmed transactions
	SpentBy  map[wire.OutPoint]int // outpoints spent by a confirmed transaction
	Mempool  map[int]bool
	Dead     map[int]bool // disconnected coinbases and everything depending on them
	Orphaned []*Blk       // disconnected blocks (the chain may flip back to them)
	forks    uint32
}

// NewNode creates a node whose tip is at the given height.
func NewNode(u *Universe, maturity int32, tip int32) *Node {
	return &Node{U: u, Maturity: maturity, Tip: tip, ConfIn: map[int]*Blk{},
		SpentBy: map[wire.OutPoint]int{}, Mempool: map[int]bool{}, Dead: map[int]bool{}}
}

func (n *Node) blockHash(height int32) chainhash.Hash {
	n.forks++
	var h chainhash.Hash
	binary.LittleEndian.PutUint32(h[0:], uint32(height))
	binary.LittleEndian.PutUint32(h[4:], n.forks)
	h[30] = 0xb1
	h[31] = 0x0c
	return h
}

// validAt reports whether transaction i could be included at height h given
// the confirmed chain plus the transactions in `also` (earlier in the same
// block or, for mempool acceptance, the mempool).
func (n *Node) validAt(i int, h int32, also map[int]bool, alsoSpent map[wire.OutPoint]bool) bool {
	if n.Dead[i] || n.ConfIn[i] != nil {
		return false
	}
	sp := n.U.Specs[i]
	if sp.Coinbase {
		return false // coinbases are handled by the block builder
	}
	for _, in := range sp.Ins {
		op := n.U.OutPointOf(in)
		if _, spent := n.SpentBy[op]; spent {
			return false
		}
		if alsoSpent != nil && alsoSpent[op] {
			return false
		}
		if in.Parent >= 0 {
			pb := n.ConfIn[in.Parent]
			if pb == nil && !also[in.Parent] {
				return false
			}
			if n.U.Specs[in.Parent].Coinbase {
				if pb == nil || h-pb.Height < n.Maturity {
					return false
				}
			}
		}
	}
	return true
}

// CanAnnounce: the node would accept i into its mempool now.
func (n *Node) CanAnnounce(i int) bool {
	if n.Mempool[i] {
		return false
	}
	return n.validAt(i, n.Tip+1, n.Mempool, nil)
}

// mempoolDescendants returns i and every mempool transaction depending on it.
func (n *Node) mempoolDescendants(i int, acc map[int]bool) {
	if acc[i] {
		return
	}
	acc[i] = true
	for _, c := range n.U.Children(i) {
		if n.Mempool[c] {
			n.mempoolDescendants(c, acc)
		}
	}
}

// Announce accepts i into the mempool, replacing conflicting mempool
// transactions (and their descendants) as a node with replacement does.
func (n *Node) Announce(i int) {
	for _, op := range n.U.Inputs(i) {
		for _, j := range n.U.Spenders[op] {
			if j != i && n.Mempool[j] {
				acc := map[int]bool{}
				n.mempoolDescendants(j, acc)
				for k := range acc {
					delete(n.Mempool, k)
				}
			}
		}
	}
	n.Mempool[i] = true
}

// Forget drops i and its mempool descendants from the mempool (the wallet
// abandoned a transaction the node rejected).
func (n *Node) Forget(i int) {
	acc := map[int]bool{}
	n.mempoolDescendants(i, acc)
	for k := range acc {
		delete(n.Mempool, k)
	}
}

// Connect appends a block at the given height with the given transactions
// (already validated by the caller via CanInclude).
func (n *Node) Connect(height int32, txs []int, t time.Time) *Blk {
	return n.ConnectBlk(&Blk{Height: height, Hash: n.blockHash(height), Time: t, Txs: txs})
}

// ConnectBlk connects a given block (used to flip back to a block that was
// disconnected earlier: same hash, same transactions).
func (n *Node) ConnectBlk(b *Blk) *Blk {
	height, txs := b.Height, b.Txs
	n.Tip = height
	if len(txs) == 0 {
		return b
	}
	n.Blocks = append(n.Blocks, b)
	for _, i := range txs {
		n.ConfIn[i] = b
		delete(n.Mempool, i)
		for _, op := range n.U.Inputs(i) {
			n.SpentBy[op] = i
			// conflicting mempool transactions and their descendants leave the mempool
			for _, j := range n.U.Spenders[op] {
				if j != i && n.Mempool[j] {
					n.Forget(j)
				}
			}
		}
	}
	return b
}

// BlockBuilder incrementally checks block validity.
type BlockBuilder struct {
	n      *Node
	Height int32
	In     map[int]bool
	Spent  map[wire.OutPoint]bool
	Txs    []int
}

// NewBlock starts a block at the given height.
func (n *Node) NewBlock(height int32) *BlockBuilder {
	return &BlockBuilder{n: n, Height: height, In: map[int]bool{}, Spent: map[wire.OutPoint]bool{}}
}

// CanInclude reports whether i may be appended to the block.
func (b *BlockBuilder) CanInclude(i int) bool {
	if b.In[i] {
		return false
	}
	if b.n.U.Specs[i].Coinbase {
		return len(b.Txs) == 0 && !b.n.Dead[i] && b.n.ConfIn[i] == nil
	}
	return b.n.validAt(i, b.Height, b.In, b.Spent)
}

// Include appends i.
func (b *BlockBuilder) Include(i int) {
	b.In[i] = true
	b.Txs = append(b.Txs, i)
	for _, op := range b.n.U.Inputs(i) {
		b.Spent[op] = true
	}
}

func (n *Node) markDead(i int) {
	if n.Dead[i] {
		return
	}
	n.Dead[i] = true
	delete(n.Mempool, i)
	for _, c := range n.U.Children(i) {
		n.markDead(c)
	}
}

// Disconnect removes all blocks at heights >= h; the tip becomes h-1 (or stays
// when it is already lower).
func (n *Node) Disconnect(h int32) {
	if n.Tip >= h {
		n.Tip = h - 1
	}
	keep := n.Blocks[:0]
	var gone []*Blk
	for _, b := range n.Blocks {
		if b.Height >= h {
			gone = append(gone, b)
		} else {
			keep = append(keep, b)
		}
	}
	n.Blocks = keep
	n.Orphaned = append(n.Orphaned, gone...)
	for _, b := range gone {
		for _, i := range b.Txs {
			delete(n.ConfIn, i)
			for _, op := range n.U.Inputs(i) {
				delete(n.SpentBy, op)
			}
		}
	}
	for _, b := range gone {
		for _, i := range b.Txs {
			if n.U.Specs[i].Coinbase {
				n.markDead(i)
			}
		}
	}
	// disconnected transactions go back to the mempool when still valid
	for _, b := range gone {
		for _, i := range b.Txs {
			if !n.Dead[i] && n.validAt(i, n.Tip+1, n.Mempool, nil) {
				conflict := false
				for _, op := range n.U.Inputs(i) {
					for _, j := range n.U.Spenders[op] {
						if j != i && n.Mempool[j] {
							conflict = true
						}
					}
				}
				if !conflict {
					n.Mempool[i] = true
				}
			}
		}
	}
}

// HighestBlock is the height of the highest block holding wallet
// transactions, or -1.
func (n *Node) HighestBlock() int32 {
	if len(n.Blocks) == 0 {
		return -1
	}
	return n.Blocks[len(n.Blocks)-1].Height
}

// CanIncludeIgnoringDead is CanInclude for re-connecting an orphaned block: a
// transaction that died with its coinbase becomes valid again when that very
// coinbase is re-connected earlier in the same block or chain.
func (b *BlockBuilder) CanIncludeIgnoringDead(i int) bool {
	if b.In[i] {
		return false
	}
	was := b.n.Dead[i]
	delete(b.n.Dead, i)
	ok := b.n.validAt(i, b.Height, b.In, b.Spent)
	if was {
		b.n.Dead[i] = true
	}
	return ok
}

// Reconnect connects an orphaned block again; its transactions (and what
// depends on them) are no longer dead.
func (n *Node) Reconnect(b *Blk) *Blk {
	keep := n.Orphaned[:0]
	for _, o := range n.Orphaned {
		if o != b {
			keep = append(keep, o)
		}
	}
	n.Orphaned = keep
	for _, i := range b.Txs {
		n.revive(i)
	}
	return n.ConnectBlk(b)
}

func (n *Node) revive(i int) {
	if !n.Dead[i] {
		return
	}
	// a transaction is dead while any coinbase ancestor is disconnected;
	// recompute conservatively: revive i, then descendants whose other
	// ancestors are alive
	delete(n.Dead, i)
	for _, c := range n.U.Children(i) {
		alive := true
		for _, in := range n.U.Specs[c].Ins {
			if in.Parent >= 0 && in.Parent != i && n.Dead[in.Parent] {
				alive = false
			}
		}
		if alive {
			n.revive(c)
		}
	}
}

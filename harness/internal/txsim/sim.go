package txsim

import (
	"fmt"
	"os"
	"path/filepath"
	"sort"
	"time"

	"github.com/btcsuite/btcd/chaincfg"
	"github.com/btcsuite/btcd/wire"
	"github.com/btcsuite/btcwallet/walletdb"
	_ "github.com/btcsuite/btcwallet/walletdb/bdb"
	"github.com/btcsuite/btcwallet/wtxmgr"
	"github.com/lightningnetwork/lnd/clock"
	"pgregory.net/rapid"

	"verifharness/internal/evid"
)

var nsKey = []byte("wtxmgr")

// ScratchDir returns a directory for database files (tmpfs when available).
func ScratchDir() string {
	if st, err := os.Stat("/dev/shm"); err == nil && st.IsDir() {
		return "/dev/shm"
	}
	return os.TempDir()
}

// Fataler is the part of *rapid.T / *testing.T the simulator needs.
type Fataler interface {
	Fatalf(format string, args ...interface{})
}

// Oracles selects which checks run after every step.
type Oracles struct {
	C01 bool // balance / spendable / outputs to watch
	C02 bool // explicit sub-claims (unconfirmed set, per-block sets)
	C12 bool // leases
	C13 bool // details / ranges
	C14 bool // UnminedTxs order
}

// Config configures a simulation.
type Config struct {
	Prop     string
	Weights  map[string]int // action -> weight
	Oracles  Oracles
	MinSteps int
	MaxSteps int
	Universe UniverseOpts
	Leases   bool
	// KnownF4 lists F4 as an open known finding: the ledger then follows the
	// implementation for that shape and counts the exclusions.
	KnownF4 bool
}

// Sim is one running case.
type Sim struct {
	T      Fataler
	Cfg    Config
	U      *Universe
	N      *Node
	L      *Ledger
	Params *chaincfg.Params
	Dir    string
	DBPath string
	DB     walletdb.DB
	Store  *wtxmgr.Store
	Clock  *clock.TestClock
	Case   *evid.Case
	evIdx  int64
	// creditsAnyway: the delivery in progress adds the credits even when the
	// store reports the transaction as already recorded
	creditsAnyway bool
	// history of insert events for redelivery: (tx, block or nil)
	hist []histEv
	// statistics for the non-triviality rules
	NConfirm, NRollback, NConflictRemoved, NAbandon, NRedeliver, NLease, NReopen int
	NUnconfSpendOfConfirmed, NImmatureCoinbase, NReconfirm, NMovedStatus         int
	NRollbackCreditAndSpender, NCoinbaseDescRemoved, NLeaseInteresting           int
	everConfirmed                                                                map[int]bool
	everRolledBack                                                               map[int]bool
}

type histEv struct {
	tx  int
	blk *Blk
}

// Violation formats a property violation and fails the case.
func (s *Sim) Violation(format string, args ...interface{}) {
	msg := fmt.Sprintf(format, args...)
	s.T.Fatalf("%s VIOLATED: %s\n--- universe ---\n%s--- history ---\n%s", s.Cfg.Prop, msg, s.U.Describe(), s.Case.Text())
}

// Inconclusive fails the case for a reason that is not a property violation.
func (s *Sim) Inconclusive(format string, args ...interface{}) {
	s.T.Fatalf("INCONCLUSIVE: "+format, args...)
}

// NewSim draws a universe and opens a fresh store.
func NewSim(t *rapid.T, cfg Config, c *evid.Case) *Sim {
	s := &Sim{T: t, Cfg: cfg, Case: c, everConfirmed: map[int]bool{}, everRolledBack: map[int]bool{}}
	s.U = DrawUniverse(t, cfg.Universe)
	params := chaincfg.RegressionNetParams
	if rapid.Bool().Draw(t, "lowMaturity") {
		params.CoinbaseMaturity = 3
	}
	s.Params = &params
	tip := int32(rapid.IntRange(1, 500).Draw(t, "startTip"))
	s.N = NewNode(s.U, int32(params.CoinbaseMaturity), tip)
	s.L = NewLedger(s.U, int32(params.CoinbaseMaturity))
	s.L.F4Compat = cfg.KnownF4
	c.Logf("maturity=%d startTip=%d", params.CoinbaseMaturity, tip)
	c.Logf("%s", s.U.Describe())
	s.Clock = clock.NewTestClock(time.Unix(1_700_000_000, 0))
	s.open(true)
	return s
}

func (s *Sim) open(create bool) {
	if create {
		dir, err := os.MkdirTemp(ScratchDir(), "verif-txsim-")
		if err != nil {
			s.Inconclusive("mkdtemp: %v", err)
		}
		s.Dir = dir
		s.DBPath = filepath.Join(dir, "w.db")
		db, err := walletdb.Create("bdb", s.DBPath, true, 10*time.Second, false)
		if err != nil {
			s.Inconclusive("create db: %v", err)
		}
		s.DB = db
		err = walletdb.Update(db, func(tx walletdb.ReadWriteTx) error {
			ns, err := tx.CreateTopLevelBucket(nsKey)
			if err != nil {
				return err
			}
			return wtxmgr.Create(ns)
		})
		if err != nil {
			s.Inconclusive("create store: %v", err)
		}
	} else {
		db, err := walletdb.Open("bdb", s.DBPath, true, 10*time.Second, false)
		if err != nil {
			s.Inconclusive("open db: %v", err)
		}
		s.DB = db
	}
	err := walletdb.View(s.DB, func(tx walletdb.ReadTx) error {
		st, err := wtxmgr.Open(tx.ReadBucket(nsKey), s.Params)
		s.Store = st
		return err
	})
	if err != nil {
		s.Violation("opening the store failed: %v", err)
	}
	s.Store.VerifSetClock(s.Clock)
}

// Close releases the database and removes the scratch directory.
func (s *Sim) Close() {
	if s.DB != nil {
		s.DB.Close()
		s.DB = nil
	}
	if s.Dir != "" {
		os.RemoveAll(s.Dir)
	}
}

// Reopen closes and reopens database and store (restart).
func (s *Sim) Reopen() {
	s.DB.Close()
	s.open(false)
	s.NReopen++
}

func (s *Sim) meta(b *Blk) *wtxmgr.BlockMeta {
	if b == nil {
		return nil
	}
	return &wtxmgr.BlockMeta{Block: wtxmgr.Block{Hash: b.Hash, Height: b.Height}, Time: b.Time}
}

// deliverNS hands transaction i to the store exactly as wallet.addRelevantTx
// does: insert, and when it was not known before, add a credit for every
// output that pays the wallet.
func (s *Sim) deliverNS(ns walletdb.ReadWriteBucket, i int, b *Blk) error {
	s.evIdx++
	rec := s.U.Rec(i, time.Unix(1_600_000_000+s.evIdx, 0))
	bm := s.meta(b)
	exists, err := s.Store.InsertTxCheckIfExists(ns, rec, bm)
	if err != nil {
		return fmt.Errorf("InsertTxCheckIfExists(tx%d): %w", i, err)
	}
	if exists && !s.creditsAnyway {
		return nil
	}
	for o, out := range s.U.Specs[i].Outs {
		if !out.Credit {
			continue
		}
		if err := s.Store.AddCredit(ns, rec, bm, uint32(o), out.Change); err != nil {
			return fmt.Errorf("AddCredit(tx%d:%d): %w", i, o, err)
		}
	}
	return nil
}

func (s *Sim) update(what string, f func(ns walletdb.ReadWriteBucket) error) {
	err := walletdb.Update(s.DB, func(tx walletdb.ReadWriteTx) error {
		return f(tx.ReadWriteBucket(nsKey))
	})
	if err != nil {
		s.Violation("%s: the store failed on a chain-consistent event: %v", what, err)
	}
}

// ---- actions --------------------------------------------------------------

// ActAnnounce: an unconfirmed transaction is seen.
func (s *Sim) ActAnnounce(t *rapid.T) bool {
	var cands []int
	for i := range s.U.Specs {
		if s.N.CanAnnounce(i) {
			cands = append(cands, i)
		}
	}
	if len(cands) == 0 {
		return false
	}
	i := rapid.SampledFrom(cands).Draw(t, "announce")
	s.Case.Logf("announce tx%d", i)
	s.N.Announce(i)
	for _, op := range s.U.Inputs(i) {
		if p, ok := s.U.Index[op.Hash]; ok {
			if k := s.L.Known[p]; k != nil && k.Blk != nil && s.U.Specs[p].Outs[op.Index].Credit {
				s.NUnconfSpendOfConfirmed++
			}
		}
	}
	s.update("announce", func(ns walletdb.ReadWriteBucket) error { return s.deliverNS(ns, i, nil) })
	s.L.Unmined(i)
	s.hist = append(s.hist, histEv{i, nil})
	return true
}

// ActMine: a block confirming some transactions is connected.
func (s *Sim) ActMine(t *rapid.T) bool {
	gap := int32(0)
	switch rapid.IntRange(0, 5).Draw(t, "gapkind") {
	case 0:
		gap = int32(rapid.IntRange(1, 4).Draw(t, "gap"))
	case 1:
		gap = int32(rapid.IntRange(1, int(s.N.Maturity)+2).Draw(t, "gap"))
	}
	h := s.N.Tip + 1 + gap
	bb := s.N.NewBlock(h)
	// the chain may flip back to a block that was disconnected earlier: the
	// very same block (hash, height, transactions) is connected again
	var flip *Blk
	if len(s.N.Orphaned) > 0 && rapid.IntRange(0, 3).Draw(t, "flipBack") == 0 {
		var cands []*Blk
		for _, ob := range s.N.Orphaned {
			if ob.Height <= s.N.Tip {
				continue
			}
			tb := s.N.NewBlock(ob.Height)
			ok := true
			for _, i := range ob.Txs {
				// a coinbase of a disconnected block is valid again only in that same block
				if s.U.Specs[i].Coinbase {
					if len(tb.Txs) != 0 || s.N.ConfIn[i] != nil {
						ok = false
						break
					}
				} else if !tb.CanIncludeIgnoringDead(i) {
					ok = false
					break
				}
				tb.Include(i)
			}
			if ok {
				cands = append(cands, ob)
			}
		}
		if len(cands) > 0 {
			flip = cands[rapid.IntRange(0, len(cands)-1).Draw(t, "flipTo")]
		}
	}
	if flip != nil {
		h = flip.Height
		bb = s.N.NewBlock(h)
		for _, i := range flip.Txs {
			bb.Include(i)
		}
		s.Case.Class("flip-back-to-disconnected-block")
	} else {
		// optional coinbase first
		for i := range s.U.Specs {
			if s.U.Specs[i].Coinbase && bb.CanInclude(i) {
				if rapid.IntRange(0, 2).Draw(t, "takeCoinbase") > 0 {
					bb.Include(i)
				}
				break
			}
		}
		preferMempool := rapid.IntRange(0, 3).Draw(t, "preferMempool") > 0
		// universe order is a topological order, so a single pass builds a
		// parent-first block
		for i := range s.U.Specs {
			if s.U.Specs[i].Coinbase || !bb.CanInclude(i) {
				continue
			}
			p := 2 // of 6
			if s.N.Mempool[i] == preferMempool {
				p = 4
			}
			if rapid.IntRange(0, 5).Draw(t, "take") < p {
				bb.Include(i)
			}
		}
	}
	blockTime := time.Unix(1_650_000_000+int64(h)*600, 0)
	if len(bb.Txs) == 0 {
		s.Case.Logf("advance tip to %d (empty block)", h)
		s.N.Connect(h, nil, blockTime)
		return true
	}
	perTx := rapid.Bool().Draw(t, "perTxDbTx")
	// statistics before the ledger changes
	for _, i := range bb.Txs {
		if s.everRolledBack[i] {
			s.NReconfirm++
		}
		if k := s.L.Known[i]; k != nil && k.Blk == nil {
			s.NMovedStatus++
		}
		for _, op := range s.U.Inputs(i) {
			for _, j := range s.U.Spenders[op] {
				if k := s.L.Known[j]; j != i && k != nil && k.Blk == nil {
					s.NConflictRemoved++
					for _, c := range s.U.Children(j) {
						if kc := s.L.Known[c]; kc != nil && kc.Blk == nil {
							s.Case.Class("conflict-loser-with-descendant")
						}
					}
				}
			}
		}
		if s.U.Specs[i].Coinbase {
			s.NImmatureCoinbase++
		}
	}
	var b *Blk
	if flip != nil {
		b = s.N.Reconnect(flip)
	} else {
		b = s.N.Connect(h, bb.Txs, blockTime)
	}
	s.Case.Logf("mine block h=%d %s txs=%v perTx=%v", h, b.Hash.String()[:8], bb.Txs, perTx)
	if perTx {
		for _, i := range b.Txs {
			i := i
			s.update("confirm", func(ns walletdb.ReadWriteBucket) error { return s.deliverNS(ns, i, b) })
		}
	} else {
		s.update("confirm", func(ns walletdb.ReadWriteBucket) error {
			for _, i := range b.Txs {
				if err := s.deliverNS(ns, i, b); err != nil {
					return err
				}
			}
			return nil
		})
	}
	for _, i := range b.Txs {
		s.L.Confirm(i, b)
		s.hist = append(s.hist, histEv{i, b})
		s.everConfirmed[i] = true
	}
	s.NConfirm++
	return true
}

// ActAdvance: blocks without wallet transactions are connected.
func (s *Sim) ActAdvance(t *rapid.T) bool {
	d := int32(rapid.IntRange(1, int(s.N.Maturity)+2).Draw(t, "advance"))
	s.N.Connect(s.N.Tip+d, nil, time.Time{})
	s.Case.Logf("advance tip to %d", s.N.Tip)
	return true
}

// ActRollback: blocks are disconnected down to a height.
func (s *Sim) ActRollback(t *rapid.T) bool {
	if len(s.N.Blocks) == 0 && rapid.IntRange(0, 3).Draw(t, "emptyRollback") > 0 {
		return false
	}
	var h int32
	if len(s.N.Blocks) > 0 && rapid.IntRange(0, 4).Draw(t, "atBlock") > 0 {
		b := s.N.Blocks[rapid.IntRange(0, len(s.N.Blocks)-1).Draw(t, "rbBlock")]
		h = b.Height + int32(rapid.IntRange(-1, 1).Draw(t, "rbOff"))
	} else {
		lo := s.N.Tip - 5
		if len(s.N.Blocks) > 0 && s.N.Blocks[0].Height < lo {
			lo = s.N.Blocks[0].Height
		}
		h = int32(rapid.IntRange(int(lo), int(s.N.Tip)+1).Draw(t, "rbHeight"))
	}
	if h < 1 {
		h = 1
	}
	if h > s.N.Tip+1 {
		h = s.N.Tip + 1
	}
	perBlock := rapid.Bool().Draw(t, "perBlock")
	// statistics
	for _, b := range s.N.Blocks {
		if b.Height < h {
			continue
		}
		in := map[int]bool{}
		for _, i := range b.Txs {
			in[i] = true
			s.everRolledBack[i] = true
		}
		for _, i := range b.Txs {
			for _, op := range s.U.Inputs(i) {
				if p, ok := s.U.Index[op.Hash]; ok && in[p] && s.U.Specs[p].Outs[op.Index].Credit {
					s.NRollbackCreditAndSpender++
				}
			}
			if s.U.Specs[i].Coinbase {
				for _, c := range s.U.Children(i) {
					if s.L.Known[c] != nil {
						s.NCoinbaseDescRemoved++
					}
				}
			}
		}
	}
	s.Case.Logf("rollback to height %d (tip was %d) perBlock=%v", h, s.N.Tip, perBlock)
	if perBlock && s.N.Tip-h <= 60 {
		// the wallet disconnects block by block, highest first
		for hh := s.N.Tip; hh >= h; hh-- {
			hh := hh
			s.update("rollback", func(ns walletdb.ReadWriteBucket) error { return s.Store.Rollback(ns, hh) })
		}
	} else {
		s.update("rollback", func(ns walletdb.ReadWriteBucket) error { return s.Store.Rollback(ns, h) })
	}
	s.N.Disconnect(h)
	s.L.Rollback(h)
	s.NRollback++
	return true
}

// ActAbandon: an unconfirmed transaction is removed (rejected broadcast).
func (s *Sim) ActAbandon(t *rapid.T) bool {
	cands := s.L.Unconfirmed()
	if len(cands) == 0 {
		return false
	}
	i := rapid.SampledFrom(cands).Draw(t, "abandon")
	s.Case.Logf("abandon tx%d", i)
	s.update("abandon", func(ns walletdb.ReadWriteBucket) error {
		return s.Store.RemoveUnminedTx(ns, s.U.Rec(i, time.Unix(1_600_000_000, 0)))
	})
	s.N.Forget(i)
	s.L.Abandon(i)
	s.NAbandon++
	if rapid.IntRange(0, 3).Draw(t, "abandonAgain") == 0 {
		// the same event delivered again: nothing is left to remove
		s.Case.Logf("abandon tx%d again", i)
		s.update("abandon again", func(ns walletdb.ReadWriteBucket) error {
			return s.Store.RemoveUnminedTx(ns, s.U.Rec(i, time.Unix(1_600_000_000, 0)))
		})
		s.Case.Class("abandon-delivered-twice")
	}
	return true
}

// ActAbandonUnknown: the caller gives up a transaction the store never
// recorded (and none of whose outputs a recorded transaction spends), e.g. a
// conflicting version of a recorded one. Nothing changes. (Giving up a
// transaction the store holds as confirmed is not an event of the statements'
// domain: RemoveUnminedTx then erases its unconfirmed spenders - noted as an
// observation in DESIGN.md.)
func (s *Sim) ActAbandonUnknown(t *rapid.T) bool {
	var cands []int
	for i := range s.U.Specs {
		if s.L.Known[i] != nil {
			continue
		}
		child := false
		for j, sp := range s.U.Specs {
			if s.L.Known[j] == nil {
				continue
			}
			for _, in := range sp.Ins {
				if in.Parent == i {
					child = true
				}
			}
		}
		if !child {
			cands = append(cands, i)
		}
	}
	if len(cands) == 0 {
		return false
	}
	i := rapid.SampledFrom(cands).Draw(t, "abandonUnknown")
	s.Case.Logf("abandon tx%d, which the store never recorded", i)
	s.update("abandon (unknown)", func(ns walletdb.ReadWriteBucket) error {
		return s.Store.RemoveUnminedTx(ns, s.U.Rec(i, time.Unix(1_600_000_000, 0)))
	})
	s.Case.Class("abandon-of-a-transaction-never-recorded")
	return true
}

// ActRedeliver: an earlier insert event is delivered again, if a node could
// still emit it.
func (s *Sim) ActRedeliver(t *rapid.T) bool {
	var cands []histEv
	for _, e := range s.hist {
		if e.blk != nil {
			// the same (transaction, block) again, while the block is still connected
			if cb := s.N.ConfIn[e.tx]; cb != nil && cb == e.blk {
				cands = append(cands, e)
			}
		} else {
			// an unconfirmed notification again: while the transaction is still in
			// the node's mempool, or late (it has confirmed meanwhile)
			k := s.L.Known[e.tx]
			if k != nil && (s.N.Mempool[e.tx] || s.N.ConfIn[e.tx] != nil) {
				cands = append(cands, e)
			}
		}
	}
	if len(cands) == 0 {
		return false
	}
	e := cands[rapid.IntRange(0, len(cands)-1).Draw(t, "redeliver")]
	if e.blk != nil {
		s.Case.Logf("redeliver tx%d confirmed in h=%d", e.tx, e.blk.Height)
	} else {
		s.Case.Logf("redeliver tx%d unconfirmed", e.tx)
	}
	// A caller may skip the credits of a transaction the store already has (the
	// wallet does), or add them again regardless (InsertTx followed by AddCredit,
	// as the package's own examples do): both are the same event delivered again.
	s.creditsAnyway = rapid.Bool().Draw(t, "creditsAgain")
	if s.creditsAnyway {
		s.Case.Logf("  (credits are added again although the transaction is known)")
		s.Case.Class("redelivery-adds-credits-again")
	}
	s.update("redeliver", func(ns walletdb.ReadWriteBucket) error { return s.deliverNS(ns, e.tx, e.blk) })
	s.creditsAnyway = false
	if e.blk != nil {
		s.L.Confirm(e.tx, e.blk)
	} else {
		s.L.Unmined(e.tx)
	}
	s.NRedeliver++
	return true
}

// ActReopen: restart.
func (s *Sim) ActReopen(t *rapid.T) bool {
	s.Case.Logf("reopen")
	s.Reopen()
	return true
}

// Run executes a generated history, checking the oracles after every step.
func (s *Sim) Run(t *rapid.T, extra map[string]func(*rapid.T) bool, check func()) {
	acts := map[string]func(*rapid.T) bool{
		"announce":     s.ActAnnounce,
		"mine":         s.ActMine,
		"advance":      s.ActAdvance,
		"rollback":     s.ActRollback,
		"abandon":      s.ActAbandon,
		"redeliver":    s.ActRedeliver,
		"abandonOther": s.ActAbandonUnknown,
		"reopen":       s.ActReopen,
	}
	for k, f := range extra {
		acts[k] = f
	}
	weights := map[string]int{}
	for k, w := range s.Cfg.Weights {
		weights[k] = w
	}
	if w, ok := weights["abandon"]; ok && w > 0 {
		if _, set := weights["abandonOther"]; !set {
			weights["abandonOther"] = (w + 1) / 2
		}
	}
	var names []string
	for k, w := range weights {
		if acts[k] == nil {
			s.Inconclusive("unknown action %q", k)
		}
		for j := 0; j < w; j++ {
			names = append(names, k)
		}
	}
	sort.Strings(names)
	steps := rapid.IntRange(s.Cfg.MinSteps, s.Cfg.MaxSteps).Draw(t, "steps")
	check()
	for k := 0; k < steps; k++ {
		name := rapid.SampledFrom(names).Draw(t, "action")
		if !acts[name](t) {
			// not enabled in this state: fall back to an always-enabled pair
			if !s.ActAnnounce(t) {
				s.ActMine(t)
			}
		}
		check()
	}
}

// View runs f in a fresh read transaction.
func (s *Sim) View(f func(ns walletdb.ReadBucket)) {
	err := walletdb.View(s.DB, func(tx walletdb.ReadTx) error { f(tx.ReadBucket(nsKey)); return nil })
	if err != nil {
		s.Violation("read transaction failed: %v", err)
	}
}

// OutPointName renders an outpoint in universe terms.
func (s *Sim) OutPointName(op wire.OutPoint) string {
	if i, ok := s.U.Index[op.Hash]; ok {
		return fmt.Sprintf("tx%d:%d", i, op.Index)
	}
	return op.String()
}

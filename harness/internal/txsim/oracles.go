package txsim

import (
	"bytes"
	"fmt"
	"sort"

	"github.com/btcsuite/btcd/btcutil"
	"github.com/btcsuite/btcd/chaincfg/chainhash"
	"github.com/btcsuite/btcd/wire"
	"github.com/btcsuite/btcwallet/walletdb"
	"github.com/btcsuite/btcwallet/wtxmgr"
)

// BalanceGrid returns the (minconf, syncHeight) pairs queried after each step.
func (s *Sim) BalanceGrid(extraMinconf, extraSync int32) (minconfs, syncs []int32) {
	m := s.N.Maturity
	minconfs = []int32{0, 1, 2, 3, m - 1, m, m + 1, extraMinconf}
	top := s.N.HighestBlock()
	if top < 0 {
		top = s.N.Tip
	}
	syncs = []int32{top, top + 1, top + m, s.N.Tip, s.N.Tip + 1, top + extraSync}
	return
}

// CheckC01 compares balance, spendable set and outputs-to-watch with the
// ledger, in the given namespace.
func (s *Sim) CheckC01(ns walletdb.ReadBucket, where string, extraMinconf, extraSync int32) {
	now := s.Clock.Now()
	minconfs, syncs := s.BalanceGrid(extraMinconf, extraSync)
	for _, mc := range minconfs {
		if mc < 0 {
			continue
		}
		for _, sh := range syncs {
			got, err := s.Store.Balance(ns, mc, sh)
			if err != nil {
				s.Violation("[%s] Balance(minconf=%d, sync=%d) failed: %v", where, mc, sh, err)
			}
			want := s.L.Balance(mc, sh, now)
			if int64(got) != want {
				s.Violation("[%s] Balance(minconf=%d, sync=%d) = %d, ledger truth = %d (tip %d)\nledger credits: %s",
					where, mc, sh, int64(got), want, s.N.Tip, s.describeCredits())
			}
		}
	}
	utxos, err := s.Store.UnspentOutputs(ns)
	if err != nil {
		s.Violation("[%s] UnspentOutputs failed: %v", where, err)
	}
	want := s.L.Spendable(now)
	seen := map[wire.OutPoint]bool{}
	for _, c := range utxos {
		if seen[c.OutPoint] {
			s.Violation("[%s] UnspentOutputs lists %s twice", where, s.OutPointName(c.OutPoint))
		}
		seen[c.OutPoint] = true
		w, ok := want[c.OutPoint]
		if !ok {
			s.Violation("[%s] UnspentOutputs lists %s which is not (credited, unspent, unleased) in the ledger\nledger credits: %s",
				where, s.OutPointName(c.OutPoint), s.describeCredits())
		}
		if int64(c.Amount) != w.Amount {
			s.Violation("[%s] spendable %s amount %d, ledger %d", where, s.OutPointName(c.OutPoint), c.Amount, w.Amount)
		}
		if !bytes.Equal(c.PkScript, PkScript(w.Tx, int(w.Out))) {
			s.Violation("[%s] spendable %s has the wrong script", where, s.OutPointName(c.OutPoint))
		}
		if c.FromCoinBase != w.Coinbase {
			s.Violation("[%s] spendable %s coinbase flag %v, ledger %v", where, s.OutPointName(c.OutPoint), c.FromCoinBase, w.Coinbase)
		}
		if w.Blk == nil {
			if c.Height != -1 {
				s.Violation("[%s] spendable %s is unconfirmed in the ledger but reported at height %d", where, s.OutPointName(c.OutPoint), c.Height)
			}
		} else {
			if c.Height != w.Blk.Height || c.BlockMeta.Block.Hash != w.Blk.Hash {
				s.Violation("[%s] spendable %s reported in block %d/%v, ledger says %d/%v", where,
					s.OutPointName(c.OutPoint), c.Height, c.BlockMeta.Block.Hash, w.Blk.Height, w.Blk.Hash)
			}
			if !c.Time.Equal(w.Blk.Time) {
				s.Violation("[%s] spendable %s block time %v, ledger %v", where, s.OutPointName(c.OutPoint), c.Time, w.Blk.Time)
			}
		}
	}
	for op := range want {
		if !seen[op] {
			s.Violation("[%s] UnspentOutputs misses %s (credited, unspent, unleased in the ledger)\nledger credits: %s",
				where, s.OutPointName(op), s.describeCredits())
		}
	}
	// OutputsToWatch: superset of spendable plus leased-but-otherwise-spendable,
	// and only credits of known transactions no confirmed transaction spends.
	watch, err := s.Store.OutputsToWatch(ns)
	if err != nil {
		s.Violation("[%s] OutputsToWatch failed: %v", where, err)
	}
	wseen := map[wire.OutPoint]bool{}
	for _, c := range watch {
		wseen[c.OutPoint] = true
	}
	allowed := map[wire.OutPoint]LCredit{}
	for _, c := range s.L.Credits() {
		if !c.SpentC {
			allowed[c.OutPoint] = c
		}
		if !c.Spent && !wseen[c.OutPoint] {
			s.Violation("[%s] OutputsToWatch misses unspent credit %s (leased=%v)", where, s.OutPointName(c.OutPoint), s.L.Leased(c.OutPoint, now))
		}
	}
	for _, c := range watch {
		a, ok := allowed[c.OutPoint]
		if !ok {
			s.Violation("[%s] OutputsToWatch lists %s which is not a credit of a known transaction unspent by confirmed transactions", where, s.OutPointName(c.OutPoint))
		}
		if !bytes.Equal(c.PkScript, PkScript(a.Tx, int(a.Out))) {
			s.Violation("[%s] OutputsToWatch %s has the wrong script", where, s.OutPointName(c.OutPoint))
		}
	}
}

func (s *Sim) describeCredits() string {
	out := ""
	for _, c := range s.L.Credits() {
		blk := "unconfirmed"
		if c.Blk != nil {
			blk = fmt.Sprintf("h=%d", c.Blk.Height)
		}
		out += fmt.Sprintf("\n   tx%d:%d amt=%d %s cb=%v spent=%v leased=%v", c.Tx, c.Out, c.Amount, blk, c.Coinbase, c.Spent,
			s.L.Leased(c.OutPoint, s.Clock.Now()))
	}
	return out
}

// CheckC02Explicit checks the explicit sub-claims of C02: which transactions
// are unconfirmed and which sit in which block.
func (s *Sim) CheckC02Explicit(ns walletdb.ReadBucket, where string) {
	hashes, err := s.Store.UnminedTxHashes(ns)
	if err != nil {
		s.Violation("[%s] UnminedTxHashes failed: %v", where, err)
	}
	got := map[int]bool{}
	for _, h := range hashes {
		i, ok := s.U.Index[*h]
		if !ok {
			s.Violation("[%s] unknown unconfirmed hash %v", where, h)
		}
		if got[i] {
			s.Violation("[%s] tx%d listed twice as unconfirmed", where, i)
		}
		got[i] = true
	}
	want := s.L.Unconfirmed()
	for _, i := range want {
		if !got[i] {
			s.Violation("[%s] tx%d should be unconfirmed (ledger) but the store does not list it; store has %v, ledger %v", where, i, keys(got), want)
		}
		delete(got, i)
	}
	if len(got) > 0 {
		s.Violation("[%s] the store lists %v as unconfirmed, the ledger says they are gone or confirmed (ledger unconfirmed: %v)", where, keys(got), want)
	}
	// per transaction status
	for i := range s.U.Specs {
		d, err := s.Store.TxDetails(ns, &s.U.Hash[i])
		if err != nil {
			s.Violation("[%s] TxDetails(tx%d) failed: %v", where, i, err)
		}
		k := s.L.Known[i]
		switch {
		case k == nil && d != nil:
			s.Violation("[%s] tx%d should be gone but the store still reports it (block height %d)", where, i, d.Block.Height)
		case k != nil && d == nil:
			s.Violation("[%s] tx%d is known to the ledger but the store does not report it", where, i)
		case k != nil && k.Blk == nil && d.Block.Height != -1:
			s.Violation("[%s] tx%d should be unconfirmed, store reports height %d", where, i, d.Block.Height)
		case k != nil && k.Blk != nil && (d.Block.Height != k.Blk.Height || d.Block.Hash != k.Blk.Hash):
			s.Violation("[%s] tx%d should be confirmed in %d/%v, store reports %d/%v", where, i, k.Blk.Height, k.Blk.Hash, d.Block.Height, d.Block.Hash)
		}
	}
}

func keys(m map[int]bool) []int {
	var out []int
	for k := range m {
		out = append(out, k)
	}
	sort.Ints(out)
	return out
}

// wantDetails computes the ledger's view of the details of a known transaction.
type wantDetails struct {
	credits map[uint32]LCredit
	debits  map[uint32]int64
}

func (s *Sim) ledgerDetails(i int) wantDetails {
	w := wantDetails{credits: map[uint32]LCredit{}, debits: map[uint32]int64{}}
	for _, c := range s.L.Credits() {
		if c.Tx == i {
			w.credits[c.Out] = c
		}
	}
	if !s.U.Specs[i].Coinbase {
		for k, in := range s.U.Specs[i].Ins {
			if in.Parent < 0 {
				continue
			}
			if s.L.Known[in.Parent] == nil {
				continue
			}
			if os := s.U.Specs[in.Parent].Outs[in.Out]; os.Credit {
				w.debits[uint32(k)] = os.Value
			}
		}
	}
	return w
}

func (s *Sim) compareDetails(where string, i int, d *wtxmgr.TxDetails) {
	k := s.L.Known[i]
	if d.Hash != s.U.Hash[i] {
		s.Violation("[%s] details of tx%d carry hash %v", where, i, d.Hash)
	}
	if k.Blk == nil {
		if d.Block.Height != -1 {
			s.Violation("[%s] tx%d is unconfirmed but reported at height %d", where, i, d.Block.Height)
		}
	} else if d.Block.Height != k.Blk.Height || d.Block.Hash != k.Blk.Hash || !d.Block.Time.Equal(k.Blk.Time) {
		s.Violation("[%s] tx%d reported in block %d/%v/%v, ledger %d/%v/%v", where, i, d.Block.Height, d.Block.Hash, d.Block.Time,
			k.Blk.Height, k.Blk.Hash, k.Blk.Time)
	}
	w := s.ledgerDetails(i)
	seen := map[uint32]bool{}
	for _, c := range d.Credits {
		if seen[c.Index] {
			s.Violation("[%s] tx%d credit %d listed twice", where, i, c.Index)
		}
		seen[c.Index] = true
		wc, ok := w.credits[c.Index]
		if !ok {
			s.Violation("[%s] tx%d output %d listed as credit but does not pay the wallet", where, i, c.Index)
		}
		if int64(c.Amount) != wc.Amount || c.Change != wc.Change {
			s.Violation("[%s] tx%d credit %d amount/change %d/%v, ledger %d/%v", where, i, c.Index, c.Amount, c.Change, wc.Amount, wc.Change)
		}
		if c.Spent != wc.Spent {
			s.Violation("[%s] tx%d credit %d spent flag %v, but a known transaction spends it: %v (spenders in universe: %v)", where, i, c.Index,
				c.Spent, wc.Spent, s.U.Spenders[wc.OutPoint])
		}
	}
	for o := range w.credits {
		if !seen[o] {
			s.Violation("[%s] tx%d credit %d missing from details", where, i, o)
		}
	}
	dseen := map[uint32]bool{}
	for _, db := range d.Debits {
		if dseen[db.Index] {
			s.Violation("[%s] tx%d debit %d listed twice", where, i, db.Index)
		}
		dseen[db.Index] = true
		wa, ok := w.debits[db.Index]
		if !ok {
			s.Violation("[%s] tx%d input %d listed as debit but does not spend a wallet credit", where, i, db.Index)
		}
		if int64(db.Amount) != wa {
			s.Violation("[%s] tx%d debit %d amount %d, ledger %d", where, i, db.Index, db.Amount, wa)
		}
	}
	for k := range w.debits {
		if !dseen[k] {
			s.Violation("[%s] tx%d input %d spends a wallet credit but no debit is listed (debits: %+v)", where, i, k, d.Debits)
		}
	}
}

// CheckC13 checks lookups and range iteration against the ledger.
func (s *Sim) CheckC13(ns walletdb.ReadBucket, where string, ranges [][2]int32) {
	for i := range s.U.Specs {
		d, err := s.Store.TxDetails(ns, &s.U.Hash[i])
		if err != nil {
			s.Violation("[%s] TxDetails(tx%d) failed: %v", where, i, err)
		}
		k := s.L.Known[i]
		if k == nil {
			if d != nil {
				s.Violation("[%s] tx%d was removed (or never seen) but TxDetails reports it at height %d", where, i, d.Block.Height)
			}
			// unique lookups must not find it either
			if u, _ := s.Store.UniqueTxDetails(ns, &s.U.Hash[i], nil); u != nil {
				s.Violation("[%s] tx%d was removed but UniqueTxDetails(unconfirmed) reports it", where, i)
			}
			continue
		}
		if d == nil {
			s.Violation("[%s] tx%d is known but TxDetails returns nothing", where, i)
		}
		s.compareDetails(where+"/TxDetails", i, d)
		// unique lookup under the right block / as unconfirmed
		var blk *wtxmgr.Block
		if k.Blk != nil {
			blk = &wtxmgr.Block{Hash: k.Blk.Hash, Height: k.Blk.Height}
		}
		u, err := s.Store.UniqueTxDetails(ns, &s.U.Hash[i], blk)
		if err != nil {
			s.Violation("[%s] UniqueTxDetails(tx%d) failed: %v", where, i, err)
		}
		if u == nil {
			s.Violation("[%s] UniqueTxDetails(tx%d) under its current status returns nothing", where, i)
		}
		s.compareDetails(where+"/UniqueTxDetails", i, u)
		// and under any other status it must not be found
		if k.Blk != nil {
			if u, _ := s.Store.UniqueTxDetails(ns, &s.U.Hash[i], nil); u != nil {
				s.Violation("[%s] tx%d is confirmed but also found as unconfirmed", where, i)
			}
			other := wtxmgr.Block{Hash: chainhash.Hash{1, 2, 3}, Height: k.Blk.Height}
			if u, _ := s.Store.UniqueTxDetails(ns, &s.U.Hash[i], &other); u != nil {
				s.Violation("[%s] tx%d found under a block hash it is not confirmed in", where, i)
			}
		} else {
			for _, b := range s.N.Blocks {
				ob := wtxmgr.Block{Hash: b.Hash, Height: b.Height}
				if u, _ := s.Store.UniqueTxDetails(ns, &s.U.Hash[i], &ob); u != nil {
					s.Violation("[%s] tx%d is unconfirmed but also found in block %d", where, i, b.Height)
				}
			}
		}
		// previous scripts of exactly the debited credits
		w := s.ledgerDetails(i)
		rec := &d.TxRecord
		scripts, err := s.Store.PreviousPkScripts(ns, rec, blk)
		if err != nil {
			s.Violation("[%s] PreviousPkScripts(tx%d) failed: %v", where, i, err)
		}
		var wantScripts [][]byte
		for kIn, in := range s.U.Specs[i].Ins {
			if _, ok := w.debits[uint32(kIn)]; ok {
				wantScripts = append(wantScripts, PkScript(in.Parent, int(in.Out)))
			}
		}
		if !sameScriptSet(scripts, wantScripts) {
			s.Violation("[%s] PreviousPkScripts(tx%d) returned %d scripts, the debited credits have %d (or different ones)", where, i, len(scripts), len(wantScripts))
		}
	}
	for _, r := range ranges {
		s.checkRange(ns, where, r[0], r[1])
	}
}

func sameScriptSet(a, b [][]byte) bool {
	if len(a) != len(b) {
		return false
	}
	as := make([]string, len(a))
	bs := make([]string, len(b))
	for i := range a {
		as[i] = string(a[i])
		bs[i] = string(b[i])
	}
	sort.Strings(as)
	sort.Strings(bs)
	for i := range as {
		if as[i] != bs[i] {
			return false
		}
	}
	return true
}

// checkRange checks one RangeTransactions query.
func (s *Sim) checkRange(ns walletdb.ReadBucket, where string, begin, end int32) {
	type group struct {
		height int32
		txs    []int
	}
	var got []group
	err := s.Store.RangeTransactions(ns, begin, end, func(ds []wtxmgr.TxDetails) (bool, error) {
		if len(ds) == 0 {
			return false, fmt.Errorf("callback invoked with an empty slice")
		}
		g := group{height: ds[0].Block.Height}
		for i := range ds {
			d := &ds[i]
			idx, ok := s.U.Index[d.Hash]
			if !ok {
				return false, fmt.Errorf("unknown transaction %v", d.Hash)
			}
			if d.Block.Height != g.height {
				return false, fmt.Errorf("one callback mixes heights %d and %d", g.height, d.Block.Height)
			}
			if s.L.Known[idx] == nil {
				return false, fmt.Errorf("range reports tx%d which was removed", idx)
			}
			s.compareDetails(fmt.Sprintf("%s/Range(%d,%d)", where, begin, end), idx, d)
			g.txs = append(g.txs, idx)
		}
		got = append(got, g)
		return false, nil
	})
	if err != nil {
		s.Violation("[%s] RangeTransactions(%d,%d): %v", where, begin, end, err)
	}
	// expectation from the ledger
	const maxH = int32(^uint32(0) >> 1)
	b, e := begin, end
	if b < 0 {
		b = maxH
	}
	if e < 0 {
		e = maxH
	}
	lo, hi := b, e
	if lo > hi {
		lo, hi = hi, lo
	}
	byHeight := map[int32][]int{}
	for i, k := range s.L.Known {
		if k.Blk != nil && k.Blk.Height >= lo && k.Blk.Height <= hi {
			byHeight[k.Blk.Height] = append(byHeight[k.Blk.Height], i)
		}
	}
	var heights []int32
	for h := range byHeight {
		heights = append(heights, h)
	}
	sort.Slice(heights, func(i, j int) bool { return heights[i] < heights[j] })
	if b > e || (b == e) {
		// reverse order (begin == end iterates backwards over one height)
		sort.Slice(heights, func(i, j int) bool { return heights[i] > heights[j] })
	}
	var want []group
	unconf := s.L.Unconfirmed()
	if begin < 0 && len(unconf) > 0 {
		want = append(want, group{height: -1, txs: unconf})
	}
	for _, h := range heights {
		want = append(want, group{height: h, txs: byHeight[h]})
	}
	if begin >= 0 && end < 0 && len(unconf) > 0 {
		want = append(want, group{height: -1, txs: unconf})
	}
	render := func(gs []group) string {
		out := ""
		for _, g := range gs {
			t := append([]int(nil), g.txs...)
			sort.Ints(t)
			out += fmt.Sprintf("[h=%d %v]", g.height, t)
		}
		return out
	}
	if render(got) != render(want) {
		s.Violation("[%s] RangeTransactions(%d,%d) visited %s, ledger expects %s", where, begin, end, render(got), render(want))
	}
}

// CheckC14 checks the order of UnminedTxs.
func (s *Sim) CheckC14(ns walletdb.ReadBucket, where string) (nUnmined int, nEdges int) {
	txs, err := s.Store.UnminedTxs(ns)
	if err != nil {
		s.Violation("[%s] UnminedTxs failed: %v", where, err)
	}
	want := s.L.Unconfirmed()
	pos := map[int]int{}
	for p, tx := range txs {
		i, ok := s.U.Index[tx.TxHash()]
		if !ok {
			s.Violation("[%s] UnminedTxs returned an unknown transaction", where)
		}
		if _, dup := pos[i]; dup {
			s.Violation("[%s] UnminedTxs lists tx%d twice", where, i)
		}
		pos[i] = p
	}
	if len(pos) != len(want) {
		s.Violation("[%s] UnminedTxs returned %v, the unconfirmed transactions are %v", where, posKeys(pos), want)
	}
	for _, i := range want {
		if _, ok := pos[i]; !ok {
			s.Violation("[%s] UnminedTxs misses tx%d (returned %v, unconfirmed %v)", where, i, posKeys(pos), want)
		}
		for _, in := range s.U.Specs[i].Ins {
			if in.Parent < 0 {
				continue
			}
			if pp, ok := pos[in.Parent]; ok {
				nEdges++
				if pp >= pos[i] {
					s.Violation("[%s] UnminedTxs places tx%d (position %d) before its unconfirmed parent tx%d (position %d)", where, i, pos[i], in.Parent, pp)
				}
			}
		}
	}
	return len(want), nEdges
}

func posKeys(m map[int]int) []int {
	var out []int
	for k := range m {
		out = append(out, k)
	}
	sort.Ints(out)
	return out
}

var _ = btcutil.Amount(0)

package txsim

import (
	"sort"
	"time"

	"github.com/btcsuite/btcd/wire"
)

// LTx is what the ledger knows about a transaction.
type LTx struct {
	Blk *Blk // nil = unconfirmed
}

// Lease is an output lease.
type Lease struct {
	ID     [32]byte
	Expiry time.Time
}

// Ledger is the reference model: a direct transcription of the property
// statements. Every observation is recomputed from scratch from the facts.
type Ledger struct {
	U        *Universe
	Maturity int32
	Known    map[int]*LTx
	Leases   map[wire.OutPoint]Lease
	// F4Compat, when set, reproduces the listed known finding F4 (descendants
	// of a disconnected coinbase are only followed through credited outputs)
	// instead of the statement, and reports when the two differ.
	F4Compat bool
	F4Hits   int
}

// NewLedger creates an empty ledger.
func NewLedger(u *Universe, maturity int32) *Ledger {
	return &Ledger{U: u, Maturity: maturity, Known: map[int]*LTx{}, Leases: map[wire.OutPoint]Lease{}}
}

// Unmined: an unconfirmed transaction was seen.
func (l *Ledger) Unmined(i int) {
	if l.Known[i] != nil {
		return
	}
	l.Known[i] = &LTx{}
}

func (l *Ledger) removeWithUnconfirmedDescendants(i int) {
	if l.Known[i] == nil {
		return
	}
	delete(l.Known, i)
	for _, c := range l.U.Children(i) {
		if k := l.Known[c]; k != nil && k.Blk == nil {
			l.removeWithUnconfirmedDescendants(c)
		}
	}
}

// Confirm: transaction i confirmed in block b.
func (l *Ledger) Confirm(i int, b *Blk) {
	if k := l.Known[i]; k != nil && k.Blk != nil && k.Blk.Height == b.Height && k.Blk.Hash == b.Hash {
		return
	}
	l.Known[i] = &LTx{Blk: b}
	for _, op := range l.U.Inputs(i) {
		for _, j := range l.U.Spenders[op] {
			if j == i {
				continue
			}
			if k := l.Known[j]; k != nil && k.Blk == nil {
				l.removeWithUnconfirmedDescendants(j)
			}
		}
		// a confirmed spend removes the lease
		delete(l.Leases, op)
	}
}

func (l *Ledger) removeAllDescendants(i int, onlyCredited bool) {
	for o, out := range l.U.Specs[i].Outs {
		if onlyCredited && !out.Credit {
			continue
		}
		for _, c := range l.U.Spenders[wire.OutPoint{Hash: l.U.Hash[i], Index: uint32(o)}] {
			if l.Known[c] != nil {
				delete(l.Known, c)
				// below the first hop the store follows every output
				l.removeAllDescendants(c, false)
			}
		}
	}
}

// Rollback: all blocks at heights >= h were disconnected.
func (l *Ledger) Rollback(h int32) {
	var coinbases []int
	for i, k := range l.Known {
		if k.Blk != nil && k.Blk.Height >= h {
			if l.U.Specs[i].Coinbase {
				coinbases = append(coinbases, i)
			} else {
				k.Blk = nil
			}
		}
	}
	sort.Ints(coinbases)
	for _, i := range coinbases {
		delete(l.Known, i)
	}
	if l.F4Compat {
		// would the statement remove more than the credited-output walk?
		probe := &Ledger{U: l.U, Known: map[int]*LTx{}}
		for i, k := range l.Known {
			probe.Known[i] = k
		}
		for _, i := range coinbases {
			probe.removeAllDescendants(i, false)
		}
		for _, i := range coinbases {
			l.removeAllDescendants(i, true)
		}
		if len(probe.Known) != len(l.Known) {
			l.F4Hits++
		}
		return
	}
	for _, i := range coinbases {
		l.removeAllDescendants(i, false)
	}
}

// Abandon: the unconfirmed transaction i and its unconfirmed descendants are
// forgotten.
func (l *Ledger) Abandon(i int) {
	if k := l.Known[i]; k == nil || k.Blk != nil {
		return
	}
	l.removeWithUnconfirmedDescendants(i)
}

// SpentByKnown reports whether a known transaction spends op, and whether a
// confirmed one does.
func (l *Ledger) SpentByKnown(op wire.OutPoint) (any bool, confirmed bool) {
	for _, j := range l.U.Spenders[op] {
		if k := l.Known[j]; k != nil {
			any = true
			if k.Blk != nil {
				confirmed = true
			}
		}
	}
	return
}

// Leased reports whether op is leased at time now.
func (l *Ledger) Leased(op wire.OutPoint, now time.Time) bool {
	ls, ok := l.Leases[op]
	return ok && now.Before(ls.Expiry)
}

// LCredit is a credited output of a known transaction.
type LCredit struct {
	Tx       int
	Out      uint32
	OutPoint wire.OutPoint
	Amount   int64
	Change   bool
	Blk      *Blk
	Coinbase bool
	Spent    bool // by any known transaction
	SpentC   bool // by a confirmed transaction
}

// Credits lists all credited outputs of known transactions.
func (l *Ledger) Credits() []LCredit {
	var out []LCredit
	idx := make([]int, 0, len(l.Known))
	for i := range l.Known {
		idx = append(idx, i)
	}
	sort.Ints(idx)
	for _, i := range idx {
		k := l.Known[i]
		for o, os := range l.U.Specs[i].Outs {
			if !os.Credit {
				continue
			}
			op := wire.OutPoint{Hash: l.U.Hash[i], Index: uint32(o)}
			a, c := l.SpentByKnown(op)
			out = append(out, LCredit{Tx: i, Out: uint32(o), OutPoint: op, Amount: os.Value, Change: os.Change,
				Blk: k.Blk, Coinbase: l.U.Specs[i].Coinbase, Spent: a, SpentC: c})
		}
	}
	return out
}

// Balance is the statement's balance for minconf at sync height.
func (l *Ledger) Balance(minconf, sync int32, now time.Time) int64 {
	var bal int64
	for _, c := range l.Credits() {
		if c.Spent || c.Amount <= 0 || l.Leased(c.OutPoint, now) {
			continue
		}
		if c.Blk == nil {
			if minconf == 0 {
				bal += c.Amount
			}
			continue
		}
		confs := sync - c.Blk.Height + 1
		if confs < minconf {
			continue
		}
		if c.Coinbase && confs < l.Maturity {
			continue
		}
		bal += c.Amount
	}
	return bal
}

// Spendable is the statement's spendable set.
func (l *Ledger) Spendable(now time.Time) map[wire.OutPoint]LCredit {
	out := map[wire.OutPoint]LCredit{}
	for _, c := range l.Credits() {
		if c.Spent || l.Leased(c.OutPoint, now) {
			continue
		}
		out[c.OutPoint] = c
	}
	return out
}

// Unconfirmed lists the unconfirmed known transactions.
func (l *Ledger) Unconfirmed() []int {
	var out []int
	for i, k := range l.Known {
		if k.Blk == nil {
			out = append(out, i)
		}
	}
	sort.Ints(out)
	return out
}

// KnownSorted lists known transactions in universe order.
func (l *Ledger) KnownSorted() []int {
	out := make([]int, 0, len(l.Known))
	for i := range l.Known {
		out = append(out, i)
	}
	sort.Ints(out)
	return out
}

package txsim

import (
	"errors"
	"time"

	"github.com/btcsuite/btcd/wire"
	"github.com/btcsuite/btcwallet/walletdb"
	"github.com/btcsuite/btcwallet/wtxmgr"
	"pgregory.net/rapid"
)

// lockID is the k-th lease identifier of the pool: two ordinary ones, the
// all-zero identifier and the all-0xff one (any 32 bytes are an identifier).
func lockID(k int) wtxmgr.LockID {
	var id wtxmgr.LockID
	switch k {
	case 2:
		// all zero
	case 3:
		for i := range id {
			id[i] = 0xff
		}
	default:
		id[0] = byte(k + 1)
		id[31] = 0x77
	}
	return id
}

// storeKnows: the outpoint is a credited output of a known transaction that no
// confirmed transaction spends (what "an output the wallet knows" means for
// leasing).
func (s *Sim) storeKnows(op wire.OutPoint) bool {
	for _, c := range s.L.Credits() {
		if c.OutPoint == op {
			return !c.SpentC
		}
	}
	return false
}

// clearlyUnknown: not a credited output of any known transaction.
func (s *Sim) clearlyUnknown(op wire.OutPoint) bool {
	for _, c := range s.L.Credits() {
		if c.OutPoint == op {
			return false
		}
	}
	return true
}

func (s *Sim) drawLeaseTarget(t *rapid.T, preferLeased bool) (wire.OutPoint, bool) {
	now := s.Clock.Now()
	var live, leased, unknown []wire.OutPoint
	for _, c := range s.L.Credits() {
		if !c.SpentC {
			live = append(live, c.OutPoint)
			if s.L.Leased(c.OutPoint, now) {
				leased = append(leased, c.OutPoint)
			}
		}
	}
	for i, sp := range s.U.Specs {
		for o, os := range sp.Outs {
			op := wire.OutPoint{Hash: s.U.Hash[i], Index: uint32(o)}
			if s.L.Known[i] == nil || !os.Credit {
				unknown = append(unknown, op)
			}
		}
	}
	unknown = append(unknown, extOutPoint(9999))
	k := rapid.IntRange(0, 9).Draw(t, "leaseTargetKind")
	switch {
	case preferLeased && len(leased) > 0 && k < 7:
		return leased[rapid.IntRange(0, len(leased)-1).Draw(t, "leased")], true
	case len(live) > 0 && k < 9:
		return live[rapid.IntRange(0, len(live)-1).Draw(t, "live")], true
	default:
		return unknown[rapid.IntRange(0, len(unknown)-1).Draw(t, "unknown")], false
	}
}

// ActLease leases an output.
func (s *Sim) ActLease(t *rapid.T) bool {
	op, known := s.drawLeaseTarget(t, rapid.IntRange(0, 2).Draw(t, "relock") == 0)
	idk := rapid.IntRange(0, 3).Draw(t, "lockid")
	id := lockID(idk)
	var dur time.Duration
	switch rapid.IntRange(0, 3).Draw(t, "durkind") {
	case 0:
		dur = time.Second
	case 1:
		dur = time.Duration(rapid.IntRange(1, 10).Draw(t, "dursec")) * time.Second
	case 2:
		dur = time.Duration(rapid.Int64Range(int64(time.Second), int64(10*time.Second)).Draw(t, "durns"))
	default:
		dur = time.Duration(rapid.IntRange(1, 3600).Draw(t, "dursec")) * time.Second
	}
	now := s.Clock.Now()
	var got time.Time
	var err error
	uerr := walletdb.Update(s.DB, func(tx walletdb.ReadWriteTx) error {
		got, err = s.Store.LockOutput(tx.ReadWriteBucket(nsKey), id, op, dur)
		return nil
	})
	if uerr != nil {
		s.Violation("lease: database update failed: %v", uerr)
	}
	s.Case.Logf("lease %s id=%d dur=%v at %v -> %v", s.OutPointName(op), idk, dur, now.UnixNano(), err)
	s.NLease++
	cur, active := s.L.Leases[op]
	active = active && now.Before(cur.Expiry)
	switch {
	case !known:
		if !errors.Is(err, wtxmgr.ErrUnknownOutput) {
			s.Violation("leasing %s, which the wallet does not know, returned %v instead of ErrUnknownOutput", s.OutPointName(op), err)
		}
		s.Case.Class("lease-unknown-output")
	case active && cur.ID != id:
		if !errors.Is(err, wtxmgr.ErrOutputAlreadyLocked) {
			s.Violation("leasing %s under a second identifier while leased returned %v instead of ErrOutputAlreadyLocked", s.OutPointName(op), err)
		}
		s.Case.Class("lease-second-id-refused")
	default:
		if err != nil {
			s.Violation("leasing %s (known, not leased to another id) failed: %v", s.OutPointName(op), err)
		}
		if !got.Equal(now.Add(dur)) {
			s.Violation("lease expiry returned %v, expected now+duration = %v", got, now.Add(dur))
		}
		if active {
			s.Case.Class("lease-extended-by-same-id")
		}
		// the store keeps the expiry in whole seconds (see DESIGN C12/L)
		s.L.Leases[op] = Lease{ID: id, Expiry: time.Unix(now.Add(dur).Unix(), 0)}
	}
	return true
}

// ActRelease releases a lease.
func (s *Sim) ActRelease(t *rapid.T) bool {
	op, known := s.drawLeaseTarget(t, true)
	now := s.Clock.Now()
	cur, active := s.L.Leases[op]
	active = active && now.Before(cur.Expiry)
	idk := rapid.IntRange(0, 3).Draw(t, "lockid")
	id := lockID(idk)
	if active && rapid.IntRange(0, 2).Draw(t, "sameid") > 0 {
		id = cur.ID
	}
	var err error
	uerr := walletdb.Update(s.DB, func(tx walletdb.ReadWriteTx) error {
		err = s.Store.UnlockOutput(tx.ReadWriteBucket(nsKey), id, op)
		return nil
	})
	if uerr != nil {
		s.Violation("release: database update failed: %v", uerr)
	}
	s.Case.Logf("release %s id=%x -> %v", s.OutPointName(op), id[0], err)
	switch {
	case !known:
		if !errors.Is(err, wtxmgr.ErrUnknownOutput) {
			s.Violation("releasing %s, which the wallet does not know, returned %v instead of ErrUnknownOutput", s.OutPointName(op), err)
		}
	case !active:
		if err != nil {
			s.Violation("releasing %s, which is not leased, failed: %v", s.OutPointName(op), err)
		}
	case cur.ID != id:
		if !errors.Is(err, wtxmgr.ErrOutputUnlockNotAllowed) {
			s.Violation("releasing %s under a different identifier returned %v instead of ErrOutputUnlockNotAllowed", s.OutPointName(op), err)
		}
		s.Case.Class("release-second-id-refused")
	default:
		if err != nil {
			s.Violation("releasing %s under its own identifier failed: %v", s.OutPointName(op), err)
		}
		delete(s.L.Leases, op)
		s.Case.Class("released")
	}
	return true
}

// ActClock moves the store's clock forward, to an instant drawn relative to a
// stored expiry.
func (s *Sim) ActClock(t *rapid.T) bool {
	now := s.Clock.Now()
	var exps []time.Time
	for _, l := range s.L.Leases {
		exps = append(exps, l.Expiry)
	}
	// deterministic order
	for i := 0; i < len(exps); i++ {
		for j := i + 1; j < len(exps); j++ {
			if exps[j].Before(exps[i]) {
				exps[i], exps[j] = exps[j], exps[i]
			}
		}
	}
	var target time.Time
	if len(exps) > 0 && rapid.IntRange(0, 4).Draw(t, "relExpiry") > 0 {
		e := exps[rapid.IntRange(0, len(exps)-1).Draw(t, "whichExpiry")]
		offs := []time.Duration{-time.Second, -time.Nanosecond, 0, time.Nanosecond, time.Second,
			time.Duration(rapid.Int64Range(-int64(3*time.Second), int64(3*time.Second)).Draw(t, "offns"))}
		target = e.Add(offs[rapid.IntRange(0, len(offs)-1).Draw(t, "off")])
	} else {
		target = now.Add(time.Duration(rapid.Int64Range(1, int64(2*time.Hour)).Draw(t, "adv")))
	}
	if !target.After(now) {
		// clocks do not run backwards
		target = now.Add(time.Duration(rapid.Int64Range(1, int64(time.Second)).Draw(t, "tick")))
	}
	crossed := false
	for _, l := range s.L.Leases {
		if now.Before(l.Expiry) && !target.Before(l.Expiry) {
			crossed = true
		}
		if target.Equal(l.Expiry) {
			s.Case.Class("clock-exactly-at-expiry")
		}
		if target.Equal(l.Expiry.Add(-time.Nanosecond)) {
			s.Case.Class("clock-one-ns-before-expiry")
		}
	}
	if crossed {
		s.Case.Class("clock-crossed-expiry")
		s.NLeaseInteresting++
	}
	s.Clock.SetTime(target)
	s.Case.Logf("clock -> %d.%09d", target.Unix(), target.Nanosecond())
	return true
}

// ActSweep deletes expired leases.
func (s *Sim) ActSweep(t *rapid.T) bool {
	s.Case.Logf("sweep expired leases")
	s.update("sweep", func(ns walletdb.ReadWriteBucket) error { return s.Store.DeleteExpiredLockedOutputs(ns) })
	return true
}

// CheckC12 compares the lease list with the ledger. The exclusion from
// balance and spendable set is part of CheckC01, which runs alongside.
func (s *Sim) CheckC12(ns walletdb.ReadBucket, where string) {
	now := s.Clock.Now()
	list, err := s.Store.ListLockedOutputs(ns)
	if err != nil {
		s.Violation("[%s] ListLockedOutputs failed: %v", where, err)
	}
	seen := map[wire.OutPoint]bool{}
	for _, lo := range list {
		if seen[lo.Outpoint] {
			s.Violation("[%s] %s listed twice as leased", where, s.OutPointName(lo.Outpoint))
		}
		seen[lo.Outpoint] = true
		l, ok := s.L.Leases[lo.Outpoint]
		if !ok || !now.Before(l.Expiry) {
			s.Violation("[%s] %s is listed as leased (id %x, expiry %v) but the ledger has no active lease (now %v)", where,
				s.OutPointName(lo.Outpoint), lo.LockID[0], lo.Expiration, now)
		}
		if l.ID != lo.LockID {
			s.Violation("[%s] %s listed under identifier %x, leased to %x", where, s.OutPointName(lo.Outpoint), lo.LockID[0], l.ID[0])
		}
		if !lo.Expiration.Equal(l.Expiry) {
			s.Violation("[%s] %s lease expiry %v, expected %v", where, s.OutPointName(lo.Outpoint), lo.Expiration, l.Expiry)
		}
	}
	for op, l := range s.L.Leases {
		if now.Before(l.Expiry) && s.storeKnows(op) && !seen[op] {
			s.Violation("[%s] %s is leased until %v (now %v) but not listed by ListLockedOutputs", where, s.OutPointName(op), l.Expiry, now)
		}
	}
	// classes for the non-triviality rule
	for op, l := range s.L.Leases {
		if !now.Before(l.Expiry) {
			continue
		}
		a, c := s.L.SpentByKnown(op)
		if a && !c {
			s.Case.Class("lease-coexists-with-unconfirmed-spend")
		}
	}
}

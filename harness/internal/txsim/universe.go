// Package txsim is the shared machinery behind the transaction-store
// properties (C01, C02, C12, C13, C14 and the store half of C10): a generator
// of transaction universes, a tiny model of a validating node that only emits
// chain-consistent events, a reference ledger that transcribes the property
// statements, and a driver that applies the events to a real wtxmgr.Store the
// way wallet.addRelevantTx does.
package txsim

import (
	"encoding/binary"
	"fmt"
	"time"

	"github.com/btcsuite/btcd/chaincfg/chainhash"
	"github.com/btcsuite/btcd/wire"
	"github.com/btcsuite/btcwallet/wtxmgr"
	"pgregory.net/rapid"
)

// OutSpec describes one output of a universe transaction.
type OutSpec struct {
	Value  int64
	Credit bool // pays the wallet
	Change bool
}

// InSpec describes one input: an output of an earlier universe transaction
// (Parent >= 0) or an outpoint outside the universe (Parent < 0, Ext id).
type InSpec struct {
	Parent int
	Out    uint32
	Ext    uint32
}

// TxSpec describes one universe transaction.
type TxSpec struct {
	Coinbase bool
	Ins      []InSpec
	Outs     []OutSpec
}

// Universe is the set of all wallet-relevant transactions of a case.
type Universe struct {
	Specs []TxSpec
	Txs   []*wire.MsgTx
	Hash  []chainhash.Hash
	Index map[chainhash.Hash]int
	// Spenders maps an outpoint to the universe transactions spending it.
	Spenders map[wire.OutPoint][]int
}

// UniverseOpts bounds the generator.
type UniverseOpts struct {
	MinTx, MaxTx int
}

func extOutPoint(id uint32) wire.OutPoint {
	var h chainhash.Hash
	binary.LittleEndian.PutUint32(h[:], id+1)
	h[31] = 0xe7
	return wire.OutPoint{Hash: h, Index: id % 3}
}

// OutPointOf returns the outpoint an input spec refers to.
func (u *Universe) OutPointOf(in InSpec) wire.OutPoint {
	if in.Parent >= 0 {
		return wire.OutPoint{Hash: u.Hash[in.Parent], Index: in.Out}
	}
	return extOutPoint(in.Ext)
}

// PkScript is the (unique) script of output o of transaction i.
func PkScript(i int, o int) []byte {
	// OP_0 <20 bytes>: a well-formed P2WPKH script, unique per output
	s := make([]byte, 22)
	s[0] = 0x00
	s[1] = 0x14
	binary.LittleEndian.PutUint32(s[2:], uint32(i))
	binary.LittleEndian.PutUint32(s[6:], uint32(o))
	copy(s[10:], "verif-txsim!")
	return s
}

// DrawUniverse draws a universe. Shapes named by the properties are forced
// with fixed probability: chains, fan-in/out, diamonds, two edges between the
// same pair, several credits per transaction, conflicting siblings (with
// descendants), coinbases with credited and non-credited outputs.
func DrawUniverse(t *rapid.T, o UniverseOpts) *Universe {
	n := rapid.IntRange(o.MinTx, o.MaxTx).Draw(t, "ntx")
	u := &Universe{Index: map[chainhash.Hash]int{}, Spenders: map[wire.OutPoint][]int{}}
	type usedOp struct {
		in InSpec
	}
	var used []InSpec
	nextExt := uint32(0)
	for i := 0; i < n; i++ {
		var s TxSpec
		s.Coinbase = rapid.IntRange(0, 6).Draw(t, "coinbase") == 0
		nout := rapid.IntRange(1, 4).Draw(t, "nout")
		for k := 0; k < nout; k++ {
			v := rapid.Int64Range(1, 10_000_000).Draw(t, "value")
			cr := rapid.IntRange(0, 9).Draw(t, "credit") < 6
			ch := cr && rapid.Bool().Draw(t, "change")
			s.Outs = append(s.Outs, OutSpec{Value: v, Credit: cr, Change: ch})
		}
		if !s.Coinbase {
			nin := rapid.IntRange(1, 3).Draw(t, "nin")
			seen := map[wire.OutPoint]bool{}
			for k := 0; k < nin; k++ {
				var in InSpec
				kind := rapid.IntRange(0, 9).Draw(t, "inkind")
				switch {
				case kind <= 1 && len(used) > 0:
					// deliberately conflict with an earlier spend
					in = used[rapid.IntRange(0, len(used)-1).Draw(t, "conflictwith")]
				case kind <= 7 && i > 0:
					var p int
					if k > 0 && s.Ins[0].Parent >= 0 && rapid.IntRange(0, 3).Draw(t, "sameparent") == 0 {
						p = s.Ins[0].Parent // two edges between the same pair
					} else if rapid.IntRange(0, 2).Draw(t, "recent") == 0 {
						p = i - 1 // chains
					} else {
						p = rapid.IntRange(0, i-1).Draw(t, "parent")
					}
					in = InSpec{Parent: p, Out: uint32(rapid.IntRange(0, len(u.Specs[p].Outs)-1).Draw(t, "pout"))}
				default:
					in = InSpec{Parent: -1, Ext: nextExt}
					nextExt++
				}
				op := u.OutPointOf(in)
				if seen[op] {
					continue
				}
				seen[op] = true
				s.Ins = append(s.Ins, in)
			}
			if len(s.Ins) == 0 {
				s.Ins = append(s.Ins, InSpec{Parent: -1, Ext: nextExt})
				nextExt++
			}
			used = append(used, s.Ins...)
		}
		// relevance: a node only reports transactions that pay the wallet or
		// spend one of its outputs
		relevant := false
		for _, out := range s.Outs {
			relevant = relevant || out.Credit
		}
		for _, in := range s.Ins {
			if in.Parent >= 0 && u.Specs[in.Parent].Outs[in.Out].Credit {
				relevant = true
			}
		}
		if !relevant {
			s.Outs[0].Credit = true
		}
		u.add(s)
	}
	return u
}

func (u *Universe) add(s TxSpec) {
	i := len(u.Specs)
	tx := wire.NewMsgTx(2)
	if s.Coinbase {
		sig := []byte{0x03, byte(i), byte(i >> 8), 0x51, 'v', 'e', 'r', 'i', 'f'}
		tx.AddTxIn(wire.NewTxIn(wire.NewOutPoint(&chainhash.Hash{}, wire.MaxPrevOutIndex), sig, nil))
	} else {
		for _, in := range s.Ins {
			op := u.OutPointOf(in)
			tx.AddTxIn(wire.NewTxIn(&op, nil, nil))
		}
	}
	for o, out := range s.Outs {
		tx.AddTxOut(wire.NewTxOut(out.Value, PkScript(i, o)))
	}
	u.Specs = append(u.Specs, s)
	u.Txs = append(u.Txs, tx)
	h := tx.TxHash()
	u.Hash = append(u.Hash, h)
	u.Index[h] = i
	if !s.Coinbase {
		for _, in := range s.Ins {
			op := u.OutPointOf(in)
			u.Spenders[op] = append(u.Spenders[op], i)
		}
	}
}

// Inputs returns the outpoints transaction i spends (none for a coinbase).
func (u *Universe) Inputs(i int) []wire.OutPoint {
	if u.Specs[i].Coinbase {
		return nil
	}
	ops := make([]wire.OutPoint, 0, len(u.Specs[i].Ins))
	for _, in := range u.Specs[i].Ins {
		ops = append(ops, u.OutPointOf(in))
	}
	return ops
}

// Children returns the universe transactions that spend any output of i.
func (u *Universe) Children(i int) []int {
	var out []int
	seen := map[int]bool{}
	for o := range u.Specs[i].Outs {
		for _, c := range u.Spenders[wire.OutPoint{Hash: u.Hash[i], Index: uint32(o)}] {
			if !seen[c] {
				seen[c] = true
				out = append(out, c)
			}
		}
	}
	return out
}

// Rec builds the record handed to the store for transaction i.
func (u *Universe) Rec(i int, received time.Time) *wtxmgr.TxRecord {
	rec, err := wtxmgr.NewTxRecordFromMsgTx(u.Txs[i], received)
	if err != nil {
		panic(err)
	}
	return rec
}

// Describe renders the universe.
func (u *Universe) Describe() string {
	s := ""
	for i, sp := range u.Specs {
		s += fmt.Sprintf("  tx%d %s cb=%v ins=[", i, u.Hash[i].String()[:8], sp.Coinbase)
		for k, in := range sp.Ins {
			if k > 0 {
				s += " "
			}
			if in.Parent >= 0 {
				s += fmt.Sprintf("tx%d:%d", in.Parent, in.Out)
			} else {
				s += fmt.Sprintf("ext%d", in.Ext)
			}
		}
		s += "] outs=["
		for k, o := range sp.Outs {
			if k > 0 {
				s += " "
			}
			f := ""
			if o.Credit {
				f = "*"
				if o.Change {
					f = "*c"
				}
			}
			s += fmt.Sprintf("%d%s", o.Value, f)
		}
		s += "]\n"
	}
	return s
}

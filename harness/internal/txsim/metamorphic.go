package txsim

import (
	"fmt"
	"os"
	"path/filepath"
	"reflect"
	"sort"
	"time"

	"github.com/btcsuite/btcd/wire"
	"github.com/btcsuite/btcwallet/walletdb"
	"github.com/btcsuite/btcwallet/wtxmgr"
)

// Facts are the surviving facts of a store, read from the store itself.
type Facts struct {
	Blocks  []FactBlock // ascending
	Unmined []FactTx    // in universe (= a topological) order
}

// FactBlock is one block and its transactions in reported order.
type FactBlock struct {
	Meta wtxmgr.BlockMeta
	Txs  []FactTx
}

// FactTx is one transaction with its credits.
type FactTx struct {
	Idx     int
	Rec     wtxmgr.TxRecord
	Credits []wtxmgr.CreditRecord
}

// ReadFacts reads the surviving facts.
func (s *Sim) ReadFacts(ns walletdb.ReadBucket) Facts {
	var f Facts
	err := s.Store.RangeTransactions(ns, 0, -1, func(ds []wtxmgr.TxDetails) (bool, error) {
		if ds[0].Block.Height == -1 {
			for i := range ds {
				f.Unmined = append(f.Unmined, FactTx{Idx: s.U.Index[ds[i].Hash], Rec: ds[i].TxRecord, Credits: append([]wtxmgr.CreditRecord(nil), ds[i].Credits...)})
			}
			return false, nil
		}
		fb := FactBlock{Meta: ds[0].Block}
		for i := range ds {
			fb.Txs = append(fb.Txs, FactTx{Idx: s.U.Index[ds[i].Hash], Rec: ds[i].TxRecord, Credits: append([]wtxmgr.CreditRecord(nil), ds[i].Credits...)})
		}
		f.Blocks = append(f.Blocks, fb)
		return false, nil
	})
	if err != nil {
		s.Violation("reading the surviving facts failed: %v", err)
	}
	sort.Slice(f.Unmined, func(i, j int) bool { return f.Unmined[i].Idx < f.Unmined[j].Idx })
	return f
}

// Snapshot is everything C02 compares between two stores.
type Snapshot struct {
	Balances map[string]int64
	Unspent  map[string]string
	Unmined  []string
	Details  map[string]string
}

// TakeSnapshot reads balances, spendable outputs, unconfirmed hashes and the
// details of every universe transaction.
func (s *Sim) TakeSnapshot(store *wtxmgr.Store, ns walletdb.ReadBucket) Snapshot {
	sn := Snapshot{Balances: map[string]int64{}, Unspent: map[string]string{}, Details: map[string]string{}}
	minconfs, syncs := s.BalanceGrid(7, 11)
	for _, mc := range minconfs {
		for _, sh := range syncs {
			if mc < 0 {
				continue
			}
			b, err := store.Balance(ns, mc, sh)
			if err != nil {
				s.Violation("Balance(%d,%d) failed: %v", mc, sh, err)
			}
			sn.Balances[fmt.Sprintf("minconf=%d sync=%d", mc, sh)] = int64(b)
		}
	}
	us, err := store.UnspentOutputs(ns)
	if err != nil {
		s.Violation("UnspentOutputs failed: %v", err)
	}
	for _, c := range us {
		sn.Unspent[s.OutPointName(c.OutPoint)] = fmt.Sprintf("amt=%d h=%d blk=%v time=%d cb=%v script=%x recv=%d", c.Amount, c.Height,
			c.BlockMeta.Block.Hash, c.Time.Unix(), c.FromCoinBase, c.PkScript, c.Received.Unix())
	}
	hs, err := store.UnminedTxHashes(ns)
	if err != nil {
		s.Violation("UnminedTxHashes failed: %v", err)
	}
	for _, h := range hs {
		sn.Unmined = append(sn.Unmined, s.OutPointName(wire.OutPoint{Hash: *h}))
	}
	sort.Strings(sn.Unmined)
	for i := range s.U.Specs {
		d, err := store.TxDetails(ns, &s.U.Hash[i])
		if err != nil {
			s.Violation("TxDetails(tx%d) failed: %v", i, err)
		}
		if d == nil {
			sn.Details[fmt.Sprintf("tx%d", i)] = "unknown"
			continue
		}
		cr := append([]wtxmgr.CreditRecord(nil), d.Credits...)
		sort.Slice(cr, func(a, b int) bool { return cr[a].Index < cr[b].Index })
		db := append([]wtxmgr.DebitRecord(nil), d.Debits...)
		sort.Slice(db, func(a, b int) bool { return db[a].Index < db[b].Index })
		sn.Details[fmt.Sprintf("tx%d", i)] = fmt.Sprintf("h=%d blk=%v time=%d recv=%d credits=%+v debits=%+v", d.Block.Height, d.Block.Hash,
			d.Block.Time.Unix(), d.Received.Unix(), cr, db)
	}
	return sn
}

// Diff describes the first differences between two snapshots.
func (a Snapshot) Diff(b Snapshot) string {
	out := ""
	for k, v := range a.Balances {
		if b.Balances[k] != v {
			out += fmt.Sprintf("  balance %s: history %d, direct %d\n", k, v, b.Balances[k])
		}
	}
	if !reflect.DeepEqual(a.Unspent, b.Unspent) {
		out += fmt.Sprintf("  spendable: history %v\n             direct  %v\n", a.Unspent, b.Unspent)
	}
	if !reflect.DeepEqual(a.Unmined, b.Unmined) {
		out += fmt.Sprintf("  unconfirmed: history %v, direct %v\n", a.Unmined, b.Unmined)
	}
	for k, v := range a.Details {
		if b.Details[k] != v {
			out += fmt.Sprintf("  details %s:\n     history %s\n     direct  %s\n", k, v, b.Details[k])
		}
	}
	return out
}

// DirectConstruction replays facts into a fresh store (blocks ascending, the
// reported order inside a block, then unconfirmed transactions parents first)
// and returns the snapshot of that store.
func (s *Sim) DirectConstruction(f Facts) (Snapshot, int) {
	dir, err := os.MkdirTemp(ScratchDir(), "verif-txsim-direct-")
	if err != nil {
		s.Inconclusive("mkdtemp: %v", err)
	}
	defer os.RemoveAll(dir)
	db, err := walletdb.Create("bdb", filepath.Join(dir, "d.db"), true, 10*time.Second, false)
	if err != nil {
		s.Inconclusive("create db: %v", err)
	}
	defer db.Close()
	var store *wtxmgr.Store
	err = walletdb.Update(db, func(tx walletdb.ReadWriteTx) error {
		ns, err := tx.CreateTopLevelBucket(nsKey)
		if err != nil {
			return err
		}
		if err := wtxmgr.Create(ns); err != nil {
			return err
		}
		store, err = wtxmgr.Open(ns, s.Params)
		return err
	})
	if err != nil {
		s.Inconclusive("create direct store: %v", err)
	}
	store.VerifSetClock(s.Clock)
	events := 0
	insert := func(ns walletdb.ReadWriteBucket, ft FactTx, bm *wtxmgr.BlockMeta) error {
		rec := ft.Rec
		if err := store.InsertTx(ns, &rec, bm); err != nil {
			return fmt.Errorf("direct InsertTx(tx%d): %w", ft.Idx, err)
		}
		for _, c := range ft.Credits {
			if err := store.AddCredit(ns, &rec, bm, c.Index, c.Change); err != nil {
				return fmt.Errorf("direct AddCredit(tx%d:%d): %w", ft.Idx, c.Index, err)
			}
		}
		events++
		return nil
	}
	err = walletdb.Update(db, func(tx walletdb.ReadWriteTx) error {
		ns := tx.ReadWriteBucket(nsKey)
		for _, b := range f.Blocks {
			bm := b.Meta
			for _, ft := range b.Txs {
				if err := insert(ns, ft, &bm); err != nil {
					return err
				}
			}
		}
		for _, ft := range f.Unmined {
			if err := insert(ns, ft, nil); err != nil {
				return err
			}
		}
		return nil
	})
	if err != nil {
		s.Violation("the direct construction of the final state failed: %v", err)
	}
	var sn Snapshot
	err = walletdb.View(db, func(tx walletdb.ReadTx) error {
		sn = s.TakeSnapshot(store, tx.ReadBucket(nsKey))
		return nil
	})
	if err != nil {
		s.Inconclusive("view: %v", err)
	}
	return sn, events
}

package txsim

// Store half of C10: fault enumeration of database writes. A mutating store
// operation with fixed arguments is applied to copies of the simulation's
// database file, wrapped in proxydb, with the k-th mutating call failing, for
// every k. Nothing in here touches the simulation's own database, node or
// ledger: the main history continues unchanged afterwards.

import (
	"bytes"
	"fmt"
	"os"
	"path/filepath"
	"reflect"
	"sort"
	"time"

	"github.com/btcsuite/btcd/chaincfg/chainhash"
	"github.com/btcsuite/btcd/wire"
	"github.com/btcsuite/btcwallet/walletdb"
	"github.com/btcsuite/btcwallet/wtxmgr"
	"pgregory.net/rapid"

	"verifharness/internal/proxydb"
)

// StoreFaultOp is one mutating store operation with all arguments fixed, so
// that it can be run on any number of copies of the same state.
type StoreFaultOp struct {
	Kind  string // operation kind
	Class string // shape of the operation / state class
	Desc  string
	// Prep, when set, is committed to every copy before the pre-operation
	// snapshot (it constructs the state the operation starts from).
	Prep func(st *wtxmgr.Store, ns walletdb.ReadWriteBucket) error
	// Run performs the operation and returns its result rendering and error.
	Run func(st *wtxmgr.Store, ns walletdb.ReadWriteBucket) (string, error)
	// ClockAt, when non-zero, is the instant at which the whole enumeration
	// takes place (the state is database + clock); the simulation's clock is
	// put back afterwards.
	ClockAt time.Time
}

// StoreCopy is an open copy of the database file: proxy, store with the
// simulation's clock.
type StoreCopy struct {
	Path  string
	Raw   walletdb.DB
	DB    *proxydb.DB
	Store *wtxmgr.Store
}

// Image returns a consistent image of the simulation's database file.
func (s *Sim) Image() []byte {
	var buf bytes.Buffer
	if err := s.DB.Copy(&buf); err != nil {
		s.Inconclusive("copying the database: %v", err)
	}
	return buf.Bytes()
}

// OpenStoreImage writes image to path and opens it.
func (s *Sim) OpenStoreImage(image []byte, path string) *StoreCopy {
	if err := os.WriteFile(path, image, 0o600); err != nil {
		s.Inconclusive("writing a database copy: %v", err)
	}
	return s.OpenStoreFile(path)
}

// OpenStoreFile opens an existing database file wrapped in proxydb and opens
// the store in it (with the simulation's test clock).
func (s *Sim) OpenStoreFile(path string) *StoreCopy {
	raw, err := walletdb.Open("bdb", path, true, 10*time.Second, false)
	if err != nil {
		s.Inconclusive("opening a database copy: %v", err)
	}
	c := &StoreCopy{Path: path, Raw: raw, DB: proxydb.New(raw)}
	err = walletdb.View(c.DB, func(tx walletdb.ReadTx) error {
		st, err := wtxmgr.Open(tx.ReadBucket(nsKey), s.Params)
		c.Store = st
		return err
	})
	if err != nil {
		raw.Close()
		s.Violation("opening the store on a copy of the database failed: %v", err)
	}
	c.Store.VerifSetClock(s.Clock)
	return c
}

// Close closes the copy's database handle.
func (c *StoreCopy) Close() {
	if c.Raw != nil {
		c.Raw.Close()
		c.Raw = nil
	}
}

// update runs f in one read-write transaction of the copy, with the k-th
// mutating call failing (k = 0: none). The closure returns the operation's
// error, so the transaction rolls back when the operation fails.
func (c *StoreCopy) update(k int, f func(st *wtxmgr.Store, ns walletdb.ReadWriteBucket) (string, error)) (res string, err error, injected bool) {
	c.DB.FailAt = k
	before := c.DB.Injected
	err = walletdb.Update(c.DB, func(tx walletdb.ReadWriteTx) error {
		var e error
		res, e = f(c.Store, tx.ReadWriteBucket(nsKey))
		return e
	})
	c.DB.FailAt = 0
	return res, err, c.DB.Injected > before
}

// FaultSnap is the C01/C13 query set plus leases and labels, read from a copy.
type FaultSnap struct {
	Snapshot
	Leases map[string]string
	Labels map[string]string
	Watch  map[string]string
	Ranges []string
}

// TakeFaultSnap reads the query set from a copy.
func (s *Sim) TakeFaultSnap(c *StoreCopy) FaultSnap {
	var fs FaultSnap
	err := walletdb.View(c.DB, func(tx walletdb.ReadTx) error {
		ns := tx.ReadBucket(nsKey)
		fs.Snapshot = s.TakeSnapshot(c.Store, ns)
		fs.Leases = map[string]string{}
		ls, err := c.Store.ListLockedOutputs(ns)
		if err != nil {
			s.Violation("ListLockedOutputs failed: %v", err)
		}
		for _, l := range ls {
			fs.Leases[s.OutPointName(l.Outpoint)] = fmt.Sprintf("id=%x exp=%d", l.LockID[:2], l.Expiration.UnixNano())
		}
		fs.Labels = map[string]string{}
		for i := range s.U.Specs {
			l, err := wtxmgr.FetchTxLabel(ns, s.U.Hash[i])
			if err != nil {
				fs.Labels[fmt.Sprintf("tx%d", i)] = "ERR " + err.Error()
			} else {
				fs.Labels[fmt.Sprintf("tx%d", i)] = l
			}
		}
		fs.Watch = map[string]string{}
		ws, err := c.Store.OutputsToWatch(ns)
		if err != nil {
			s.Violation("OutputsToWatch failed: %v", err)
		}
		for _, w := range ws {
			fs.Watch[s.OutPointName(w.OutPoint)] = fmt.Sprintf("%x", w.PkScript)
		}
		err = c.Store.RangeTransactions(ns, 0, -1, func(ds []wtxmgr.TxDetails) (bool, error) {
			var names []string
			for i := range ds {
				names = append(names, s.OutPointName(wire.OutPoint{Hash: ds[i].Hash}))
			}
			if ds[0].Block.Height == -1 {
				sort.Strings(names) // unconfirmed transactions are reported in no particular order
			}
			fs.Ranges = append(fs.Ranges, fmt.Sprintf("h=%d %v %v", ds[0].Block.Height, ds[0].Block.Hash, names))
			return false, nil
		})
		if err != nil {
			s.Violation("RangeTransactions failed: %v", err)
		}
		return nil
	})
	if err != nil {
		s.Violation("read transaction on a database copy failed: %v", err)
	}
	return fs
}

// dumpBucket renders every key and value below b.
func dumpBucket(b walletdb.ReadBucket, path string, out map[string]string) {
	b.ForEach(func(k, v []byte) error {
		if v == nil {
			if nb := b.NestedReadBucket(k); nb != nil {
				out[fmt.Sprintf("%s/%x/", path, k)] = "bucket"
				dumpBucket(nb, fmt.Sprintf("%s/%x", path, k), out)
				return nil
			}
		}
		out[fmt.Sprintf("%s/%x", path, k)] = fmt.Sprintf("%x", v)
		return nil
	})
}

// RawDump is the content of the store's namespace. The store's writes are a
// function of state, arguments and clock, so two runs of the same operation on
// the same state write the same bytes.
func (c *StoreCopy) RawDump() map[string]string {
	out := map[string]string{}
	walletdb.View(c.DB, func(tx walletdb.ReadTx) error {
		dumpBucket(tx.ReadBucket(nsKey), "", out)
		return nil
	})
	return out
}

func diffDump(a, b map[string]string, an, bn string) string {
	out := ""
	var keys []string
	for k := range a {
		keys = append(keys, k)
	}
	for k := range b {
		if _, ok := a[k]; !ok {
			keys = append(keys, k)
		}
	}
	sort.Strings(keys)
	for _, k := range keys {
		if a[k] != b[k] {
			av, aok := a[k]
			bv, bok := b[k]
			if !aok {
				av = "(absent)"
			}
			if !bok {
				bv = "(absent)"
			}
			out += fmt.Sprintf("  database key %s: %s %s, %s %s\n", k, an, av, bn, bv)
		}
	}
	return out
}

// DiffFault describes the differences between two fault snapshots (a = expected).
func (a FaultSnap) DiffFault(b FaultSnap, an, bn string) string {
	out := ""
	for k, v := range a.Balances {
		if b.Balances[k] != v {
			out += fmt.Sprintf("  balance %s: %s %d, %s %d\n", k, an, v, bn, b.Balances[k])
		}
	}
	if !reflect.DeepEqual(a.Unspent, b.Unspent) {
		out += fmt.Sprintf("  spendable: %s %v\n             %s %v\n", an, a.Unspent, bn, b.Unspent)
	}
	if !reflect.DeepEqual(a.Unmined, b.Unmined) {
		out += fmt.Sprintf("  unconfirmed: %s %v, %s %v\n", an, a.Unmined, bn, b.Unmined)
	}
	var keys []string
	for k := range a.Details {
		keys = append(keys, k)
	}
	sort.Strings(keys)
	for _, k := range keys {
		if b.Details[k] != a.Details[k] {
			out += fmt.Sprintf("  details %s:\n     %s %s\n     %s %s\n", k, an, a.Details[k], bn, b.Details[k])
		}
	}
	if !reflect.DeepEqual(a.Leases, b.Leases) {
		out += fmt.Sprintf("  leases: %s %v, %s %v\n", an, a.Leases, bn, b.Leases)
	}
	if !reflect.DeepEqual(a.Labels, b.Labels) {
		out += fmt.Sprintf("  labels: %s %v, %s %v\n", an, a.Labels, bn, b.Labels)
	}
	if !reflect.DeepEqual(a.Watch, b.Watch) {
		out += fmt.Sprintf("  outputs to watch: %s %v, %s %v\n", an, a.Watch, bn, b.Watch)
	}
	if !reflect.DeepEqual(a.Ranges, b.Ranges) {
		out += fmt.Sprintf("  transaction ranges: %s %v\n                      %s %v\n", an, a.Ranges, bn, b.Ranges)
	}
	return out
}

// ---- drawing an enabled operation -------------------------------------------

func c10BlockHash(height int32, salt int64) chainhash.Hash {
	var h chainhash.Hash
	h[0], h[1], h[2], h[3] = byte(height), byte(height>>8), byte(height>>16), byte(height>>24)
	h[4], h[5] = byte(salt), byte(salt>>8)
	h[30], h[31] = 0xc1, 0x0f
	return h
}

func (s *Sim) c10Rec(i int) *wtxmgr.TxRecord {
	return s.U.Rec(i, time.Unix(1_600_500_000+int64(i), 0))
}

// deliverTo is deliverNS on an arbitrary store: insert, and when the
// transaction was not known before, add a credit for every paying output (the
// shape of wallet.addRelevantTx).
func (s *Sim) deliverTo(st *wtxmgr.Store, ns walletdb.ReadWriteBucket, i int, b *Blk) error {
	rec := s.c10Rec(i)
	bm := s.meta(b)
	exists, err := st.InsertTxCheckIfExists(ns, rec, bm)
	if err != nil {
		return err
	}
	if exists {
		return nil
	}
	for o, out := range s.U.Specs[i].Outs {
		if !out.Credit {
			continue
		}
		if err := st.AddCredit(ns, rec, bm, uint32(o), out.Change); err != nil {
			return err
		}
	}
	return nil
}

func (s *Sim) unconfKnown(i int) bool {
	k := s.L.Known[i]
	return k != nil && k.Blk == nil
}

// evicts reports whether confirming i removes a known unconfirmed conflict.
func (s *Sim) evicts(i int) bool {
	for _, op := range s.U.Inputs(i) {
		for _, j := range s.U.Spenders[op] {
			if j != i && s.unconfKnown(j) {
				return true
			}
		}
	}
	return false
}

// drawBlock builds a valid next block without touching the node, preferring
// transactions that move from unconfirmed and that evict conflicts.
func (s *Sim) drawBlock(t *rapid.T) (*Blk, string) {
	h := s.N.Tip + 1 + int32(rapid.IntRange(0, 2).Draw(t, "c10gap"))
	bb := s.N.NewBlock(h)
	for i := range s.U.Specs {
		if s.U.Specs[i].Coinbase && bb.CanInclude(i) {
			if rapid.IntRange(0, 2).Draw(t, "c10takeCoinbase") > 0 {
				bb.Include(i)
			}
			break
		}
	}
	for i := range s.U.Specs {
		if s.U.Specs[i].Coinbase || !bb.CanInclude(i) {
			continue
		}
		p := 2
		if s.unconfKnown(i) || s.evicts(i) {
			p = 5
		}
		if rapid.IntRange(0, 5).Draw(t, "c10take") < p {
			bb.Include(i)
		}
	}
	if len(bb.Txs) == 0 {
		best := -1
		for i := range s.U.Specs {
			if !bb.CanInclude(i) {
				continue
			}
			if best < 0 || ((s.unconfKnown(i) || s.evicts(i)) && !(s.unconfKnown(best) || s.evicts(best))) {
				best = i
			}
		}
		if best < 0 {
			return nil, ""
		}
		bb.Include(best)
	}
	class := ""
	add := func(c string) {
		if class != "" {
			class += "+"
		}
		class += c
	}
	moves, evict, fresh, cb, reconf := false, false, false, false, false
	for _, i := range bb.Txs {
		if s.unconfKnown(i) {
			moves = true
		} else {
			fresh = true
		}
		if s.evicts(i) {
			evict = true
		}
		if s.U.Specs[i].Coinbase {
			cb = true
		}
		if s.everRolledBack[i] {
			reconf = true
		}
	}
	if moves {
		add("moves-from-unconfirmed")
	}
	if evict {
		add("evicts-conflict")
	}
	if fresh {
		add("fresh")
	}
	if cb {
		add("coinbase")
	}
	if reconf {
		add("reconfirm")
	}
	b := &Blk{Height: h, Hash: c10BlockHash(h, s.evIdx), Time: time.Unix(1_650_000_000+int64(h)*600, 0), Txs: bb.Txs}
	return b, class
}

type leaseCand struct {
	op   wire.OutPoint
	name string
}

func (s *Sim) liveCredits() []leaseCand {
	var out []leaseCand
	for _, c := range s.L.Credits() {
		if !c.SpentC {
			out = append(out, leaseCand{c.OutPoint, s.OutPointName(c.OutPoint)})
		}
	}
	return out
}

// StoreFaultKinds lists the operation kinds of the store half.
var StoreFaultKinds = []string{"insert-unconfirmed", "insert-confirmed", "add-credit", "rollback", "remove-unconfirmed",
	"lock-output", "unlock-output", "sweep-expired-leases", "label"}

// DrawStoreFaultOp draws one mutating store operation that is enabled in the
// current state (nil when the drawn kind has no enabled instance).
func (s *Sim) DrawStoreFaultOp(t *rapid.T) *StoreFaultOp {
	now := s.Clock.Now()
	var announceable []int
	for i := range s.U.Specs {
		if s.L.Known[i] == nil && s.N.CanAnnounce(i) {
			announceable = append(announceable, i)
		}
	}
	live := s.liveCredits()
	var leased []leaseCand
	for _, lc := range live {
		if s.L.Leased(lc.op, now) {
			leased = append(leased, lc)
		}
	}
	unconf := s.L.Unconfirmed()
	includable := false
	var creditMined, creditUnmined []int
	{
		nb := s.N.NewBlock(s.N.Tip + 1)
		for i := range s.U.Specs {
			inc := nb.CanInclude(i)
			includable = includable || inc || (!s.U.Specs[i].Coinbase && s.N.NewBlock(s.N.Tip+3).CanInclude(i))
			if s.L.Known[i] != nil {
				continue
			}
			has := false
			for _, o := range s.U.Specs[i].Outs {
				has = has || o.Credit
			}
			if !has {
				continue
			}
			if inc {
				creditMined = append(creditMined, i)
			}
			if s.N.CanAnnounce(i) {
				creditUnmined = append(creditUnmined, i)
			}
		}
	}
	// leases that are certainly in the database (active) and leases that may
	// still be (expired, not known to be swept), by expiry
	type leaseAt struct {
		name string
		exp  time.Time
	}
	var sweepable []leaseAt
	for op, l := range s.L.Leases {
		if now.Before(l.Expiry) && !s.storeKnows(op) {
			continue
		}
		sweepable = append(sweepable, leaseAt{s.OutPointName(op), l.Expiry})
	}
	sort.Slice(sweepable, func(i, j int) bool {
		if !sweepable[i].exp.Equal(sweepable[j].exp) {
			return sweepable[i].exp.Before(sweepable[j].exp)
		}
		return sweepable[i].name < sweepable[j].name
	})
	// enabled kinds, weighted
	var kinds []string
	addKind := func(k string, w int, ok bool) {
		if ok {
			for j := 0; j < w; j++ {
				kinds = append(kinds, k)
			}
		}
	}
	addKind("insert-unconfirmed", 3, len(announceable) > 0)
	addKind("insert-confirmed", 5, includable)
	addKind("add-credit", 2, len(creditMined)+len(creditUnmined) > 0)
	addKind("rollback", 4, len(s.N.Blocks) > 0)
	addKind("remove-unconfirmed", 3, len(unconf) > 0)
	addKind("lock-output", 2, len(live) > 0)
	addKind("unlock-output", 2, len(leased) > 0)
	addKind("sweep-expired-leases", 2, len(sweepable) > 0)
	addKind("label", 1, true)
	kind := rapid.SampledFrom(kinds).Draw(t, "c10kind")
	switch kind {
	case "insert-unconfirmed":
		i := rapid.SampledFrom(announceable).Draw(t, "c10announce")
		class := "no-known-parent"
		for _, op := range s.U.Inputs(i) {
			if p, ok := s.U.Index[op.Hash]; ok && s.L.Known[p] != nil && s.U.Specs[p].Outs[op.Index].Credit {
				class = "spends-known-credit"
			}
		}
		return &StoreFaultOp{Kind: kind, Class: class, Desc: fmt.Sprintf("insert tx%d unconfirmed with its credits", i),
			Run: func(st *wtxmgr.Store, ns walletdb.ReadWriteBucket) (string, error) {
				return "", s.deliverTo(st, ns, i, nil)
			}}
	case "insert-confirmed":
		b, class := s.drawBlock(t)
		if b == nil {
			return nil
		}
		return &StoreFaultOp{Kind: kind, Class: class, Desc: fmt.Sprintf("insert block h=%d txs=%v with credits", b.Height, b.Txs),
			Run: func(st *wtxmgr.Store, ns walletdb.ReadWriteBucket) (string, error) {
				for _, i := range b.Txs {
					if err := s.deliverTo(st, ns, i, b); err != nil {
						return "", err
					}
				}
				return "", nil
			}}
	case "add-credit":
		// a transaction new to the store with a paying output: the record is
		// inserted first (committed), the enumerated operation is AddCredit alone
		mined := len(creditUnmined) == 0 || (len(creditMined) > 0 && rapid.Bool().Draw(t, "c10creditMined"))
		cands := creditUnmined
		h := s.N.Tip + 1
		if mined {
			cands = creditMined
		}
		i := rapid.SampledFrom(cands).Draw(t, "c10creditTx")
		var outs []int
		for o, os := range s.U.Specs[i].Outs {
			if os.Credit {
				outs = append(outs, o)
			}
		}
		o := rapid.SampledFrom(outs).Draw(t, "c10creditOut")
		var b *Blk
		class := "unconfirmed"
		if mined {
			b = &Blk{Height: h, Hash: c10BlockHash(h, s.evIdx), Time: time.Unix(1_650_000_000+int64(h)*600, 0), Txs: []int{i}}
			class = "confirmed"
		}
		change := s.U.Specs[i].Outs[o].Change
		return &StoreFaultOp{Kind: kind, Class: class, Desc: fmt.Sprintf("AddCredit(tx%d:%d) %s, record inserted before", i, o, class),
			Prep: func(st *wtxmgr.Store, ns walletdb.ReadWriteBucket) error {
				return st.InsertTx(ns, s.c10Rec(i), s.meta(b))
			},
			Run: func(st *wtxmgr.Store, ns walletdb.ReadWriteBucket) (string, error) {
				return "", st.AddCredit(ns, s.c10Rec(i), s.meta(b), uint32(o), change)
			}}
	case "rollback":
		bi := rapid.IntRange(0, len(s.N.Blocks)-1).Draw(t, "c10rbBlock")
		h := s.N.Blocks[bi].Height
		class := "plain"
		nblocks := 0
		for _, b := range s.N.Blocks {
			if b.Height < h {
				continue
			}
			nblocks++
			for _, i := range b.Txs {
				if s.U.Specs[i].Coinbase {
					class = "coinbase"
					for _, c := range s.U.Children(i) {
						if s.L.Known[c] != nil {
							class = "coinbase-with-known-descendant"
						}
					}
				}
			}
		}
		if nblocks > 1 {
			class += "+multi-block"
		}
		return &StoreFaultOp{Kind: kind, Class: class, Desc: fmt.Sprintf("Rollback(%d) disconnecting %d block(s)", h, nblocks),
			Run: func(st *wtxmgr.Store, ns walletdb.ReadWriteBucket) (string, error) { return "", st.Rollback(ns, h) }}
	case "remove-unconfirmed":
		i := rapid.SampledFrom(unconf).Draw(t, "c10abandon")
		class := "leaf"
		for _, c := range s.U.Children(i) {
			if s.unconfKnown(c) {
				class = "with-unconfirmed-descendant"
			}
		}
		return &StoreFaultOp{Kind: kind, Class: class, Desc: fmt.Sprintf("RemoveUnminedTx(tx%d)", i),
			Run: func(st *wtxmgr.Store, ns walletdb.ReadWriteBucket) (string, error) {
				return "", st.RemoveUnminedTx(ns, s.U.Rec(i, time.Unix(1_600_000_000, 0)))
			}}
	case "lock-output":
		lc := live[rapid.IntRange(0, len(live)-1).Draw(t, "c10lockTarget")]
		id := lockID(rapid.IntRange(0, 3).Draw(t, "c10lockid"))
		class := "new-lease"
		if cur, ok := s.L.Leases[lc.op]; ok && now.Before(cur.Expiry) {
			id = cur.ID // extend under the same identifier
			class = "extend-lease"
		}
		if len(s.L.Leases) == 0 {
			class += "+maybe-first-lease"
		}
		dur := time.Duration(rapid.IntRange(1, 600).Draw(t, "c10dursec")) * time.Second
		return &StoreFaultOp{Kind: kind, Class: class, Desc: fmt.Sprintf("LockOutput(%s, id %x, %v)", lc.name, id[0], dur),
			Run: func(st *wtxmgr.Store, ns walletdb.ReadWriteBucket) (string, error) {
				exp, err := st.LockOutput(ns, id, lc.op, dur)
				return fmt.Sprint(exp.UnixNano()), err
			}}
	case "unlock-output":
		lc := leased[rapid.IntRange(0, len(leased)-1).Draw(t, "c10unlockTarget")]
		id := s.L.Leases[lc.op].ID
		return &StoreFaultOp{Kind: kind, Class: "own-id", Desc: fmt.Sprintf("UnlockOutput(%s, id %x)", lc.name, id[0]),
			Run: func(st *wtxmgr.Store, ns walletdb.ReadWriteBucket) (string, error) {
				return "", st.UnlockOutput(ns, id, lc.op)
			}}
	case "sweep-expired-leases":
		// the sweep happens at an instant relative to a stored expiry
		la := sweepable[rapid.IntRange(0, len(sweepable)-1).Draw(t, "c10sweepLease")]
		offs := []time.Duration{0, time.Nanosecond, time.Second, time.Hour}
		at := la.exp.Add(offs[rapid.IntRange(0, len(offs)-1).Draw(t, "c10sweepOff")])
		if at.Before(now) {
			at = now
		}
		n := 0
		for _, x := range sweepable {
			if !at.Before(x.exp) {
				n++
			}
		}
		return &StoreFaultOp{Kind: kind, Class: fmt.Sprintf("expired<=%d", n), Desc: fmt.Sprintf("DeleteExpiredLockedOutputs at clock %d.%09d", at.Unix(), at.Nanosecond()),
			ClockAt: at,
			Run: func(st *wtxmgr.Store, ns walletdb.ReadWriteBucket) (string, error) {
				return "", st.DeleteExpiredLockedOutputs(ns)
			}}
	default: // label
		i := rapid.IntRange(0, len(s.U.Specs)-1).Draw(t, "c10labelTx")
		label := rapid.StringMatching(`[a-z ]{1,20}`).Draw(t, "c10label")
		class := "unknown-tx"
		if s.L.Known[i] != nil {
			class = "known-tx"
		}
		hash := s.U.Hash[i]
		return &StoreFaultOp{Kind: "label", Class: class, Desc: fmt.Sprintf("PutTxLabel(tx%d, %q)", i, label),
			Run: func(st *wtxmgr.Store, ns walletdb.ReadWriteBucket) (string, error) {
				return "", st.PutTxLabel(ns, hash, label)
			}}
	}
}

// StoreFaultResult is what one enumeration did.
type StoreFaultResult struct {
	N          int      // mutating calls of the reference run
	Log        []string // their names
	Positions  int      // fault positions enumerated
	RefErr     error    // the reference run failed (operation not enabled)
	FullEffect int      // "success with a failed write" whose committed state was the full effect
	NotReached int      // positions that were not reached (should not happen)
}

// EnumerateStoreFaults runs the fault enumeration of op on copies of the
// current database. It fails the case on a violation.
func (s *Sim) EnumerateStoreFaults(op *StoreFaultOp) StoreFaultResult {
	var r StoreFaultResult
	dir, err := os.MkdirTemp(ScratchDir(), "verif-c10s-")
	if err != nil {
		s.Inconclusive("mkdtemp: %v", err)
	}
	defer os.RemoveAll(dir)
	if !op.ClockAt.IsZero() {
		orig := s.Clock.Now()
		s.Clock.SetTime(op.ClockAt)
		defer s.Clock.SetTime(orig)
	}
	// a violation leaves through a panic: close whatever is still open
	var opened []*StoreCopy
	defer func() {
		for _, c := range opened {
			c.Close()
		}
	}()
	openImage := func(image []byte, path string) *StoreCopy {
		c := s.OpenStoreImage(image, path)
		opened = append(opened, c)
		return c
	}
	image := s.Image()
	if op.Prep != nil {
		pc := openImage(image, filepath.Join(dir, "prep.db"))
		_, err, _ := pc.update(0, func(st *wtxmgr.Store, ns walletdb.ReadWriteBucket) (string, error) { return "", op.Prep(st, ns) })
		if err != nil {
			pc.Close()
			s.Violation("[fault enumeration %s] preparing the state failed on a chain-consistent event: %v", op.Desc, err)
		}
		var buf bytes.Buffer
		if err := pc.DB.Copy(&buf); err != nil {
			s.Inconclusive("copy: %v", err)
		}
		pc.Close()
		image = buf.Bytes()
	}
	// reference run on copy 0
	c0 := openImage(image, filepath.Join(dir, "ref.db"))
	pre := s.TakeFaultSnap(c0)
	refRes, err, _ := c0.update(0, op.Run)
	if err != nil {
		c0.Close()
		r.RefErr = err
		return r
	}
	r.N = c0.DB.Mutations
	r.Log = c0.DB.MutationLog
	post := s.TakeFaultSnap(c0)
	postDump := c0.RawDump()
	c0.Close()
	where := func(k int) string {
		return fmt.Sprintf("[fault enumeration: %s; write %d of %d (%s) fails]", op.Desc, k, r.N, r.Log[k-1])
	}
	path := filepath.Join(dir, "k.db")
	for k := 1; k <= r.N; k++ {
		ck := openImage(image, path)
		opened = opened[:0:0]
		opened = append(opened, ck)
		_, err, injected := ck.update(k, op.Run)
		if !injected {
			// same state, same arguments: cannot happen for a deterministic operation
			r.NotReached++
			ck.Close()
			continue
		}
		r.Positions++
		if err == nil {
			// success with a failed write: only acceptable with the full effect
			got := s.TakeFaultSnap(ck)
			gotDump := ck.RawDump()
			ck.Close()
			if d := post.DiffFault(got, "full effect", "committed") + diffDump(postDump, gotDump, "full effect", "committed"); d != "" {
				s.Violation("%s the operation reported success although one of its writes failed, and the committed state is not its full effect:\n%s", where(k), d)
			}
			r.FullEffect++
			continue
		}
		// (2) the rolled-back state answers as before, on the open handle ...
		if d := pre.DiffFault(s.TakeFaultSnap(ck), "before", "after rollback"); d != "" {
			ck.Close()
			s.Violation("%s the operation failed (%v) and its transaction was rolled back, but the store answers differently from before the operation:\n%s", where(k), err, d)
		}
		// ... and after closing and reopening the file
		ck.Close()
		ck = s.OpenStoreFile(path)
		opened = append(opened, ck)
		if d := pre.DiffFault(s.TakeFaultSnap(ck), "before", "after rollback and reopen"); d != "" {
			ck.Close()
			s.Violation("%s the operation failed (%v) and was rolled back, but after reopening the database the store answers differently from before the operation:\n%s", where(k), err, d)
		}
		// (3) the retried operation succeeds with the reference result
		res, err2, _ := ck.update(0, op.Run)
		if err2 != nil {
			ck.Close()
			s.Violation("%s retrying the operation without a fault failed: %v (the run without a fault succeeded)", where(k), err2)
		}
		if res != refRes {
			ck.Close()
			s.Violation("%s the retried operation returned %q, the run without a fault returned %q", where(k), res, refRes)
		}
		if d := post.DiffFault(s.TakeFaultSnap(ck), "run without fault", "retry after fault"); d != "" {
			ck.Close()
			s.Violation("%s the retried operation succeeded but the store answers differently from the run without a fault:\n%s", where(k), d)
		}
		ck.Close()
	}
	return r
}

// Package dbmodel is the reference model of a walletdb database used by the
// C11 and C19 checks: nested maps (keys -> values, keys -> nested buckets, one
// sequence number per bucket).  A transaction works on a Clone of the
// committed model ("copy on begin"); commit replaces the committed model by
// the clone, rollback drops the clone.
//
// The package also reads a real database into the same structure (Dump), so
// that "the database is exactly as before" is a structural comparison of two
// models.
package dbmodel

import (
	"bytes"
	"fmt"
	"hash/fnv"
	"sort"
	"strings"

	"github.com/btcsuite/btcwallet/walletdb"
)

// Bucket is one bucket of the model.  The root of a database is a Bucket
// whose Sub holds the top-level buckets (its KV and Seq stay empty).
type Bucket struct {
	KV  map[string][]byte
	Sub map[string]*Bucket
	Seq uint64

	// Mark is a free annotation for the user of the model; Clone copies it,
	// Diff and String ignore it.
	Mark bool
}

// New returns an empty bucket.
func New() *Bucket {
	return &Bucket{KV: map[string][]byte{}, Sub: map[string]*Bucket{}}
}

// Clone returns a deep copy.
func (b *Bucket) Clone() *Bucket {
	n := &Bucket{KV: make(map[string][]byte, len(b.KV)), Sub: make(map[string]*Bucket, len(b.Sub)), Seq: b.Seq, Mark: b.Mark}
	for k, v := range b.KV {
		n.KV[k] = append([]byte{}, v...)
	}
	for k, s := range b.Sub {
		n.Sub[k] = s.Clone()
	}
	return n
}

// Lookup walks a path of nested bucket names; nil when a component is missing.
func (b *Bucket) Lookup(path []string) *Bucket {
	cur := b
	for _, p := range path {
		cur = cur.Sub[p]
		if cur == nil {
			return nil
		}
	}
	return cur
}

// Keys returns all keys of the bucket (plain keys and nested bucket names) in
// ascending bytewise order.
func (b *Bucket) Keys() []string {
	ks := make([]string, 0, len(b.KV)+len(b.Sub))
	for k := range b.KV {
		ks = append(ks, k)
	}
	for k := range b.Sub {
		ks = append(ks, k)
	}
	sort.Strings(ks) // Go string comparison is bytewise
	return ks
}

// Paths lists the paths of all buckets below b (not b itself), parents first,
// in a deterministic order.
func (b *Bucket) Paths() [][]string {
	var out [][]string
	var rec func(cur *Bucket, prefix []string)
	rec = func(cur *Bucket, prefix []string) {
		names := make([]string, 0, len(cur.Sub))
		for n := range cur.Sub {
			names = append(names, n)
		}
		sort.Strings(names)
		for _, n := range names {
			p := append(append([]string{}, prefix...), n)
			out = append(out, p)
			rec(cur.Sub[n], p)
		}
	}
	rec(b, nil)
	return out
}

// Count returns the number of plain keys and of buckets below b.
func (b *Bucket) Count() (keys, buckets int) {
	keys = len(b.KV)
	for _, s := range b.Sub {
		k, n := s.Count()
		keys += k
		buckets += 1 + n
	}
	return
}

// Short renders a byte string for messages: quoted when short, otherwise
// prefix, length and a hash.
func Short(b []byte) string {
	if b == nil {
		return "nil"
	}
	if len(b) <= 24 {
		return fmt.Sprintf("%q", b)
	}
	h := fnv.New32a()
	h.Write(b)
	return fmt.Sprintf("%q..(len %d, fnv %08x)", b[:8], len(b), h.Sum32())
}

// Diff describes the first differences between two models ("" when equal).
// Values are compared bytewise; an empty value and a nil value are the same
// (the database does not distinguish them after a commit).
func Diff(want, got *Bucket) string {
	var sb strings.Builder
	n := 0
	var rec func(path string, w, g *Bucket)
	rec = func(path string, w, g *Bucket) {
		if n > 8 {
			return
		}
		if w.Seq != g.Seq {
			fmt.Fprintf(&sb, "  %s: sequence want %d got %d\n", path, w.Seq, g.Seq)
			n++
		}
		for _, k := range w.Keys() {
			if wv, ok := w.KV[k]; ok {
				gv, ok2 := g.KV[k]
				switch {
				case !ok2 && g.Sub[k] != nil:
					fmt.Fprintf(&sb, "  %s: key %s want value %s, got a nested bucket\n", path, Short([]byte(k)), Short(wv))
					n++
				case !ok2:
					fmt.Fprintf(&sb, "  %s: key %s want value %s, got: missing\n", path, Short([]byte(k)), Short(wv))
					n++
				case !bytes.Equal(wv, gv):
					fmt.Fprintf(&sb, "  %s: key %s want value %s, got %s\n", path, Short([]byte(k)), Short(wv), Short(gv))
					n++
				}
				continue
			}
			ws := w.Sub[k]
			gs := g.Sub[k]
			if gs == nil {
				if gv, ok := g.KV[k]; ok {
					fmt.Fprintf(&sb, "  %s: want nested bucket %s, got plain value %s\n", path, Short([]byte(k)), Short(gv))
				} else {
					fmt.Fprintf(&sb, "  %s: want nested bucket %s, got: missing\n", path, Short([]byte(k)))
				}
				n++
				continue
			}
			rec(path+"/"+Short([]byte(k)), ws, gs)
		}
		for _, k := range g.Keys() {
			_, inKV := w.KV[k]
			_, inSub := w.Sub[k]
			if inKV || inSub {
				continue
			}
			if gv, ok := g.KV[k]; ok {
				fmt.Fprintf(&sb, "  %s: unexpected key %s = %s\n", path, Short([]byte(k)), Short(gv))
			} else {
				fmt.Fprintf(&sb, "  %s: unexpected nested bucket %s\n", path, Short([]byte(k)))
			}
			n++
		}
	}
	rec("", want, got)
	return sb.String()
}

// String renders the model canonically (for fingerprints and messages).
func (b *Bucket) String() string {
	var sb strings.Builder
	var rec func(indent string, cur *Bucket)
	rec = func(indent string, cur *Bucket) {
		if cur.Seq != 0 {
			fmt.Fprintf(&sb, "%sseq=%d\n", indent, cur.Seq)
		}
		for _, k := range cur.Keys() {
			if v, ok := cur.KV[k]; ok {
				fmt.Fprintf(&sb, "%s%s = %s\n", indent, Short([]byte(k)), Short(v))
			} else {
				fmt.Fprintf(&sb, "%s%s/\n", indent, Short([]byte(k)))
				rec(indent+"  ", cur.Sub[k])
			}
		}
	}
	rec("", b)
	return sb.String()
}

// DumpBucket reads a real bucket recursively.  An entry is taken to be a nested
// bucket when NestedReadBucket returns a non-nil bucket for its key.
func DumpBucket(rb walletdb.ReadBucket) (*Bucket, error) {
	out := New()
	out.Seq = rb.Sequence()
	type ent struct{ k, v []byte }
	var ents []ent
	err := rb.ForEach(func(k, v []byte) error {
		e := ent{k: append([]byte{}, k...)}
		if v != nil {
			e.v = append([]byte{}, v...)
		}
		ents = append(ents, e)
		return nil
	})
	if err != nil {
		return nil, fmt.Errorf("ForEach: %w", err)
	}
	for _, e := range ents {
		if _, dup := out.KV[string(e.k)]; dup {
			return nil, fmt.Errorf("ForEach reported key %s twice", Short(e.k))
		}
		if _, dup := out.Sub[string(e.k)]; dup {
			return nil, fmt.Errorf("ForEach reported key %s twice", Short(e.k))
		}
		if sub := rb.NestedReadBucket(e.k); sub != nil {
			s, err := DumpBucket(sub)
			if err != nil {
				return nil, err
			}
			out.Sub[string(e.k)] = s
			continue
		}
		if e.v == nil {
			e.v = []byte{}
		}
		out.KV[string(e.k)] = e.v
	}
	return out, nil
}

// Dump reads the whole database visible to a transaction.
func Dump(tx walletdb.ReadTx) (*Bucket, error) {
	root := New()
	var names [][]byte
	err := tx.ForEachBucket(func(k []byte) error {
		names = append(names, append([]byte{}, k...))
		return nil
	})
	if err != nil {
		return nil, fmt.Errorf("ForEachBucket: %w", err)
	}
	for _, n := range names {
		if _, dup := root.Sub[string(n)]; dup {
			return nil, fmt.Errorf("ForEachBucket reported %s twice", Short(n))
		}
		rb := tx.ReadBucket(n)
		if rb == nil {
			return nil, fmt.Errorf("ForEachBucket reported %s but ReadBucket returns nil", Short(n))
		}
		s, err := DumpBucket(rb)
		if err != nil {
			return nil, err
		}
		root.Sub[string(n)] = s
	}
	return root, nil
}

// DumpDB dumps through a fresh read transaction.
func DumpDB(db walletdb.DB) (*Bucket, error) {
	var out *Bucket
	err := walletdb.View(db, func(tx walletdb.ReadTx) error {
		var err error
		out, err = Dump(tx)
		return err
	})
	return out, err
}

// Package mgrsim is a stateful model-based test machine over a real
// waddrmgr.Manager on a real bbolt file. It is shared by C03 (addresses are
// the seed's BIP32 children and can be signed for), C05 (lock state and
// wiping), C08 (memory equals restart), C04 (nothing secret on disk) and the
// manager half of C10 (fault injection). The model side uses bip32ref, never
// waddrmgr's own derivation.
package mgrsim

import (
	"bytes"
	"fmt"
	"os"
	"path/filepath"
	"sort"
	"sync"
	"time"

	"github.com/btcsuite/btcd/btcec/v2"
	"github.com/btcsuite/btcd/btcutil"
	"github.com/btcsuite/btcd/btcutil/hdkeychain"
	"github.com/btcsuite/btcd/chaincfg"
	"github.com/btcsuite/btcwallet/snacl"
	"github.com/btcsuite/btcwallet/waddrmgr"
	"github.com/btcsuite/btcwallet/walletdb"
	_ "github.com/btcsuite/btcwallet/walletdb/bdb"
	"pgregory.net/rapid"

	"verifharness/internal/bip32ref"
	"verifharness/internal/evid"
	"verifharness/internal/proxydb"
)

// NSKey is the address manager's namespace.
var NSKey = []byte("waddrmgr")

var fastOnce sync.Once

// FastScrypt replaces the scrypt parameters of new secret keys by cheap ones
// (public API of waddrmgr); the property does not depend on the work factor.
func FastScrypt() {
	fastOnce.Do(func() {
		waddrmgr.SetSecretKeyGen(func(p *[]byte, _ *waddrmgr.ScryptOptions) (*snacl.SecretKey, error) {
			return snacl.NewSecretKey(p, 16, 8, 1)
		})
	})
}

// Fataler is the part of *rapid.T the machine needs.
type Fataler interface {
	Fatalf(format string, args ...interface{})
}

// AcctModel is the model of one account.
type AcctModel struct {
	Scope     waddrmgr.KeyScope
	Num       uint32
	Name      string
	Key       *bip32ref.Key // account key (private for own accounts, public for imported ones)
	WatchOnly bool          // imported extended-public-key account
	ExtKind   bip32ref.AddrKind
	IntKind   bip32ref.AddrKind
	Override  *waddrmgr.ScopeAddrSchema
	MasterFP  uint32
	Next      [2]uint32 // next index per branch (committed)
	XPub      string
}

// ScopeModel is the model of one key scope.
type ScopeModel struct {
	Scope    waddrmgr.KeyScope
	Keys     *bip32ref.ScopeKeys
	ExtKind  bip32ref.AddrKind
	IntKind  bip32ref.AddrKind
	Schema   waddrmgr.ScopeAddrSchema
	Accounts map[uint32]*AcctModel
	LastAcct uint32
	Custom   bool
}

// Issued is an address the manager issued (chain address).
type Issued struct {
	Acct    *AcctModel
	Branch  uint32
	Index   uint32
	Addr    string
	Address btcutil.Address
	Pub     []byte
	Priv    []byte // 32 bytes; nil for imported (watch-only) accounts
	Kind    bip32ref.AddrKind
	Used    bool
	ViaExt  bool // issued by extend (no address object was returned)
}

// Imported is an imported key or script.
type Imported struct {
	Scope      waddrmgr.KeyScope
	Addr       string
	Address    btcutil.Address
	WIF        *btcutil.WIF
	Script     []byte
	Secret     bool
	Kind       string // "wif", "p2sh", "p2wsh"
	Used       bool
	Compressed bool
}

// Machine is one running case.
type Machine struct {
	// ExtraFates names the operations without a fate parameter of their own
	// (extend, markUsed, rename, importKey, importScript, newScope) that may
	// run inside rolled-back transactions too (Run draws the fate).
	ExtraFates map[string]bool
	nextFate   Fate
	// rolledBackAcctScope: the scope of the last account creation that was
	// rolled back (its number is free again)
	rolledBackAcctScope *ScopeModel

	T      Fataler
	Prop   string
	Case   *evid.Case
	Params *chaincfg.Params
	Dir    string
	Path   string
	Raw    walletdb.DB
	DB     *proxydb.DB
	Mgr    *waddrmgr.Manager

	Seed    []byte
	Master  *bip32ref.Key
	Seed2   []byte
	Master2 *bip32ref.Key

	PubPass   []byte
	PrivPass  []byte
	Locked    bool
	WatchOnly bool

	Scopes   map[waddrmgr.KeyScope]*ScopeModel
	Issued   []*Issued
	ByAddr   map[string]*Issued
	Imports  []*Imported
	SyncedTo waddrmgr.BlockStamp
	Birthday time.Time

	// addresses produced only inside rolled-back transactions (C08 L)
	Tainted map[string]bool

	// statistics
	N map[string]int
	// Held are address objects handed out by the current manager instance
	// while it was locked (dropped at a restart).
	Held []HeldAddr

	wifPool int
	lastCT  map[waddrmgr.CryptoKeyType][]byte

	// CheckWipe enables the memory-wiping oracle (C05, needs the verif hook).
	CheckWipe bool
	knownHooks
}

// Violation fails the case with a property violation.
func (m *Machine) Violation(format string, args ...interface{}) {
	m.T.Fatalf("%s VIOLATED: %s\n--- history ---\n%s", m.Prop, fmt.Sprintf(format, args...), m.Case.Text())
}

// Inconclusive fails the case for a harness reason.
func (m *Machine) Inconclusive(format string, args ...interface{}) {
	m.T.Fatalf("INCONCLUSIVE: "+format, args...)
}

func scratch() string {
	if st, err := os.Stat("/dev/shm"); err == nil && st.IsDir() {
		return "/dev/shm"
	}
	return os.TempDir()
}

func kindOf(t waddrmgr.AddressType) bip32ref.AddrKind {
	switch t {
	case waddrmgr.PubKeyHash:
		return bip32ref.P2PKH
	case waddrmgr.NestedWitnessPubKey:
		return bip32ref.NestedP2WPKH
	case waddrmgr.WitnessPubKey:
		return bip32ref.P2WPKH
	case waddrmgr.TaprootPubKey:
		return bip32ref.P2TR
	}
	panic("unsupported address type")
}

func typeOf(k bip32ref.AddrKind) waddrmgr.AddressType {
	switch k {
	case bip32ref.P2PKH:
		return waddrmgr.PubKeyHash
	case bip32ref.NestedP2WPKH:
		return waddrmgr.NestedWitnessPubKey
	case bip32ref.P2WPKH:
		return waddrmgr.WitnessPubKey
	default:
		return waddrmgr.TaprootPubKey
	}
}

// affectedSeeds are seeds for which an intermediate key of a default scope has
// a leading zero byte (the legacy rule differs from BIP32). Found once per
// process by a bounded search.
var (
	affectedOnce  sync.Once
	affectedSeeds [][]byte
)

func findAffected(params *chaincfg.Params) {
	affectedOnce.Do(func() {
		for s := 0; s < 4000 && len(affectedSeeds) < 12; s++ {
			seed := make([]byte, 32)
			seed[0], seed[1], seed[2], seed[31] = byte(s), byte(s>>8), 0xa5, 0x3c
			mk, err := bip32ref.Master(seed)
			if err != nil {
				continue
			}
			for _, sc := range waddrmgr.DefaultKeyScopes {
				coin := params.HDCoinType
				sk, err := bip32ref.DeriveScope(mk, bip32ref.Scope{Purpose: sc.Purpose, Coin: coin})
				if err != nil {
					continue
				}
				if sk.Purpose.LeadingZero() || sk.CoinType.LeadingZero() {
					affectedSeeds = append(affectedSeeds, seed)
					break
				}
			}
		}
	})
}

// DrawSeed draws a seed of 16-64 bytes, mixing in seeds that exercise the
// legacy hardened-derivation rule.
func DrawSeed(t *rapid.T, params *chaincfg.Params, label string) []byte {
	findAffected(params)
	if len(affectedSeeds) > 0 && rapid.IntRange(0, 4).Draw(t, label+"Affected") == 0 {
		return append([]byte(nil), affectedSeeds[rapid.IntRange(0, len(affectedSeeds)-1).Draw(t, label+"Idx")]...)
	}
	n := rapid.SampledFrom([]int{16, 24, 32, 48, 64}).Draw(t, label+"Len")
	return rapid.SliceOfN(rapid.Byte(), n, n).Draw(t, label)
}

// New creates a manager from a drawn seed in a fresh database.
func New(t *rapid.T, prop string, c *evid.Case) *Machine {
	FastScrypt()
	m := &Machine{T: t, Prop: prop, Case: c, Scopes: map[waddrmgr.KeyScope]*ScopeModel{}, ByAddr: map[string]*Issued{},
		Tainted: map[string]bool{}, N: map[string]int{}, lastCT: map[waddrmgr.CryptoKeyType][]byte{}}
	m.Params = rapid.SampledFrom([]*chaincfg.Params{&chaincfg.RegressionNetParams, &chaincfg.TestNet3Params, &chaincfg.MainNetParams}).Draw(t, "net")
	for {
		m.Seed = DrawSeed(t, m.Params, "seed")
		mk, err := bip32ref.Master(m.Seed)
		if err == nil {
			m.Master = mk
			break
		}
	}
	for {
		m.Seed2 = DrawSeed(t, m.Params, "seed2")
		mk, err := bip32ref.Master(m.Seed2)
		if err == nil && !bytes.Equal(m.Seed, m.Seed2) {
			m.Master2 = mk
			break
		}
		if bytes.Equal(m.Seed, m.Seed2) {
			m.Seed2 = append([]byte{0x42}, m.Seed[1:]...)
			if mk, err := bip32ref.Master(m.Seed2); err == nil {
				m.Master2 = mk
				break
			}
		}
	}
	m.PubPass = []byte(rapid.StringMatching(`[a-z]{1,8}`).Draw(t, "pubPass"))
	m.PrivPass = []byte(rapid.StringMatching(`[A-Za-z0-9]{1,12}`).Draw(t, "privPass"))
	c.Logf("net=%s seed=%x seed2=%x pub=%q priv=%q", m.Params.Name, m.Seed, m.Seed2, m.PubPass, m.PrivPass)

	dir, err := os.MkdirTemp(scratch(), "verif-mgrsim-")
	if err != nil {
		m.Inconclusive("mkdtemp: %v", err)
	}
	m.Dir = dir
	m.Path = filepath.Join(dir, "w.db")
	raw, err := walletdb.Create("bdb", m.Path, true, 10*time.Second, false)
	if err != nil {
		m.Inconclusive("create db: %v", err)
	}
	m.Raw = raw
	m.DB = proxydb.New(raw)
	root, err := hdkeychain.NewMaster(m.Seed, m.Params)
	if err != nil {
		m.Inconclusive("hdkeychain.NewMaster: %v", err)
	}
	m.Birthday = time.Unix(1_600_000_000, 0)
	err = walletdb.Update(m.DB, func(tx walletdb.ReadWriteTx) error {
		ns, err := tx.CreateTopLevelBucket(NSKey)
		if err != nil {
			return err
		}
		return waddrmgr.Create(ns, root, m.PubPass, m.PrivPass, m.Params, nil, m.Birthday)
	})
	if err != nil {
		m.Violation("waddrmgr.Create failed: %v", err)
	}
	m.openManager()
	// model of the default scopes: account 0 derived at creation time from
	// the in-memory coin-type key
	for _, sc := range waddrmgr.DefaultKeyScopes {
		sm := m.addScopeModel(sc, waddrmgr.ScopeAddrMap[sc], false)
		_ = sm
	}
	m.SyncedTo = waddrmgr.BlockStamp{Height: 0, Hash: *m.Params.GenesisHash, Timestamp: m.Params.GenesisBlock.Header.Timestamp}
	return m
}

func (m *Machine) addScopeModel(sc waddrmgr.KeyScope, schema waddrmgr.ScopeAddrSchema, custom bool) *ScopeModel {
	sk, err := bip32ref.DeriveScope(m.Master, bip32ref.Scope{Purpose: sc.Purpose, Coin: sc.Coin})
	if err != nil {
		m.Inconclusive("oracle: invalid child deriving scope %v", sc)
	}
	sm := &ScopeModel{Scope: sc, Keys: sk, Schema: schema, ExtKind: kindOf(schema.ExternalAddrType), IntKind: kindOf(schema.InternalAddrType),
		Accounts: map[uint32]*AcctModel{}, Custom: custom}
	k0, err := sk.AccountAtCreation(0)
	if err != nil {
		m.Inconclusive("oracle: invalid child deriving account 0 of %v", sc)
	}
	sm.Accounts[0] = &AcctModel{Scope: sc, Num: 0, Name: "default", Key: k0.Stored(), ExtKind: sm.ExtKind, IntKind: sm.IntKind}
	m.Scopes[sc] = sm
	if sk.Purpose.LeadingZero() || sk.CoinType.LeadingZero() {
		m.Case.Class("legacy-hardened-rule-differs-from-bip32")
	}
	return sm
}

func (m *Machine) openManager() {
	err := walletdb.View(m.DB, func(tx walletdb.ReadTx) error {
		mgr, err := waddrmgr.Open(tx.ReadBucket(NSKey), m.PubPass, m.Params)
		m.Mgr = mgr
		return err
	})
	if err != nil {
		m.Violation("waddrmgr.Open with the current public passphrase failed: %v", err)
	}
	m.Locked = !m.WatchOnly
	if m.WatchOnly {
		m.Locked = true
	}
}

// Close releases everything.
func (m *Machine) Close() {
	if m.Mgr != nil {
		// a panic inside the manager may have left its mutex locked; never
		// wedge the whole run on that
		done := make(chan struct{})
		go func() { m.Mgr.Close(); close(done) }()
		select {
		case <-done:
		case <-time.After(2 * time.Second):
		}
	}
	if m.Raw != nil {
		m.Raw.Close()
	}
	if m.Dir != "" {
		os.RemoveAll(m.Dir)
	}
}

// Restart closes manager and database and opens them again.
func (m *Machine) Restart() {
	m.Mgr.Close()
	m.Raw.Close()
	raw, err := walletdb.Open("bdb", m.Path, true, 10*time.Second, false)
	if err != nil {
		m.Inconclusive("reopen db: %v", err)
	}
	m.Raw = raw
	old := m.DB
	m.DB = proxydb.New(raw)
	m.DB.AfterCommit = old.AfterCommit
	m.openManager()
	m.N["restart"]++
	m.Held = nil
}

// SortedScopes lists the scopes in a deterministic order.
func (m *Machine) SortedScopes() []*ScopeModel {
	var out []*ScopeModel
	for _, s := range m.Scopes {
		out = append(out, s)
	}
	sort.Slice(out, func(i, j int) bool {
		if out[i].Scope.Purpose != out[j].Scope.Purpose {
			return out[i].Scope.Purpose < out[j].Scope.Purpose
		}
		return out[i].Scope.Coin < out[j].Scope.Coin
	})
	return out
}

// SortedAccounts lists the accounts of a scope in order.
func (s *ScopeModel) SortedAccounts() []*AcctModel {
	var out []*AcctModel
	for _, a := range s.Accounts {
		out = append(out, a)
	}
	sort.Slice(out, func(i, j int) bool { return out[i].Num < out[j].Num })
	return out
}

// OracleAddr derives the oracle's view of account/branch/index.
func (m *Machine) OracleAddr(a *AcctModel, branch, index uint32) *Issued {
	k, err := bip32ref.AddrKey(a.Key, branch, index)
	if err != nil {
		m.Inconclusive("oracle: invalid child (probability 2^-127)")
	}
	kind := a.ExtKind
	if branch == 1 {
		kind = a.IntKind
	}
	addr, err := bip32ref.Address(k.Pub, kind, m.Params)
	if err != nil {
		m.Inconclusive("oracle: address encoding: %v", err)
	}
	is := &Issued{Acct: a, Branch: branch, Index: index, Addr: addr.EncodeAddress(), Address: addr, Pub: k.Pub, Kind: kind}
	if k.Priv != nil {
		p := make([]byte, 32)
		copy(p[32-len(k.Priv):], k.Priv)
		is.Priv = p
	}
	return is
}

// privOK reports whether the model expects private keys to be available for an
// address of account a.
func (m *Machine) privOK(a *AcctModel) bool {
	return !m.Locked && !m.WatchOnly && !a.WatchOnly
}

var _ = btcec.PrivKeyBytesLen

// HeldAddr is an address object kept by the caller across later operations.
type HeldAddr struct {
	MA waddrmgr.ManagedAddress
	Is *Issued
}

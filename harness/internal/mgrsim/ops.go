package mgrsim

import (
	"bytes"
	"errors"
	"fmt"

	"github.com/btcsuite/btcd/btcec/v2"
	"github.com/btcsuite/btcd/btcutil"
	"github.com/btcsuite/btcd/btcutil/hdkeychain"
	"github.com/btcsuite/btcd/chaincfg/chainhash"
	"github.com/btcsuite/btcd/txscript"
	"github.com/btcsuite/btcwallet/waddrmgr"
	"github.com/btcsuite/btcwallet/walletdb"
	"pgregory.net/rapid"

	"verifharness/internal/bip32ref"
	"verifharness/internal/proxydb"
)

// Fate of a database transaction.
type Fate int

// Transaction fates.
const (
	Commit Fate = iota
	RollbackByError
	FailedCommit
)

func (f Fate) String() string {
	return [...]string{"commit", "rolled-back(error after success)", "failed-commit"}[f]
}

var errDryRun = errors.New("mgrsim: roll back (dry run)")

// Tx runs f in a read-write transaction with the given fate. It returns f's
// error (nil when f succeeded, whatever the fate) and whether the changes were
// committed.
func (m *Machine) Tx(fate Fate, f func(ns walletdb.ReadWriteBucket) error) (opErr error, committed bool) {
	if fate == FailedCommit {
		m.DB.FailNextCommit = true
	}
	err := walletdb.Update(m.DB, func(tx walletdb.ReadWriteTx) error {
		opErr = f(tx.ReadWriteBucket(NSKey))
		if opErr != nil {
			return opErr
		}
		if fate == RollbackByError {
			return errDryRun
		}
		return nil
	})
	m.DB.FailNextCommit = false
	switch {
	case opErr != nil:
		return opErr, false
	case err == nil:
		return nil, true
	case errors.Is(err, errDryRun) || errors.Is(err, proxydb.ErrCommitFailed):
		return nil, false
	default:
		m.Violation("database transaction failed unexpectedly: %v", err)
		return nil, false
	}
}

// takeFate is the fate drawn for the operation that is running, for the
// operations that have no fate parameter of their own (Machine.ExtraFates).
func (m *Machine) takeFate() Fate {
	f := m.nextFate
	m.nextFate = Commit
	return f
}

// View runs f in a read transaction.
func (m *Machine) View(f func(ns walletdb.ReadBucket)) {
	err := walletdb.View(m.DB, func(tx walletdb.ReadTx) error { f(tx.ReadBucket(NSKey)); return nil })
	if err != nil {
		m.Violation("read transaction failed: %v", err)
	}
}

func (m *Machine) scoped(sc waddrmgr.KeyScope) *waddrmgr.ScopedKeyManager {
	s, err := m.Mgr.FetchScopedKeyManager(sc)
	if err != nil {
		m.Violation("FetchScopedKeyManager(%v) failed: %v", sc, err)
	}
	return s
}

func (m *Machine) drawScope(t *rapid.T) *ScopeModel {
	ss := m.SortedScopes()
	return ss[rapid.IntRange(0, len(ss)-1).Draw(t, "scope")]
}

func (m *Machine) drawAcct(t *rapid.T, s *ScopeModel) *AcctModel {
	as := s.SortedAccounts()
	return as[rapid.IntRange(0, len(as)-1).Draw(t, "acct")]
}

func isMgrErr(err error, code waddrmgr.ErrorCode) bool { return waddrmgr.IsError(err, code) }

// checkManaged compares a managed address returned by the manager with the
// oracle's view (C03 a).
func (m *Machine) checkManaged(where string, ma waddrmgr.ManagedAddress, want *Issued) {
	if ma.Address().EncodeAddress() != want.Addr {
		m.Violation("[%s] scope %v account %d branch %d index %d: the wallet says %s, derivation from the seed gives %s", where,
			want.Acct.Scope, want.Acct.Num, want.Branch, want.Index, ma.Address().EncodeAddress(), want.Addr)
	}
	if ma.InternalAccount() != want.Acct.Num {
		m.Violation("[%s] %s: account %d reported, issued for account %d", where, want.Addr, ma.InternalAccount(), want.Acct.Num)
	}
	if ma.Internal() != (want.Branch == 1) {
		m.Violation("[%s] %s: internal flag %v, branch %d", where, want.Addr, ma.Internal(), want.Branch)
	}
	if ma.Imported() {
		m.Violation("[%s] %s: chain address reported as imported", where, want.Addr)
	}
	if ma.AddrType() != typeOf(want.Kind) {
		m.Violation("[%s] %s: address type %v, expected %v", where, want.Addr, ma.AddrType(), typeOf(want.Kind))
	}
	if !ma.Compressed() {
		m.Violation("[%s] %s: chain address reported as uncompressed", where, want.Addr)
	}
	pka, ok := ma.(waddrmgr.ManagedPubKeyAddress)
	if !ok {
		m.Violation("[%s] %s: not a pubkey address (%T)", where, want.Addr, ma)
	}
	if !bytes.Equal(pka.PubKey().SerializeCompressed(), want.Pub) {
		m.Violation("[%s] %s: public key %x, derivation from the seed gives %x", where, want.Addr, pka.PubKey().SerializeCompressed(), want.Pub)
	}
	sc, dp, ok := pka.DerivationInfo()
	if !ok {
		m.Violation("[%s] %s: no derivation info for a chain address", where, want.Addr)
	}
	if sc != want.Acct.Scope || dp.InternalAccount != want.Acct.Num || dp.Branch != want.Branch || dp.Index != want.Index {
		m.Violation("[%s] %s: derivation info %v %+v, true path is scope %v account %d branch %d index %d", where, want.Addr, sc, dp,
			want.Acct.Scope, want.Acct.Num, want.Branch, want.Index)
	}
	if dp.Account != want.Acct.Key.ChildNum {
		m.Violation("[%s] %s: derivation info reports account child %d, the account key is child %d", where, want.Addr, dp.Account, want.Acct.Key.ChildNum)
	}
}

// checkPriv checks the private key accessor of a chain address against the
// oracle and the model's lock state (C03 c, C05).
func (m *Machine) checkPriv(where string, ma waddrmgr.ManagedAddress, want *Issued) {
	pka := ma.(waddrmgr.ManagedPubKeyAddress)
	priv, err := pka.PrivKey()
	if m.privOK(want.Acct) {
		if err != nil {
			m.Violation("[%s] %s (scope %v account %d branch %d index %d, via-extend=%v): the wallet is unlocked but PrivKey() fails: %v", where,
				want.Addr, want.Acct.Scope, want.Acct.Num, want.Branch, want.Index, want.ViaExt, err)
		}
		if !bytes.Equal(priv.Serialize(), want.Priv) {
			m.Violation("[%s] %s: PrivKey() is not the key of the address' public key", where, want.Addr)
		}
		wif, err := pka.ExportPrivKey()
		if err != nil {
			m.Violation("[%s] %s: unlocked but ExportPrivKey() fails: %v", where, want.Addr, err)
		}
		if !bytes.Equal(wif.PrivKey.Serialize(), want.Priv) || !wif.IsForNet(m.Params) {
			m.Violation("[%s] %s: ExportPrivKey() returns a different key or network", where, want.Addr)
		}
		m.N["privkey-ok"]++
		return
	}
	if err == nil || priv != nil {
		m.Violation("[%s] %s: PrivKey() returned a key while locked=%v watch-only=%v account-watch-only=%v", where, want.Addr,
			m.Locked, m.WatchOnly, want.Acct.WatchOnly)
	}
	if !isMgrErr(err, waddrmgr.ErrLocked) && !isMgrErr(err, waddrmgr.ErrWatchingOnly) {
		m.Violation("[%s] %s: PrivKey() failed with %v, expected a locked or watching-only error", where, want.Addr, err)
	}
	if wif, err := pka.ExportPrivKey(); err == nil || wif != nil {
		m.Violation("[%s] %s: ExportPrivKey() succeeded while locked=%v watch-only=%v", where, want.Addr, m.Locked, m.WatchOnly)
	}
	m.N["privkey-refused"]++
}

func (m *Machine) addIssued(is *Issued) {
	m.Issued = append(m.Issued, is)
	m.ByAddr[is.Addr] = is
	delete(m.Tainted, is.Addr)
}

// OpNext requests the next 1-3 addresses of a branch.
func (m *Machine) OpNext(t *rapid.T, fate Fate) {
	s := m.drawScope(t)
	a := m.drawAcct(t, s)
	internal := rapid.Bool().Draw(t, "internal")
	n := uint32(rapid.IntRange(1, 3).Draw(t, "n"))
	branch := uint32(0)
	if internal {
		branch = 1
	}
	var got []waddrmgr.ManagedAddress
	err, committed := m.Tx(fate, func(ns walletdb.ReadWriteBucket) error {
		var err error
		if internal {
			got, err = m.scoped(s.Scope).NextInternalAddresses(ns, a.Num, n)
		} else {
			got, err = m.scoped(s.Scope).NextExternalAddresses(ns, a.Num, n)
		}
		return err
	})
	m.Case.Logf("next scope=%v acct=%d branch=%d n=%d fate=%v locked=%v -> err=%v", s.Scope, a.Num, branch, n, fate, m.Locked, err)
	if err != nil {
		m.Violation("requesting %d next addresses (scope %v account %d branch %d) failed: %v", n, s.Scope, a.Num, branch, err)
	}
	if uint32(len(got)) != n {
		m.Violation("requested %d addresses, got %d", n, len(got))
	}
	for i, ma := range got {
		want := m.OracleAddr(a, branch, a.Next[branch]+uint32(i))
		m.checkManaged("next", ma, want)
		if committed {
			m.addIssued(want)
			m.checkPriv("next", ma, want)
		} else if m.ByAddr[want.Addr] == nil {
			m.Tainted[want.Addr] = true
		}
	}
	if committed {
		a.Next[branch] += n
		m.N["issued"] += int(n)
		if m.Locked {
			m.N["issued-while-locked"]++
		}
	} else {
		m.N["rolled-back-issue"]++
	}
}

// OpExtend extends a branch up to an index (as recovery does).
func (m *Machine) OpExtend(t *rapid.T) {
	s := m.drawScope(t)
	a := m.drawAcct(t, s)
	internal := rapid.Bool().Draw(t, "internal")
	branch := uint32(0)
	if internal {
		branch = 1
	}
	// one recovery batch may find addresses on both branches of an account:
	// a third of the extensions extend the other branch too, in the same
	// database transaction
	branches := []uint32{branch}
	if rapid.IntRange(0, 2).Draw(t, "bothBranches") == 0 {
		branches = append(branches, 1-branch)
	}
	lasts := map[uint32]int{}
	for _, b := range branches {
		last := int(a.Next[b]) + rapid.IntRange(-2, 4).Draw(t, "extendBy")
		if last < 0 {
			last = 0
		}
		lasts[b] = last
	}
	err, committed := m.Tx(m.takeFate(), func(ns walletdb.ReadWriteBucket) error {
		for _, b := range branches {
			var err error
			if b == 1 {
				err = m.scoped(s.Scope).ExtendInternalAddresses(ns, a.Num, uint32(lasts[b]))
			} else {
				err = m.scoped(s.Scope).ExtendExternalAddresses(ns, a.Num, uint32(lasts[b]))
			}
			if err != nil {
				return err
			}
		}
		return nil
	})
	if len(branches) > 1 {
		m.N["extend-both-branches"]++
	}
	for _, branch := range branches {
		last := lasts[branch]
		m.Case.Logf("extend scope=%v acct=%d(watch-only=%v) branch=%d to=%d (next was %d) locked=%v same-tx-branches=%d -> err=%v", s.Scope, a.Num, a.WatchOnly, branch, last, a.Next[branch], m.Locked, len(branches), err)
		if err != nil {
			m.Violation("extending scope %v account %d branch %d to index %d failed: %v", s.Scope, a.Num, branch, last, err)
		}
		if !committed && uint32(last) >= a.Next[branch] {
			m.N["extend-rolled-back"]++
			if m.KnownF22 != nil && m.KnownF22() {
				m.Case.Logf("  rolled back: manager reloaded [known finding F22: indices advance before the commit]")
				m.Restart()
			}
		}
		if committed && uint32(last) >= a.Next[branch] {
			for i := a.Next[branch]; i <= uint32(last); i++ {
				is := m.OracleAddr(a, branch, i)
				is.ViaExt = true
				m.addIssued(is)
			}
			m.N["extended"] += last + 1 - int(a.Next[branch])
			a.Next[branch] = uint32(last) + 1
			if !m.Locked {
				m.N["extended-while-unlocked"]++
			}
		}
	}
}

// OpLookup looks an address up through the root manager.
func (m *Machine) OpLookup(t *rapid.T) {
	if len(m.Issued) == 0 || rapid.IntRange(0, 5).Draw(t, "lookupUnissued") == 0 {
		// an address that was never issued: the one after next
		s := m.drawScope(t)
		a := m.drawAcct(t, s)
		branch := uint32(rapid.IntRange(0, 1).Draw(t, "branch"))
		want := m.OracleAddr(a, branch, a.Next[branch]+uint32(rapid.IntRange(0, 2).Draw(t, "beyond")))
		if m.Tainted[want.Addr] || m.ByAddr[want.Addr] != nil {
			return
		}
		m.View(func(ns walletdb.ReadBucket) {
			ma, err := m.Mgr.Address(ns, want.Address)
			m.Case.Logf("lookup never-issued %s -> %v", want.Addr, err)
			if err == nil {
				m.Violation("address %s (scope %v account %d branch %d index %d) was never issued but the wallet knows it: %v", want.Addr,
					a.Scope, a.Num, branch, want.Index, ma.Address())
			}
		})
		return
	}
	is := m.Issued[rapid.IntRange(0, len(m.Issued)-1).Draw(t, "which")]
	m.View(func(ns walletdb.ReadBucket) {
		ma, err := m.Mgr.Address(ns, is.Address)
		m.Case.Logf("lookup %s -> %v", is.Addr, err)
		if err != nil {
			m.Violation("issued address %s (scope %v account %d branch %d index %d) is not found: %v", is.Addr, is.Acct.Scope, is.Acct.Num, is.Branch, is.Index, err)
		}
		m.checkManaged("lookup", ma, is)
		m.checkPriv("lookup", ma, is)
		if ma.Used(ns) != is.Used {
			m.Violation("address %s used flag %v, expected %v", is.Addr, ma.Used(ns), is.Used)
		}
	})
	m.N["lookup"]++
}

// OpDerivePath derives an address by path (with and without the key cache).
func (m *Machine) OpDerivePath(t *rapid.T) {
	s := m.drawScope(t)
	a := m.drawAcct(t, s)
	branch := uint32(rapid.IntRange(0, 1).Draw(t, "branch"))
	index := uint32(rapid.IntRange(0, 12).Draw(t, "index"))
	want := m.OracleAddr(a, branch, index)
	kp := waddrmgr.DerivationPath{InternalAccount: a.Num, Account: a.Key.ChildNum, Branch: branch, Index: index, MasterKeyFingerprint: a.MasterFP}
	useCache := rapid.Bool().Draw(t, "useCache")
	if useCache {
		priv, err := m.scoped(s.Scope).DeriveFromKeyPathCache(kp)
		m.Case.Logf("derive-by-path(cache) scope=%v acct=%d %d/%d locked=%v -> err=%v", s.Scope, a.Num, branch, index, m.Locked, err)
		if m.privOK(a) {
			if err != nil {
				if isMgrErr(err, waddrmgr.ErrAccountNotCached) {
					return
				}
				m.Violation("DeriveFromKeyPathCache(scope %v account %d %d/%d) failed while unlocked: %v", s.Scope, a.Num, branch, index, err)
			}
			if !bytes.Equal(priv.Serialize(), want.Priv) {
				m.Violation("DeriveFromKeyPathCache(scope %v account %d %d/%d) returned a key that is not the seed's child", s.Scope, a.Num, branch, index)
			}
			m.N["derive-cache-ok"]++
			return
		}
		if err == nil {
			m.failDerivedWhileLocked(s, a, branch, index, priv, want)
		}
		m.N["derive-cache-refused"]++
		return
	}
	m.View(func(ns walletdb.ReadBucket) {
		ma, err := m.scoped(s.Scope).DeriveFromKeyPath(ns, kp)
		m.Case.Logf("derive-by-path scope=%v acct=%d %d/%d locked=%v -> err=%v", s.Scope, a.Num, branch, index, m.Locked, err)
		if err != nil {
			m.Violation("DeriveFromKeyPath(scope %v account %d %d/%d) failed: %v", s.Scope, a.Num, branch, index, err)
		}
		if ma.Address().EncodeAddress() != want.Addr {
			m.Violation("DeriveFromKeyPath(scope %v account %d %d/%d) = %s, derivation from the seed gives %s", s.Scope, a.Num, branch, index,
				ma.Address().EncodeAddress(), want.Addr)
		}
		m.checkPriv("derive-by-path", ma, want)
		// an address object handed out while locked is kept: once the manager
		// is unlocked the same object must give access to the seed's key (it
		// is queued for derivation at the next Unlock)
		if m.Locked && len(m.Held) < 8 {
			m.Held = append(m.Held, HeldAddr{MA: ma, Is: want})
			m.N["held-derived-while-locked"]++
		}
	})
	m.N["derive-path"]++
}

// failDerivedWhileLocked is the C05 "derivation by path fails while locked"
// violation (known finding F1 when listed as open).
func (m *Machine) failDerivedWhileLocked(s *ScopeModel, a *AcctModel, branch, index uint32, priv *btcec.PrivateKey, want *Issued) {
	if m.KnownF1 != nil && m.KnownF1() {
		return
	}
	m.Violation("DeriveFromKeyPathCache(scope %v account %d %d/%d) returned a private key (matches seed child: %v) while locked=%v watch-only=%v", s.Scope, a.Num,
		branch, index, want.Priv != nil && bytes.Equal(priv.Serialize(), want.Priv), m.Locked, m.WatchOnly || a.WatchOnly)
}

// OpMarkUsed marks an issued address used.
func (m *Machine) OpMarkUsed(t *rapid.T) {
	if len(m.Issued) == 0 {
		return
	}
	is := m.Issued[rapid.IntRange(0, len(m.Issued)-1).Draw(t, "which")]
	err, committed := m.Tx(m.takeFate(), func(ns walletdb.ReadWriteBucket) error { return m.Mgr.MarkUsed(ns, is.Address) })
	m.Case.Logf("mark-used %s -> %v", is.Addr, err)
	if err != nil {
		m.Violation("MarkUsed(%s) failed: %v", is.Addr, err)
	}
	if committed {
		is.Used = true
		m.N["mark-used"]++
	}
}

// OpLock locks the manager.
func (m *Machine) OpLock(t *rapid.T) {
	err := m.Mgr.Lock()
	m.Case.Logf("lock (was locked=%v) -> %v", m.Locked, err)
	switch {
	case m.WatchOnly:
		if !isMgrErr(err, waddrmgr.ErrWatchingOnly) {
			m.Violation("Lock on a watching-only manager returned %v", err)
		}
	case m.Locked:
		if !isMgrErr(err, waddrmgr.ErrLocked) {
			m.Violation("Lock on a locked manager returned %v", err)
		}
	default:
		if err != nil {
			m.Violation("Lock failed: %v", err)
		}
		m.Locked = true
		m.N["lock"]++
		if m.N["privkey-ok"] > 0 {
			m.N["lock-after-privkey-access"]++
		}
		m.afterLockTransition("explicit lock")
	}
}

func (m *Machine) nearMiss(t *rapid.T, right []byte) ([]byte, string) {
	switch rapid.IntRange(0, 5).Draw(t, "missKind") {
	case 0:
		b := append([]byte(nil), right...)
		i := rapid.IntRange(0, len(b)*8-1).Draw(t, "bit")
		b[i/8] ^= 1 << uint(i%8)
		return b, "one-bit"
	case 1:
		return append([]byte(nil), right[:len(right)-1]...), "truncated"
	case 2:
		return append(append([]byte(nil), right...), byte(rapid.IntRange(1, 255).Draw(t, "extra"))), "extended" // a trailing 0x00 is HMAC-equivalent (finding F8, owned by C17)
	case 3:
		return []byte{}, "empty"
	case 4:
		b := bytes.ToUpper(right)
		if bytes.Equal(b, right) {
			b = bytes.ToLower(right)
		}
		if bytes.Equal(b, right) {
			b = append(b, 'x')
		}
		return b, "case"
	default:
		return []byte(rapid.StringMatching(`[a-z]{1,10}`).Draw(t, "other") + "#"), "other"
	}
}

// OpUnlock unlocks with the right or a wrong passphrase.
func (m *Machine) OpUnlock(t *rapid.T) {
	right := rapid.IntRange(0, 2).Draw(t, "rightPass") > 0
	pass := append([]byte(nil), m.PrivPass...)
	kind := "right"
	if !right {
		pass, kind = m.nearMiss(t, m.PrivPass)
		if bytes.Equal(pass, m.PrivPass) {
			right = true
			kind = "right"
		}
	}
	var err error
	m.View(func(ns walletdb.ReadBucket) { err = m.Mgr.Unlock(ns, pass) })
	m.Case.Logf("unlock %s (was locked=%v) -> %v", kind, m.Locked, err)
	switch {
	case m.WatchOnly:
		if err == nil {
			m.Violation("Unlock succeeded on a watching-only manager")
		}
	case right:
		if err != nil {
			if m.KnownF7 != nil && m.KnownF7(err) {
				m.Locked = true
				return
			}
			m.Violation("Unlock with the current private passphrase failed: %v", err)
		}
		if m.Mgr.IsLocked() {
			m.Violation("Unlock succeeded but the manager reports locked")
		}
		if m.Locked {
			m.N["unlock"]++
		}
		m.Locked = false
	default:
		if err == nil {
			m.Violation("Unlock succeeded with a wrong passphrase (%s near miss)", kind)
		}
		if !isMgrErr(err, waddrmgr.ErrWrongPassphrase) {
			m.Violation("Unlock with a wrong passphrase failed with %v, expected ErrWrongPassphrase", err)
		}
		if !m.Mgr.IsLocked() {
			m.Violation("a failed Unlock left the manager unlocked")
		}
		if !m.Locked {
			m.N["wrong-unlock-while-unlocked"]++
		}
		m.Locked = true
		m.N["wrong-unlock"]++
		m.afterLockTransition("failed unlock")
	}
}

// OpChangePassFault: a passphrase change whose k-th database write fails. The
// call returns the error, the transaction is rolled back, and the current
// passphrases are the old ones: the private one still unlocks (and the
// attempted one does not), a fresh Open still takes the public one.
func (m *Machine) OpChangePassFault(t *rapid.T) {
	if m.WatchOnly {
		return
	}
	private := rapid.Bool().Draw(t, "private")
	cur := m.PubPass
	if private {
		cur = m.PrivPass
	}
	newPass := []byte("f-" + rapid.StringMatching(`[A-Za-z0-9]{1,8}`).Draw(t, "newPass"))
	k := rapid.IntRange(1, 4).Draw(t, "failWrite")
	m.DB.FailAt = k
	injectedBefore := m.DB.Injected
	err, committed := m.Tx(Commit, func(ns walletdb.ReadWriteBucket) error {
		return m.Mgr.ChangePassphrase(ns, append([]byte(nil), cur...), newPass, private, &waddrmgr.DefaultScryptOptions)
	})
	m.DB.FailAt = 0
	injected := m.DB.Injected > injectedBefore
	m.Case.Logf("change-passphrase private=%v new=%q with write #%d failing (injected=%v) locked=%v -> %v", private, newPass, k, injected, m.Locked, err)
	if !injected {
		// the operation has fewer writes: it went through
		if err != nil || !committed {
			m.Violation("ChangePassphrase(private=%v) with the right old passphrase failed: %v", private, err)
		}
		if private {
			m.PrivPass = newPass
		} else {
			m.PubPass = newPass
		}
		return
	}
	if err == nil {
		m.Violation("write #%d of ChangePassphrase(private=%v) failed but the call reported success", k, private)
	}
	if m.Mgr.IsLocked() != m.Locked {
		m.Violation("a failed ChangePassphrase changed the lock state: manager locked=%v, expected %v", m.Mgr.IsLocked(), m.Locked)
	}
	m.N["passphrase-change-write-fault"]++
	if private {
		var uerr error
		if !bytes.Equal(newPass, m.PrivPass) {
			// (the attempted passphrase can coincide with the current one)
			m.View(func(ns walletdb.ReadBucket) { uerr = m.Mgr.Unlock(ns, append([]byte(nil), newPass...)) })
			if uerr == nil {
				m.Violation("after a failed private passphrase change the attempted passphrase %q unlocks", newPass)
			}
			m.Locked = true
			m.afterLockTransition("failed unlock (attempted passphrase of a failed change)")
		}
		m.View(func(ns walletdb.ReadBucket) { uerr = m.Mgr.Unlock(ns, append([]byte(nil), m.PrivPass...)) })
		m.Case.Logf("  unlock with the current private passphrase -> %v", uerr)
		if uerr != nil && !(m.KnownF7 != nil && m.KnownF7(uerr)) {
			m.Violation("after a failed (rolled-back) private passphrase change the current private passphrase no longer unlocks: %v", uerr)
		}
		if uerr == nil {
			m.Locked = false
		}
		return
	}
	m.View(func(ns walletdb.ReadBucket) {
		mgr, err := waddrmgr.Open(ns, m.PubPass, m.Params)
		if err != nil {
			m.Violation("after a failed (rolled-back) public passphrase change the current public passphrase no longer opens the manager: %v", err)
		}
		mgr.Close()
	})
}

// OpChangePass changes the public or private passphrase.
func (m *Machine) OpChangePass(t *rapid.T) {
	private := rapid.Bool().Draw(t, "private")
	cur := m.PubPass
	if private {
		cur = m.PrivPass
	}
	old := append([]byte(nil), cur...)
	rightOld := rapid.IntRange(0, 3).Draw(t, "rightOld") > 0
	if !rightOld {
		old, _ = m.nearMiss(t, cur)
		rightOld = bytes.Equal(old, cur)
	}
	newPass := []byte(rapid.StringMatching(`[A-Za-z0-9]{1,10}`).Draw(t, "newPass"))
	err, committed := m.Tx(Commit, func(ns walletdb.ReadWriteBucket) error {
		return m.Mgr.ChangePassphrase(ns, old, newPass, private, &waddrmgr.DefaultScryptOptions)
	})
	m.Case.Logf("change-passphrase private=%v rightOld=%v new=%q locked=%v -> %v", private, rightOld, newPass, m.Locked, err)
	switch {
	case private && m.WatchOnly:
		if !isMgrErr(err, waddrmgr.ErrWatchingOnly) {
			m.Violation("changing the private passphrase of a watching-only manager returned %v", err)
		}
	case !rightOld:
		if !isMgrErr(err, waddrmgr.ErrWrongPassphrase) {
			m.Violation("ChangePassphrase with a wrong old passphrase returned %v", err)
		}
	default:
		if err != nil {
			m.Violation("ChangePassphrase(private=%v) with the right old passphrase failed: %v", private, err)
		}
		if committed {
			oldCopy := append([]byte(nil), cur...)
			if private {
				m.PrivPass = newPass
			} else {
				m.PubPass = newPass
			}
			m.N["passphrase-change"]++
			// immediate follow-ups, in a drawn order: the new passphrase works at
			// once (also on a manager that is still unlocked), the old one fails
			switch rapid.IntRange(0, 2).Draw(t, "afterChange") {
			case 0:
				if !bytes.Equal(oldCopy, newPass) {
					m.checkOldPassphraseFails(private, oldCopy)
				}
			case 1:
				if private && !m.WatchOnly {
					var uerr error
					m.View(func(ns walletdb.ReadBucket) { uerr = m.Mgr.Unlock(ns, m.PrivPass) })
					m.Case.Logf("  unlock with the NEW private passphrase (was locked=%v) -> %v", m.Locked, uerr)
					if uerr != nil && !(m.KnownF7 != nil && m.KnownF7(uerr)) {
						m.Violation("the new private passphrase does not unlock right after ChangePassphrase (manager was locked=%v): %v", m.Locked, uerr)
					}
					if uerr == nil {
						m.Locked = false
					} else {
						m.Locked = true
					}
					if m.Mgr.IsLocked() != m.Locked {
						m.Violation("after Unlock with the new passphrase the manager reports locked=%v", m.Mgr.IsLocked())
					}
				}
				if !bytes.Equal(oldCopy, newPass) {
					m.checkOldPassphraseFails(private, oldCopy)
				}
			default:
			}
		}
	}
	if m.Mgr.IsLocked() != m.Locked && !m.WatchOnly {
		m.Violation("ChangePassphrase changed the lock state: manager locked=%v, expected %v", m.Mgr.IsLocked(), m.Locked)
	}
}

// checkOldPassphraseFails: after a change the old passphrase fails at once.
func (m *Machine) checkOldPassphraseFails(private bool, old []byte) {
	if private {
		if m.WatchOnly {
			return
		}
		wasLocked := m.Locked
		var err error
		m.View(func(ns walletdb.ReadBucket) { err = m.Mgr.Unlock(ns, old) })
		m.Case.Logf("  unlock with the OLD private passphrase -> %v", err)
		if err == nil {
			m.Violation("the old private passphrase still unlocks after ChangePassphrase")
		}
		m.Locked = true
		if !m.Mgr.IsLocked() {
			m.Violation("failed Unlock with the old passphrase left the manager unlocked")
		}
		m.afterLockTransition("failed unlock (old passphrase)")
		if !wasLocked {
			// bring it back to the unlocked state with the new passphrase
			m.View(func(ns walletdb.ReadBucket) { err = m.Mgr.Unlock(ns, m.PrivPass) })
			m.Case.Logf("  unlock with the NEW private passphrase -> %v", err)
			if err != nil {
				if m.KnownF7 != nil && m.KnownF7(err) {
					return
				}
				m.Violation("the new private passphrase does not unlock right after ChangePassphrase: %v", err)
			}
			m.Locked = false
		}
		return
	}
	// public: a fresh Open with the old passphrase must fail, with the new one succeed
	m.View(func(ns walletdb.ReadBucket) {
		if mgr, err := waddrmgr.Open(ns, old, m.Params); err == nil {
			mgr.Close()
			m.Violation("the old public passphrase still opens the manager after ChangePassphrase")
		}
		mgr, err := waddrmgr.Open(ns, m.PubPass, m.Params)
		if err != nil {
			m.Violation("the new public passphrase does not open the manager: %v", err)
		}
		mgr.Close()
	})
}

// OpNewAccount creates a new account in a scope.
func (m *Machine) OpNewAccount(t *rapid.T, fate Fate) {
	s := m.drawScope(t)
	name := rapid.StringMatching(`[a-z]{1,6}`).Draw(t, "acctName")
	dup := false
	for _, a := range s.Accounts {
		if a.Name == name {
			dup = true
		}
	}
	if name == "imported" || name == "default" {
		dup = true
	}
	var num uint32
	err, committed := m.Tx(fate, func(ns walletdb.ReadWriteBucket) error {
		var err error
		num, err = m.scoped(s.Scope).NewAccount(ns, name)
		return err
	})
	m.Case.Logf("new-account scope=%v name=%q locked=%v fate=%v -> %d, %v", s.Scope, name, m.Locked, fate, num, err)
	switch {
	case m.WatchOnly:
		if !isMgrErr(err, waddrmgr.ErrWatchingOnly) {
			m.Violation("NewAccount on a watching-only manager returned %v", err)
		}
	case m.Locked:
		if !isMgrErr(err, waddrmgr.ErrLocked) {
			m.Violation("NewAccount while locked returned %v (account %d), expected a locked error", err, num)
		}
		m.N["new-account-refused-locked"]++
	case dup:
		if err == nil {
			m.Violation("NewAccount with the existing name %q succeeded", name)
		}
	default:
		if err != nil {
			m.Violation("NewAccount(%q) while unlocked failed: %v", name, err)
		}
		if num != s.LastAcct+1 {
			m.Violation("NewAccount returned number %d, expected %d", num, s.LastAcct+1)
		}
		if !committed {
			// the number stays free: the next account of this scope, of
			// whatever kind, gets it
			m.rolledBackAcctScope = s
		}
		if committed {
			k, kerr := s.Keys.AccountLater(num)
			if kerr != nil {
				m.Inconclusive("oracle: invalid child")
			}
			s.Accounts[num] = &AcctModel{Scope: s.Scope, Num: num, Name: name, Key: k.Stored(), ExtKind: s.ExtKind, IntKind: s.IntKind}
			s.LastAcct = num
			m.N["new-account"]++
		}
	}
}

// OpNewWatchOnlyAccount imports an extended public key derived from the second seed.
func (m *Machine) OpNewWatchOnlyAccount(t *rapid.T, fate Fate) {
	s := m.drawScope(t)
	if m.rolledBackAcctScope != nil && rapid.Bool().Draw(t, "reuseRolledBackNumber") {
		// take the number a rolled-back account creation left behind
		s = m.rolledBackAcctScope
	}
	m.rolledBackAcctScope = nil
	name := "w" + rapid.StringMatching(`[a-z]{1,5}`).Draw(t, "acctName")
	for _, a := range s.Accounts {
		if a.Name == name {
			return
		}
	}
	// account key of the second seed at m/purpose'/coin'/k'
	sk, err := bip32ref.DeriveScope(m.Master2, bip32ref.Scope{Purpose: s.Scope.Purpose, Coin: s.Scope.Coin})
	if err != nil {
		return
	}
	k := uint32(rapid.IntRange(0, 5).Draw(t, "srcAcct"))
	ak, err := sk.CoinType.Stored().Child(k + bip32ref.Hardened)
	if err != nil {
		return
	}
	pub := ak.Neuter()
	_, xpub := pub.Serialize(m.Params.HDPublicKeyID)
	for _, a := range s.Accounts {
		if a.XPub == xpub {
			return // importing the same key twice collides on addresses; not part of the property
		}
	}
	hk, err := hdkeychain.NewKeyFromString(xpub)
	if err != nil {
		m.Inconclusive("oracle xpub does not parse: %v", err)
	}
	fp := uint32(rapid.IntRange(0, 1<<30).Draw(t, "fingerprint"))
	var override *waddrmgr.ScopeAddrSchema
	extKind, intKind := s.ExtKind, s.IntKind
	if rapid.IntRange(0, 2).Draw(t, "schemaOverride") == 0 {
		sch := rapid.SampledFrom([]waddrmgr.ScopeAddrSchema{
			waddrmgr.KeyScopeBIP0049AddrSchema,
			{ExternalAddrType: waddrmgr.WitnessPubKey, InternalAddrType: waddrmgr.WitnessPubKey},
			{ExternalAddrType: waddrmgr.NestedWitnessPubKey, InternalAddrType: waddrmgr.WitnessPubKey},
		}).Draw(t, "override")
		override = &sch
		extKind, intKind = kindOf(sch.ExternalAddrType), kindOf(sch.InternalAddrType)
	}
	var num uint32
	err, committed := m.Tx(fate, func(ns walletdb.ReadWriteBucket) error {
		var err error
		num, err = m.scoped(s.Scope).NewAccountWatchingOnly(ns, name, hk, fp, override)
		return err
	})
	m.Case.Logf("new-watch-only-account scope=%v name=%q src=%d override=%v fate=%v -> %d, %v", s.Scope, name, k, override != nil, fate, num, err)
	if err != nil {
		m.Violation("NewAccountWatchingOnly failed: %v", err)
	}
	if num != s.LastAcct+1 {
		m.Violation("NewAccountWatchingOnly returned number %d, expected %d", num, s.LastAcct+1)
	}
	if committed {
		s.Accounts[num] = &AcctModel{Scope: s.Scope, Num: num, Name: name, Key: pub, WatchOnly: true, ExtKind: extKind, IntKind: intKind,
			Override: override, MasterFP: fp, XPub: xpub}
		s.LastAcct = num
		m.N["imported-account"]++
	}
}

// OpRename renames an account.
func (m *Machine) OpRename(t *rapid.T) {
	s := m.drawScope(t)
	a := m.drawAcct(t, s)
	name := rapid.StringMatching(`[a-z]{1,6}`).Draw(t, "newName") + "r"
	for _, o := range s.Accounts {
		if o.Name == name {
			return
		}
	}
	err, committed := m.Tx(m.takeFate(), func(ns walletdb.ReadWriteBucket) error { return m.scoped(s.Scope).RenameAccount(ns, a.Num, name) })
	m.Case.Logf("rename scope=%v acct=%d %q -> %q: %v", s.Scope, a.Num, a.Name, name, err)
	if err != nil {
		m.Violation("RenameAccount failed: %v", err)
	}
	if committed {
		a.Name = name
		m.N["rename"]++
	}
}

// OpInvalidate drops the cached state of one account, as the wallet does after
// a rolled-back recovery batch and after a dry-run account import
// (ScopedKeyManager.InvalidateAccountCache: "forcing a database read"). It
// changes nothing a caller may observe, so the model stays as it is.
func (m *Machine) OpInvalidate(t *rapid.T) {
	s := m.drawScope(t)
	a := m.drawAcct(t, s)
	m.scoped(s.Scope).InvalidateAccountCache(a.Num)
	m.Case.Logf("invalidate-account-cache scope=%v acct=%d", s.Scope, a.Num)
	m.N["invalidate"]++
}

func (m *Machine) nextWIF(t *rapid.T, compressed bool) *btcutil.WIF {
	m.wifPool++
	raw := make([]byte, 32)
	raw[0] = 0x11
	raw[1] = byte(m.wifPool)
	copy(raw[2:], chainhash.HashB(append([]byte("verif-wif"), m.Seed...))[:30])
	priv, _ := btcec.PrivKeyFromBytes(raw)
	wif, err := btcutil.NewWIF(priv, m.Params, compressed)
	if err != nil {
		m.Inconclusive("NewWIF: %v", err)
	}
	return wif
}

// OpImportKey imports a private key.
func (m *Machine) OpImportKey(t *rapid.T) {
	s := m.drawScope(t)
	compressed := true
	if s.ExtKind == bip32ref.P2PKH {
		compressed = rapid.Bool().Draw(t, "compressed")
	}
	wif := m.nextWIF(t, compressed)
	var ma waddrmgr.ManagedPubKeyAddress
	err, committed := m.Tx(m.takeFate(), func(ns walletdb.ReadWriteBucket) error {
		var err error
		ma, err = m.scoped(s.Scope).ImportPrivateKey(ns, wif, m.importStamp())
		return err
	})
	m.Case.Logf("import-key scope=%v compressed=%v locked=%v -> %v", s.Scope, compressed, m.Locked, err)
	if m.Locked && !m.WatchOnly {
		if !isMgrErr(err, waddrmgr.ErrLocked) {
			m.Violation("ImportPrivateKey while locked returned %v, expected a locked error", err)
		}
		m.N["import-refused-locked"]++
		return
	}
	if err != nil {
		m.Violation("ImportPrivateKey failed: %v", err)
	}
	if !committed {
		return
	}
	want, aerr := bip32ref.Address(wif.SerializePubKey(), s.ExtKind, m.Params)
	if aerr != nil {
		m.Inconclusive("oracle address: %v", aerr)
	}
	if !compressed {
		want, _ = btcutil.NewAddressPubKeyHash(btcutil.Hash160(wif.SerializePubKey()), m.Params)
	}
	if ma.Address().EncodeAddress() != want.EncodeAddress() {
		m.Violation("imported key: address %s, expected %s", ma.Address().EncodeAddress(), want.EncodeAddress())
	}
	imp := &Imported{Scope: s.Scope, Addr: want.EncodeAddress(), Address: want, WIF: wif, Kind: "wif", Compressed: compressed}
	m.Imports = append(m.Imports, imp)
	m.N["import-key"]++
}

// OpImportPubKey imports a public key without its private key (allowed in
// every lock state): the address is the key's address in the scope's external
// format and never yields a private key.
func (m *Machine) OpImportPubKey(t *rapid.T) {
	s := m.drawScope(t)
	wif := m.nextWIF(t, true)
	pub := wif.PrivKey.PubKey()
	var ma waddrmgr.ManagedAddress
	err, committed := m.Tx(m.takeFate(), func(ns walletdb.ReadWriteBucket) error {
		var err error
		ma, err = m.scoped(s.Scope).ImportPublicKey(ns, pub, m.importStamp())
		return err
	})
	m.Case.Logf("import-pubkey scope=%v locked=%v -> %v", s.Scope, m.Locked, err)
	if err != nil {
		m.Violation("ImportPublicKey failed: %v", err)
	}
	if !committed {
		return
	}
	want, aerr := bip32ref.Address(pub.SerializeCompressed(), s.ExtKind, m.Params)
	if aerr != nil {
		m.Inconclusive("oracle address: %v", aerr)
	}
	if ma.Address().EncodeAddress() != want.EncodeAddress() {
		m.Violation("imported public key: address %s, expected %s", ma.Address().EncodeAddress(), want.EncodeAddress())
	}
	m.Imports = append(m.Imports, &Imported{Scope: s.Scope, Addr: want.EncodeAddress(), Address: want, Script: pub.SerializeCompressed(), Kind: "pubkey", Compressed: true})
	m.N["import-pubkey"]++
}

// OpImportScript imports a P2SH or witness script.
func (m *Machine) OpImportScript(t *rapid.T) {
	s := m.drawScope(t)
	kind := rapid.SampledFrom([]string{"p2sh", "p2wsh-secret", "p2wsh-public"}).Draw(t, "scriptKind")
	m.wifPool++
	k1 := m.nextWIF(t, true)
	script, err := txscript.NewScriptBuilder().AddData(k1.SerializePubKey()).AddOp(txscript.OP_CHECKSIG).Script()
	if err != nil {
		m.Inconclusive("script: %v", err)
	}
	var ma waddrmgr.ManagedScriptAddress
	secret := kind != "p2wsh-public"
	opErr, committed := m.Tx(m.takeFate(), func(ns walletdb.ReadWriteBucket) error {
		var err error
		if kind == "p2sh" {
			ma, err = m.scoped(s.Scope).ImportScript(ns, script, m.importStamp())
		} else {
			ma, err = m.scoped(s.Scope).ImportWitnessScript(ns, script, m.importStamp(), 0, secret)
		}
		return err
	})
	m.Case.Logf("import-script scope=%v kind=%s locked=%v -> %v", s.Scope, kind, m.Locked, opErr)
	if m.Locked && !m.WatchOnly && secret {
		if opErr == nil {
			m.Violation("importing a secret script while locked succeeded")
		}
		if !isMgrErr(opErr, waddrmgr.ErrLocked) {
			m.Violation("importing a secret script while locked returned %v, expected a locked error", opErr)
		}
		m.N["import-refused-locked"]++
		return
	}
	if opErr != nil {
		if m.Locked && !secret {
			// the statement is silent about non-secret scripts while locked
			return
		}
		m.Violation("importing a %s script failed: %v", kind, opErr)
	}
	if !committed {
		return
	}
	var want btcutil.Address
	if kind == "p2sh" {
		want, _ = btcutil.NewAddressScriptHash(script, m.Params)
	} else {
		h := chainhash.HashB(script)
		h2 := sha256sum(script)
		_ = h
		want, _ = btcutil.NewAddressWitnessScriptHash(h2, m.Params)
	}
	if ma.Address().EncodeAddress() != want.EncodeAddress() {
		m.Violation("imported script: address %s, expected %s", ma.Address().EncodeAddress(), want.EncodeAddress())
	}
	m.Imports = append(m.Imports, &Imported{Scope: s.Scope, Addr: want.EncodeAddress(), Address: want, Script: script, Secret: secret, Kind: kind})
	m.N["import-script"]++
}

// OpSetSyncedTo moves the sync stamp.
func (m *Machine) OpSetSyncedTo(t *rapid.T, fate Fate) {
	// forward one block at a time (as the wallet does once it follows the
	// chain), backward by up to three (a reorg)
	h := m.SyncedTo.Height + int32(rapid.SampledFrom([]int{1, 1, 1, 1, 0, -1, -2, -3}).Draw(t, "syncDelta"))
	if h < 0 {
		h = 0
	}
	var hash chainhash.Hash
	hash[0], hash[1], hash[2] = byte(h), byte(h>>8), byte(rapid.IntRange(0, 255).Draw(t, "fork"))
	bs := waddrmgr.BlockStamp{Height: h, Hash: hash, Timestamp: m.Birthday.Add(0)}
	err, committed := m.Tx(fate, func(ns walletdb.ReadWriteBucket) error { return m.Mgr.SetSyncedTo(ns, &bs) })
	m.Case.Logf("set-synced-to h=%d fork=%d [%v] -> %v", h, hash[2], fate, err)
	if err != nil {
		m.Violation("SetSyncedTo failed: %v", err)
	}
	if committed {
		m.SyncedTo = bs
	} else {
		m.N["set-synced-to-rolled-back"]++
	}
}

// AdvanceSync connects n more blocks (committed), so that the sync point has
// remembered hashes behind it.
func (m *Machine) AdvanceSync(n int) {
	for i := 0; i < n; i++ {
		h := m.SyncedTo.Height + 1
		var hash chainhash.Hash
		hash[0], hash[1], hash[2] = byte(h), byte(h>>8), 0xad
		bs := waddrmgr.BlockStamp{Height: h, Hash: hash, Timestamp: m.Birthday.Add(0)}
		err, committed := m.Tx(Commit, func(ns walletdb.ReadWriteBucket) error { return m.Mgr.SetSyncedTo(ns, &bs) })
		if err != nil || !committed {
			m.Violation("SetSyncedTo(%d) failed: %v", h, err)
		}
		m.SyncedTo = bs
	}
	if n > 0 {
		m.Case.Logf("sync point advanced by %d blocks to %d", n, m.SyncedTo.Height)
	}
}

// OpNewScope creates a custom key scope.
func (m *Machine) OpNewScope(t *rapid.T) {
	sc := waddrmgr.KeyScope{Purpose: uint32(1000 + rapid.IntRange(0, 3).Draw(t, "purpose")), Coin: uint32(rapid.IntRange(0, 2).Draw(t, "coin"))}
	if m.Scopes[sc] != nil {
		return
	}
	types := []waddrmgr.AddressType{waddrmgr.PubKeyHash, waddrmgr.NestedWitnessPubKey, waddrmgr.WitnessPubKey, waddrmgr.TaprootPubKey}
	schema := waddrmgr.ScopeAddrSchema{
		ExternalAddrType: rapid.SampledFrom(types).Draw(t, "extType"),
		InternalAddrType: rapid.SampledFrom(types).Draw(t, "intType"),
	}
	err, committed := m.Tx(m.takeFate(), func(ns walletdb.ReadWriteBucket) error {
		_, err := m.Mgr.NewScopedKeyManager(ns, sc, schema)
		return err
	})
	m.Case.Logf("new-scope %v schema=%+v locked=%v -> %v", sc, schema, m.Locked, err)
	switch {
	case m.WatchOnly:
		// creating scopes on watching-only managers is not part of the property
		if err == nil && committed {
			m.Inconclusive("custom scope created on a watching-only manager; not modelled")
		}
	case m.Locked:
		if !isMgrErr(err, waddrmgr.ErrLocked) {
			m.Violation("NewScopedKeyManager while locked returned %v, expected a locked error", err)
		}
		m.N["new-scope-refused-locked"]++
	default:
		if err != nil {
			m.Violation("NewScopedKeyManager failed: %v", err)
		}
		if committed {
			m.addScopeModel(sc, schema, true)
			m.N["custom-scope"]++
		}
	}
}

func sha256sum(b []byte) []byte {
	h := chainhash.HashB(b) // single sha256
	return h
}

var _ = fmt.Sprintf

// importStamp is the block stamp passed with imports: callers always pass a
// non-nil stamp; the current sync height leaves the start block alone.
func (m *Machine) importStamp() *waddrmgr.BlockStamp {
	bs := m.SyncedTo
	bs.Height += 1000
	return &bs
}

// OpDeriveBurst derives 2-5 distinct paths of one account through the key
// cache (as a signer does), so that several derived keys sit in the cache when
// the manager is locked next.
func (m *Machine) OpDeriveBurst(t *rapid.T) {
	s := m.drawScope(t)
	a := m.drawAcct(t, s)
	n := rapid.IntRange(2, 5).Draw(t, "burst")
	for i := 0; i < n; i++ {
		branch := uint32(rapid.IntRange(0, 1).Draw(t, "branch"))
		index := uint32(rapid.IntRange(0, 20).Draw(t, "index"))
		want := m.OracleAddr(a, branch, index)
		kp := waddrmgr.DerivationPath{InternalAccount: a.Num, Account: a.Key.ChildNum, Branch: branch, Index: index, MasterKeyFingerprint: a.MasterFP}
		priv, err := m.scoped(s.Scope).DeriveFromKeyPathCache(kp)
		m.Case.Logf("derive-burst(cache) scope=%v acct=%d %d/%d locked=%v -> err=%v", s.Scope, a.Num, branch, index, m.Locked, err)
		if m.privOK(a) {
			if err != nil {
				if isMgrErr(err, waddrmgr.ErrAccountNotCached) {
					// load the account, then the cache path works
					m.View(func(ns walletdb.ReadBucket) { m.scoped(s.Scope).AccountProperties(ns, a.Num) })
					continue
				}
				m.Violation("DeriveFromKeyPathCache(scope %v account %d %d/%d) failed while unlocked: %v", s.Scope, a.Num, branch, index, err)
			}
			if !bytes.Equal(priv.Serialize(), want.Priv) {
				m.Violation("DeriveFromKeyPathCache(scope %v account %d %d/%d) returned a key that is not the seed's child", s.Scope, a.Num, branch, index)
			}
			m.N["derive-cache-ok"]++
			continue
		}
		if err == nil {
			m.failDerivedWhileLocked(s, a, branch, index, priv, want)
		}
		m.N["derive-cache-refused"]++
	}
}

package mgrsim

import (
	"sort"

	"pgregory.net/rapid"
)

// Run executes a drawn sequence of operations with the given weights; after
// every step `check` runs. Operations that can run inside a rolled-back
// transaction draw their fate when rollbackPct > 0.
func (m *Machine) Run(t *rapid.T, weights map[string]int, minSteps, maxSteps int, rollbackPct int, check func(op string)) {
	fate := func() Fate {
		if rollbackPct > 0 && rapid.IntRange(0, 99).Draw(t, "fate") < rollbackPct {
			if rapid.Bool().Draw(t, "failedCommit") {
				return FailedCommit
			}
			return RollbackByError
		}
		return Commit
	}
	ops := map[string]func(){
		"next":            func() { m.OpNext(t, fate()) },
		"extend":          func() { m.OpExtend(t) },
		"lookup":          func() { m.OpLookup(t) },
		"derivePath":      func() { m.OpDerivePath(t) },
		"deriveBurst":     func() { m.OpDeriveBurst(t) },
		"markUsed":        func() { m.OpMarkUsed(t) },
		"lock":            func() { m.OpLock(t) },
		"unlock":          func() { m.OpUnlock(t) },
		"changePass":      func() { m.OpChangePass(t) },
		"changePassFault": func() { m.OpChangePassFault(t) },
		"newAccount":      func() { m.OpNewAccount(t, fate()) },
		"newWOAcct":       func() { m.OpNewWatchOnlyAccount(t, fate()) },
		"rename":          func() { m.OpRename(t) },
		"invalidate":      func() { m.OpInvalidate(t) },
		"importKey":       func() { m.OpImportKey(t) },
		"importScript":    func() { m.OpImportScript(t) },
		"importPubKey":    func() { m.OpImportPubKey(t) },
		"setSynced":       func() { m.OpSetSyncedTo(t, fate()) },
		"newScope":        func() { m.OpNewScope(t) },
		"convert": func() {
			// conversion to watching-only happens at most once per history
			if !m.WatchOnly {
				m.C04Convert(false)
			}
		},
		"restart": func() {
			m.Case.Logf("restart")
			m.Restart()
		},
	}
	var names []string
	for k, w := range weights {
		if ops[k] == nil {
			m.Inconclusive("unknown operation %q", k)
		}
		for i := 0; i < w; i++ {
			names = append(names, k)
		}
	}
	sort.Strings(names)
	steps := rapid.IntRange(minSteps, maxSteps).Draw(t, "steps")
	check("init")
	for i := 0; i < steps; i++ {
		name := rapid.SampledFrom(names).Draw(t, "op")
		if m.WatchOnly && !afterConversion[name] {
			// after a conversion drawn in the middle of a history only the
			// operations modelled for a watching-only manager go on
			continue
		}
		m.nextFate = Commit
		if m.ExtraFates[name] {
			m.nextFate = fate()
		}
		ops[name]()
		m.checkLockedMemory(name)
		check(name)
	}
}

// afterConversion lists the operations Run continues with on a manager that was
// converted to watching-only in the middle of a history.
var afterConversion = map[string]bool{
	"next": true, "lookup": true, "markUsed": true, "importKey": true, "importPubKey": true, "setSynced": true, "restart": true,
	"rename": true, "convert": true, "invalidate": true,
}

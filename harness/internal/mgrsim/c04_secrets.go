package mgrsim

// C04 (no secret ever reaches the database file unencrypted): the set of byte
// strings ("needles") that must not occur in the file, and a single-pass
// multi-pattern scanner. Every needle comes from the independent derivation
// oracle (bip32ref), from the generator (imported keys, scripts, passphrases)
// or from plain encodings (base58check, hex); nothing is asked of waddrmgr.

import (
	"bytes"
	"encoding/binary"
	"encoding/hex"
	"fmt"
	"strings"

	"github.com/btcsuite/btcd/btcec/v2"
	"github.com/btcsuite/btcd/btcec/v2/schnorr"
	"github.com/btcsuite/btcd/btcutil"
	"github.com/btcsuite/btcd/btcutil/base58"
	"github.com/btcsuite/btcd/chaincfg"
	"github.com/btcsuite/btcd/chaincfg/chainhash"
	"github.com/btcsuite/btcd/txscript"

	"verifharness/internal/bip32ref"
)

// MinNeedleLen is the shortest byte string that is searched for. A shorter one
// (only passphrases can be shorter) could occur by chance in ciphertext: with
// 8 bytes the chance per scanned MiB is 2^-44.
const MinNeedleLen = 8

// Needle is one byte string that must not be found.
type Needle struct {
	Class   string // statistics class ("xprv-base58", "addr-wif", ...)
	What    string // description for the failure message
	Bytes   []byte
	Private bool // private key, extended private key or passphrase
	Script  bool // secret script
	Public  bool // public material (must stay hidden until a transaction is recorded)
}

func (n *Needle) String() string {
	return fmt.Sprintf("%s [%s, %d bytes]", n.What, n.Class, len(n.Bytes))
}

// NeedleSet is a growing set of needles with a prefix index.
type NeedleSet struct {
	Params  *chaincfg.Params
	List    []*Needle
	Skipped int // needles refused because shorter than MinNeedleLen
	seen    map[string]*Needle
	idx     map[uint32][]*Needle
	pre     [1 << 10]uint64 // bit set over the first two bytes
	done    map[string]bool
	byPriv  map[string][]*Needle // needles of an address private key, for re-classing look-ahead keys once issued
}

// NewNeedleSet returns an empty set for a network.
func NewNeedleSet(params *chaincfg.Params) *NeedleSet {
	return &NeedleSet{Params: params, seen: map[string]*Needle{}, idx: map[uint32][]*Needle{}, done: map[string]bool{}, byPriv: map[string][]*Needle{}}
}

// once reports true the first time it sees key (derivations are cached).
func (s *NeedleSet) once(key string) bool {
	if s.done[key] {
		return false
	}
	s.done[key] = true
	return true
}

const (
	fPrivate = 1 << iota
	fScript
	fPublic
)

func (s *NeedleSet) add(class, what string, b []byte, flags int) {
	if len(b) < MinNeedleLen {
		s.Skipped++
		return
	}
	if old, ok := s.seen[string(b)]; ok {
		// the stronger claim wins
		if flags&fPrivate != 0 {
			old.Private = true
		}
		return
	}
	n := &Needle{Class: class, What: what, Bytes: append([]byte(nil), b...), Private: flags&fPrivate != 0, Script: flags&fScript != 0, Public: flags&fPublic != 0}
	s.seen[string(b)] = n
	s.List = append(s.List, n)
	k4 := binary.LittleEndian.Uint32(b)
	s.idx[k4] = append(s.idx[k4], n)
	k2 := uint16(b[0]) | uint16(b[1])<<8
	s.pre[k2>>6] |= 1 << (k2 & 63)
}

// Scan returns the first needle accepted by want (nil = all) that occurs in
// data, and its offset; nil when there is none.
func (s *NeedleSet) Scan(data []byte, want func(*Needle) bool) (*Needle, int) {
	for i := 0; i+4 <= len(data); i++ {
		k2 := uint16(data[i]) | uint16(data[i+1])<<8
		if s.pre[k2>>6]&(1<<(k2&63)) == 0 {
			continue
		}
		cands := s.idx[binary.LittleEndian.Uint32(data[i:])]
		for _, n := range cands {
			if want != nil && !want(n) {
				continue
			}
			if len(data)-i >= len(n.Bytes) && bytes.Equal(data[i:i+len(n.Bytes)], n.Bytes) {
				return n, i
			}
		}
	}
	return nil, -1
}

// CountByClass returns the number of needles per class.
func (s *NeedleSet) CountByClass() map[string]int {
	out := map[string]int{}
	for _, n := range s.List {
		out[n.Class]++
	}
	return out
}

// IsPrivate selects private keys, extended private keys and passphrases.
func IsPrivate(n *Needle) bool { return n.Private }

// IsSecret selects everything that must never be on disk in clear.
func IsSecret(n *Needle) bool { return n.Private || n.Script }

func pad32(b []byte) []byte {
	if len(b) >= 32 {
		return b
	}
	out := make([]byte, 32)
	copy(out[32-len(b):], b)
	return out
}

// addScalar adds a private scalar in its raw forms: 32 bytes left-padded, the
// minimal-length form when it has leading zero bytes, and lower/upper-case hex.
func (s *NeedleSet) addScalar(classPrefix, what string, priv []byte) {
	p := pad32(priv)
	s.add(classPrefix+"-raw32", what+": raw 32-byte scalar", p, fPrivate)
	if t := bytes.TrimLeft(p, "\x00"); len(t) < 32 {
		s.add(classPrefix+"-raw-minimal", what+": scalar without leading zero bytes", t, fPrivate)
	}
	h := hex.EncodeToString(p)
	s.add(classPrefix+"-hex", what+": scalar in hex", []byte(h), fPrivate)
	s.add(classPrefix+"-hex", what+": scalar in upper-case hex", bytes.ToUpper([]byte(h)), fPrivate)
}

// wifString encodes a private key in wallet import format by hand.
func wifString(priv []byte, compressed bool, params *chaincfg.Params) string {
	payload := append([]byte(nil), pad32(priv)...)
	if compressed {
		payload = append(payload, 0x01)
	}
	return base58.CheckEncode(payload, params.PrivateKeyID)
}

// AddExtKey adds every form of an extended key: for a private key the scalar,
// the 78-byte serialisation and the base58 string under the network's private
// version; always the public forms (33-byte key, chain code, 78-byte
// serialisation and base58 string under the public version).
func (s *NeedleSet) AddExtKey(what string, k *bip32ref.Key) {
	if !s.once(fmt.Sprintf("ext:%v:", k.Priv != nil) + string(k.Pub) + string(k.Chain)) {
		return
	}
	if k.Priv != nil {
		s.addScalar("xprv", what+" (extended private key)", k.Priv)
		raw, str := k.Serialize(s.Params.HDPrivateKeyID)
		s.add("xprv-serialized78", what+": 78-byte extended private key serialisation", raw, fPrivate)
		s.add("xprv-base58", what+": extended private key string", []byte(str), fPrivate)
	}
	raw, str := k.Neuter().Serialize(s.Params.HDPublicKeyID)
	s.add("xpub-key33", what+": 33-byte public key of the extended key", k.Pub, fPublic)
	s.add("xpub-chaincode", what+": chain code", k.Chain, fPublic)
	s.add("xpub-serialized78", what+": 78-byte extended public key serialisation", raw, fPublic)
	s.add("xpub-base58", what+": extended public key string", []byte(str), fPublic)
}

// AddAddrPriv adds an address private key (raw forms and both WIF strings'
// compressed form; chain addresses are always compressed).
func (s *NeedleSet) AddAddrPriv(classPrefix, what string, priv []byte) {
	if !s.once("priv:" + string(priv)) {
		if classPrefix == "addr-priv" {
			// a looked-ahead key has been issued meanwhile
			for _, n := range s.byPriv[string(priv)] {
				if strings.HasPrefix(n.Class, "lookahead-priv") {
					n.Class = "addr-priv" + strings.TrimPrefix(n.Class, "lookahead-priv")
					n.What = strings.Replace(n.What, "the not yet issued address", "the (meanwhile issued) address", 1)
				}
			}
		}
		return
	}
	from := len(s.List)
	s.addScalar(classPrefix, what, priv)
	s.add(classPrefix+"-wif", what+": WIF string (compressed)", []byte(wifString(priv, true, s.Params)), fPrivate)
	s.byPriv[string(priv)] = append([]*Needle(nil), s.List[from:]...)
}

// AddPubKey adds the public forms of an issued address: compressed,
// uncompressed and x-only public key, hash160, BIP86 taproot output key,
// nested-P2WPKH script hash and the address string.
func (s *NeedleSet) AddPubKey(what string, pub33 []byte, addr string) {
	if !s.once("pub:" + string(pub33) + addr) {
		return
	}
	s.add("pubkey-compressed", what+": compressed public key", pub33, fPublic)
	s.add("pubkey-xonly", what+": x-only public key", pub33[1:], fPublic)
	h := btcutil.Hash160(pub33)
	s.add("hash160", what+": hash160 of the public key", h, fPublic)
	s.add("nested-p2wpkh-script-hash", what+": script hash of the nested P2WPKH program", btcutil.Hash160(append([]byte{0x00, 0x14}, h...)), fPublic)
	if pk, err := btcec.ParsePubKey(pub33); err == nil {
		s.add("pubkey-uncompressed", what+": uncompressed public key", pk.SerializeUncompressed(), fPublic)
		s.add("hash160-uncompressed", what+": hash160 of the uncompressed public key", btcutil.Hash160(pk.SerializeUncompressed()), fPublic)
		s.add("taproot-output-key", what+": BIP86 taproot output key", schnorr.SerializePubKey(txscript.ComputeTaprootKeyNoScript(pk)), fPublic)
	}
	if addr != "" {
		s.add("address-string", what+": address string", []byte(addr), fPublic)
	}
}

// AddImportedKey adds an imported private key: raw forms, both WIF strings,
// and the public forms.
func (s *NeedleSet) AddImportedKey(what string, wif *btcutil.WIF, addr string) {
	priv := wif.PrivKey.Serialize()
	if !s.once("import:" + string(priv)) {
		return
	}
	s.addScalar("imported-priv", what, priv)
	s.add("imported-wif", what+": WIF string as imported", []byte(wif.String()), fPrivate)
	s.add("imported-wif", what+": WIF string (compressed)", []byte(wifString(priv, true, s.Params)), fPrivate)
	s.add("imported-wif", what+": WIF string (uncompressed)", []byte(wifString(priv, false, s.Params)), fPrivate)
	s.AddPubKey("imported address "+addr, wif.PrivKey.PubKey().SerializeCompressed(), addr)
}

// AddScript adds an imported script: the script itself (a secret when it was
// imported as one, public material otherwise), its hashes and address.
func (s *NeedleSet) AddScript(what string, script []byte, secret bool, addr string) {
	if !s.once("script:" + string(script)) {
		return
	}
	if secret {
		s.add("secret-script", what+": raw script", script, fScript)
		s.add("secret-script-hex", what+": script in hex", []byte(hex.EncodeToString(script)), fScript)
	} else {
		s.add("public-script", what+": raw script (not secret)", script, fPublic)
	}
	s.add("script-hash160", what+": hash160 of the script", btcutil.Hash160(script), fPublic)
	s.add("script-sha256", what+": sha256 of the script", chainhash.HashB(script), fPublic)
	if addr != "" {
		s.add("address-string", what+": address string", []byte(addr), fPublic)
	}
}

// AddXOnly adds a 32-byte x-only public key (public material).
func (s *NeedleSet) AddXOnly(what string, x []byte) {
	s.add("pubkey-xonly", what, x, fPublic)
}

// AddPassphrase adds a passphrase (raw bytes). Passphrases shorter than
// MinNeedleLen are counted in Skipped and not searched for.
func (s *NeedleSet) AddPassphrase(class, what string, p []byte) {
	if !s.once("pass:" + class + ":" + string(p)) {
		return
	}
	s.add(class, what, p, fPrivate)
}

// LookAhead is the number of not-yet-issued indices per branch whose private
// keys are searched for as well.
const LookAhead = 3

// C04Collect adds every secret the run has produced so far (cumulative: the
// set keeps earlier passphrases and everything added before).
func (m *Machine) C04Collect(s *NeedleSet) {
	s.AddExtKey("master key m", m.Master)
	for _, sm := range m.SortedScopes() {
		sc := fmt.Sprintf("m/%d'/%d'", sm.Scope.Purpose, sm.Scope.Coin)
		s.AddExtKey(fmt.Sprintf("purpose key m/%d'", sm.Scope.Purpose), sm.Keys.Purpose)
		s.AddExtKey("coin-type key "+sc, sm.Keys.CoinType)
		for _, a := range sm.SortedAccounts() {
			an := fmt.Sprintf("account key %s/%d' (account %d %q)", sc, a.Key.ChildNum&^bip32ref.Hardened, a.Num, a.Name)
			if a.WatchOnly {
				an = fmt.Sprintf("imported account public key (scope %s account %d %q)", sc, a.Num, a.Name)
			}
			s.AddExtKey(an, a.Key)
			if a.Key.Priv == nil {
				continue
			}
			for br := uint32(0); br < 2; br++ {
				for i := a.Next[br]; i < a.Next[br]+LookAhead; i++ {
					key := fmt.Sprintf("la:%v/%d/%d/%d", sm.Scope, a.Num, br, i)
					if !s.once(key) {
						continue
					}
					o := m.OracleAddr(a, br, i)
					s.AddAddrPriv("lookahead-priv", fmt.Sprintf("private key of the not yet issued address %s/%d'/%d/%d", sc, a.Num, br, i), o.Priv)
				}
			}
		}
	}
	for _, is := range m.Issued {
		what := fmt.Sprintf("issued address %s (scope %v account %d branch %d index %d)", is.Addr, is.Acct.Scope, is.Acct.Num, is.Branch, is.Index)
		if is.Priv != nil {
			s.AddAddrPriv("addr-priv", "private key of "+what, is.Priv)
		}
		s.AddPubKey(what, is.Pub, is.Addr)
	}
	for _, im := range m.Imports {
		switch im.Kind {
		case "wif":
			s.AddImportedKey(fmt.Sprintf("imported private key of %s", im.Addr), im.WIF, im.Addr)
			// the public key in the form it was imported in
			s.add("imported-pubkey", fmt.Sprintf("public key of the imported address %s as imported", im.Addr), im.WIF.SerializePubKey(), fPublic)
			s.add("hash160", fmt.Sprintf("hash160 of the imported public key of %s", im.Addr), btcutil.Hash160(im.WIF.SerializePubKey()), fPublic)
		default:
			s.AddScript(fmt.Sprintf("imported %s script of %s", im.Kind, im.Addr), im.Script, im.Secret, im.Addr)
		}
	}
	s.AddPassphrase("passphrase-public", fmt.Sprintf("public passphrase %q", m.PubPass), m.PubPass)
	s.AddPassphrase("passphrase-private", fmt.Sprintf("private passphrase %q", m.PrivPass), m.PrivPass)
}

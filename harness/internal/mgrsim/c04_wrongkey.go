package mgrsim

// C04, second oracle: "encrypted with the wrong key". Every whole value and
// every length-prefixed field of the address-manager namespace is offered to
// adversaries that know the public passphrase but never saw the private one:
//
//   - "public-crypto-key": Manager.Decrypt(CKTPublic, blob) of a manager that
//     was opened with the public passphrase and never unlocked;
//   - "zero-key": the all-zero snacl.CryptoKey (what a crypto key is after
//     Zero());
//   - "public-master-key": the key scrypt derives from the public passphrase
//     and the stored public master-key parameters;
//   - "recovered-key": any 32-byte clear text one of the above (or a
//     recovered key) could open, used as a key in turn (a crypto key sealed
//     under a key the adversary has is as good as in the clear).
//
// Whatever any of them opens is searched for private needles.

import (
	"encoding/binary"
	"fmt"

	"github.com/btcsuite/btcd/chaincfg"
	"github.com/btcsuite/btcwallet/snacl"
	"github.com/btcsuite/btcwallet/waddrmgr"
	"github.com/btcsuite/btcwallet/walletdb"
)

// sealOverhead is nonce + authenticator: nothing shorter can be a ciphertext.
const sealOverhead = snacl.NonceSize + 16

// WrongKeyFinding is a needle found in something an adversary could open.
type WrongKeyFinding struct {
	Adversary string
	Where     string
	Needle    *Needle
	PlainLen  int
}

func (f WrongKeyFinding) String() string {
	return fmt.Sprintf("%s found in the %d-byte clear text of %s, which the adversary %q can open", f.Needle, f.PlainLen, f.Where, f.Adversary)
}

// WrongKeyReport is the outcome of one run of the oracle.
type WrongKeyReport struct {
	Values   int            // key/value pairs visited
	Blobs    int            // distinct candidates offered
	Opened   map[string]int // adversary -> candidates opened
	Findings []WrongKeyFinding
	// MasterPubOpened: the public adversary could open the master HD public
	// key blob and it is the oracle's (sanity: the oracle is not vacuous).
	OpenedPlain [][]byte
}

type blob struct {
	where string
	b     []byte
}

// candidates lists a value and every length-prefixed field inside it.
func candidates(where string, v []byte, out *[]blob, seen map[string]bool) {
	add := func(w string, b []byte) {
		if len(b) < sealOverhead || seen[string(b)] {
			return
		}
		seen[string(b)] = true
		*out = append(*out, blob{w, append([]byte(nil), b...)})
	}
	add(where, v)
	for o := 0; o+4 <= len(v); o++ {
		l := int(binary.LittleEndian.Uint32(v[o:]))
		if l < sealOverhead || l > len(v) || o+4+l > len(v) {
			continue
		}
		add(fmt.Sprintf("%s field@%d(len %d)", where, o, l), v[o+4:o+4+l])
	}
}

func walkBucket(b walletdb.ReadBucket, path string, visit func(path string, k, v []byte)) error {
	return b.ForEach(func(k, v []byte) error {
		if v == nil {
			if nb := b.NestedReadBucket(k); nb != nil {
				return walkBucket(nb, fmt.Sprintf("%s/%s", path, keyName(k)), visit)
			}
		}
		visit(path, k, v)
		return nil
	})
}

func keyName(k []byte) string {
	for _, c := range k {
		if c < 0x20 || c > 0x7e {
			return fmt.Sprintf("%x", k)
		}
	}
	return string(k)
}

// collectBlobs walks namespace ns and lists every distinct candidate (whole
// values, whole keys and every length-prefixed field inside them).
func collectBlobs(ns walletdb.ReadBucket, nsKey []byte) (blobs []blob, values int, mpubParams []byte, err error) {
	seen := map[string]bool{}
	err = walkBucket(ns, string(nsKey), func(path string, k, v []byte) {
		values++
		where := fmt.Sprintf("%s/%s", path, keyName(k))
		if path == string(nsKey)+"/main" && string(k) == "mpub" {
			mpubParams = append([]byte(nil), v...)
		}
		candidates(where+" (value)", v, &blobs, seen)
		candidates(where+" (key)", k, &blobs, seen)
	})
	return
}

// C04WrongKey runs the oracle on namespace nsKey of db.
func C04WrongKey(db walletdb.DB, nsKey, pubPass []byte, params *chaincfg.Params, set *NeedleSet) (WrongKeyReport, error) {
	rep := WrongKeyReport{Opened: map[string]int{}}
	err := walletdb.View(db, func(tx walletdb.ReadTx) error {
		ns := tx.ReadBucket(nsKey)
		if ns == nil {
			return fmt.Errorf("namespace %q missing", nsKey)
		}
		blobs, values, mpubParams, err := collectBlobs(ns, nsKey)
		if err != nil {
			return err
		}
		rep.Values = values
		rep.Blobs = len(blobs)

		// adversary 1: a manager that was only opened
		mgr, err := waddrmgr.Open(ns, pubPass, params)
		if err != nil {
			return fmt.Errorf("opening a second manager with the public passphrase: %v", err)
		}
		defer mgr.Close()
		type advKey struct {
			name string
			open func(b []byte) ([]byte, bool)
		}
		var zero snacl.CryptoKey
		advs := []advKey{
			{"public-crypto-key (Manager.Decrypt(CKTPublic) of a never-unlocked manager)", func(b []byte) ([]byte, bool) {
				pt, err := mgr.Decrypt(waddrmgr.CKTPublic, b)
				return pt, err == nil
			}},
			{"zero-key (all-zero crypto key)", func(b []byte) ([]byte, bool) {
				pt, err := zero.Decrypt(b)
				return pt, err == nil
			}},
		}
		if mpubParams != nil {
			var sk snacl.SecretKey
			if err := sk.Unmarshal(mpubParams); err == nil {
				pp := append([]byte(nil), pubPass...)
				if err := sk.DeriveKey(&pp); err == nil {
					key := *sk.Key
					advs = append(advs, advKey{"public-master-key (scrypt of the public passphrase)", func(b []byte) ([]byte, bool) {
						pt, err := key.Decrypt(b)
						return pt, err == nil
					}})
				}
			}
		}
		knownKeys := map[string]bool{string(zero[:]): true}
		for i := 0; i < len(advs) && i < 64; i++ {
			a := advs[i]
			for _, bl := range blobs {
				pt, ok := a.open(bl.b)
				if !ok {
					continue
				}
				rep.Opened[a.name]++
				rep.OpenedPlain = append(rep.OpenedPlain, pt)
				if n, _ := set.Scan(pt, func(n *Needle) bool { return n.Private || n.Script }); n != nil {
					rep.Findings = append(rep.Findings, WrongKeyFinding{Adversary: a.name, Where: bl.where, Needle: n, PlainLen: len(pt)})
				}
				if len(pt) == snacl.KeySize && !knownKeys[string(pt)] {
					knownKeys[string(pt)] = true
					var k snacl.CryptoKey
					copy(k[:], pt)
					src := fmt.Sprintf("recovered-key (32-byte clear text of %s opened by %s)", bl.where, a.name)
					advs = append(advs, advKey{src, func(b []byte) ([]byte, bool) {
						pt, err := k.Decrypt(b)
						return pt, err == nil
					}})
				}
			}
		}
		return nil
	})
	return rep, err
}

package mgrsim

import (
	"bytes"
	"fmt"
	"sort"

	"github.com/btcsuite/btcwallet/waddrmgr"
	"github.com/btcsuite/btcwallet/walletdb"
)

// Hooks for open known findings (nil = not listed: the shape is a violation).
type knownHooks struct {
	// KnownF1: DeriveFromKeyPathCache returns a key while locked.
	KnownF1 func() bool
	// KnownF7: Unlock with the right passphrase fails because an imported
	// extended-public-key account is loaded.
	KnownF7 func(err error) bool
	// KnownF22: Extend*Addresses advances the cached indices before the
	// enclosing transaction commits. When it reports true (the finding is
	// listed as open; the callee counts the hit) the machine reloads the
	// manager after a rolled-back extension, which is what hides the shape.
	KnownF22 func() bool
}

// wipedKinds are the buffer kinds the C05 statement says are cleared by locking.
var wipedKinds = map[string]bool{
	"master-key-priv": true, "crypto-key-priv": true, "crypto-key-script": true, "hashed-passphrase": true,
	"account-key-priv": true, "address-privkey": true, "p2sh-script": true, "derived-key-cache": true,
}

// afterLockTransition is called right after every transition into the locked
// state; with CheckWipe set it uses the build-tagged report to require that
// every clear-text key buffer is nil or zero.
func (m *Machine) afterLockTransition(reason string) {
	if !m.CheckWipe {
		return
	}
	rep := m.Mgr.VerifSecretsReport()
	for _, r := range rep {
		if !r.Present {
			continue
		}
		if r.Kind == "witness-script" {
			m.Case.Class("observation:witness-script-cleartext-survives-lock")
			continue
		}
		if r.Kind == "derived-key-cache" && m.KnownF1 != nil && m.KnownF1() {
			continue
		}
		if wipedKinds[r.Kind] {
			m.Violation("after %s the clear-text buffer %s %s still holds key material", reason, r.Kind, r.ID)
		}
	}
	m.N["wipe-checked"]++
}

// checkLockedMemory runs after every operation: in every reached state a
// manager that reports itself locked (or is watching-only) holds no clear-text
// key material, whichever operation brought it there - not only Lock and a
// failed Unlock, also e.g. a passphrase change made while locked.
func (m *Machine) checkLockedMemory(op string) {
	if !m.CheckWipe || !(m.Mgr.IsLocked() || m.WatchOnly) {
		return
	}
	m.afterLockTransition("operation " + op + " (manager is locked)")
	m.N["locked-state-memory-checked"]++
}

// CountPopulated counts, while unlocked, how many clear-text buffers are
// populated (guards the wiping check against vacuity).
func (m *Machine) CountPopulated() int {
	n := 0
	for _, r := range m.Mgr.VerifSecretsReport() {
		if r.Present && wipedKinds[r.Kind] {
			n++
		}
	}
	return n
}

// CheckAllIssued re-checks every address issued so far: found, true metadata,
// and the private key accessor agrees with oracle and lock state (C03 c / C05).
func (m *Machine) CheckAllIssued(where string) {
	m.View(func(ns walletdb.ReadBucket) {
		for _, is := range m.Issued {
			ma, err := m.Mgr.Address(ns, is.Address)
			if err != nil {
				m.Violation("[%s] issued address %s (scope %v account %d branch %d index %d) is not found: %v", where, is.Addr, is.Acct.Scope,
					is.Acct.Num, is.Branch, is.Index, err)
			}
			m.checkManaged(where, ma, is)
			m.checkPriv(where, ma, is)
		}
		for _, h := range m.Held {
			m.checkPriv(where+", address object handed out by DeriveFromKeyPath while locked", h.MA, h.Is)
		}
		for _, im := range m.Imports {
			ma, err := m.Mgr.Address(ns, im.Address)
			if err != nil {
				m.Violation("[%s] imported %s address %s is not found: %v", where, im.Kind, im.Addr, err)
			}
			if !ma.Imported() {
				m.Violation("[%s] imported address %s is not reported as imported", where, im.Addr)
			}
			if ma.InternalAccount() != waddrmgr.ImportedAddrAccount {
				m.Violation("[%s] imported address %s reports account %d", where, im.Addr, ma.InternalAccount())
			}
			m.checkImportedSecret(where, ma, im)
		}
	})
}

func (m *Machine) checkImportedSecret(where string, ma waddrmgr.ManagedAddress, im *Imported) {
	unlocked := !m.Locked && !m.WatchOnly
	switch im.Kind {
	case "pubkey":
		// a public key imported on its own: the address knows its key, and
		// there is no private key to hand out in any lock state
		pka, ok := ma.(waddrmgr.ManagedPubKeyAddress)
		if !ok {
			m.Violation("[%s] imported public key address %s is a %T", where, im.Addr, ma)
		}
		if !bytes.Equal(pka.PubKey().SerializeCompressed(), im.Script) {
			m.Violation("[%s] imported public key %s: PubKey() is not the imported key", where, im.Addr)
		}
		if priv, err := pka.PrivKey(); err == nil || priv != nil {
			m.Violation("[%s] address %s of a public key imported without private key returns a private key", where, im.Addr)
		}
	case "wif":
		pka, ok := ma.(waddrmgr.ManagedPubKeyAddress)
		if !ok {
			m.Violation("[%s] imported key address %s is a %T", where, im.Addr, ma)
		}
		if pka.Compressed() != im.Compressed {
			m.Violation("[%s] imported key %s compressed flag %v, imported as %v", where, im.Addr, pka.Compressed(), im.Compressed)
		}
		priv, err := pka.PrivKey()
		if unlocked {
			if err != nil {
				m.Violation("[%s] imported key %s: unlocked but PrivKey() fails: %v", where, im.Addr, err)
			}
			if !bytes.Equal(priv.Serialize(), im.WIF.PrivKey.Serialize()) {
				m.Violation("[%s] imported key %s is not returned unchanged", where, im.Addr)
			}
			wif, err := pka.ExportPrivKey()
			if err != nil || wif.String() != im.WIF.String() {
				m.Violation("[%s] imported key %s: ExportPrivKey() = %v, %v; imported %v", where, im.Addr, wif, err, im.WIF.String())
			}
		} else {
			if err == nil {
				m.Violation("[%s] imported key %s: PrivKey() succeeded while locked/watch-only", where, im.Addr)
			}
			if !isMgrErr(err, waddrmgr.ErrLocked) && !isMgrErr(err, waddrmgr.ErrWatchingOnly) {
				m.Violation("[%s] imported key %s: PrivKey() failed with %v, expected a locked or watching-only error", where, im.Addr, err)
			}
		}
	default:
		sa, ok := ma.(waddrmgr.ManagedScriptAddress)
		if !ok {
			m.Violation("[%s] imported script address %s is a %T", where, im.Addr, ma)
		}
		script, err := sa.Script()
		switch {
		case unlocked:
			if err != nil {
				m.Violation("[%s] imported %s script %s: unlocked but Script() fails: %v", where, im.Kind, im.Addr, err)
			}
			if !bytes.Equal(script, im.Script) {
				m.Violation("[%s] imported script %s is not returned unchanged", where, im.Addr)
			}
		case im.Secret:
			if err == nil {
				m.Violation("[%s] secret %s script %s: Script() succeeded while locked/watch-only", where, im.Kind, im.Addr)
			}
			if !isMgrErr(err, waddrmgr.ErrLocked) && !isMgrErr(err, waddrmgr.ErrWatchingOnly) {
				m.Violation("[%s] secret script %s: Script() failed with %v, expected a locked or watching-only error", where, im.Addr, err)
			}
		default:
			// a non-secret script: if it is returned it must be the imported one
			if err == nil && !bytes.Equal(script, im.Script) {
				m.Violation("[%s] imported script %s is not returned unchanged", where, im.Addr)
			}
		}
	}
}

// CheckAccessors exercises the remaining private-material accessors in the
// current lock state (C05).
func (m *Machine) CheckAccessors(where string) {
	unlocked := !m.Locked && !m.WatchOnly
	msg := []byte("verif-c05-probe")
	for _, kt := range []waddrmgr.CryptoKeyType{waddrmgr.CKTPrivate, waddrmgr.CKTScript} {
		ct, err := m.Mgr.Encrypt(kt, msg)
		if unlocked {
			if err != nil {
				m.Violation("[%s] Encrypt(key type %d) fails while unlocked: %v", where, kt, err)
			}
			pt, err := m.Mgr.Decrypt(kt, ct)
			if err != nil || !bytes.Equal(pt, msg) {
				m.Violation("[%s] Decrypt(key type %d) of own ciphertext while unlocked: %v", where, kt, err)
			}
			m.lastCT[kt] = ct
		} else {
			if err == nil {
				m.Violation("[%s] Encrypt(private key type %d) succeeded while locked=%v watch-only=%v", where, kt, m.Locked, m.WatchOnly)
			}
			if !isMgrErr(err, waddrmgr.ErrLocked) && !isMgrErr(err, waddrmgr.ErrWatchingOnly) {
				m.Violation("[%s] Encrypt(private key type %d) failed with %v, expected a locked or watching-only error", where, kt, err)
			}
			if prev := m.lastCT[kt]; prev != nil {
				pt, err := m.Mgr.Decrypt(kt, prev)
				if err == nil {
					m.Violation("[%s] Decrypt(private key type %d) of a ciphertext made while unlocked succeeded while locked/watch-only (%q)", where, kt, pt)
				}
				if !isMgrErr(err, waddrmgr.ErrLocked) && !isMgrErr(err, waddrmgr.ErrWatchingOnly) {
					m.Violation("[%s] Decrypt(private key type %d) failed with %v, expected a locked or watching-only error", where, kt, err)
				}
			}
		}
	}
	if m.Mgr.IsLocked() != (m.Locked || m.WatchOnly) {
		m.Violation("[%s] IsLocked()=%v, model locked=%v watch-only=%v", where, m.Mgr.IsLocked(), m.Locked, m.WatchOnly)
	}
}

// ---- C08: memory vs. a freshly opened manager --------------------------------

type acctAnswer struct {
	Name                   string
	Ext, Int, Imported     uint32
	PubKey                 string
	WatchOnly              bool
	Schema                 string
	FP                     uint32
	LastExt, LastInt       string
	LastExtIdx, LastIntIdx uint32
	LookupByName           uint32
	LookupErr              string
}

// Answers is the C08 query set answered by one manager.
type Answers struct {
	Addr     map[string]string
	Accounts map[string]acctAnswer
	Synced   string
	Hashes   map[int32]string
	Birthday int64
	WO       bool
	Names    map[string]string
	Each     map[string][]uint32
}

func describeManaged(ns walletdb.ReadBucket, ma waddrmgr.ManagedAddress) string {
	s := fmt.Sprintf("acct=%d type=%v internal=%v imported=%v compressed=%v used=%v", ma.InternalAccount(), ma.AddrType(), ma.Internal(), ma.Imported(),
		ma.Compressed(), ma.Used(ns))
	if pka, ok := ma.(waddrmgr.ManagedPubKeyAddress); ok {
		sc, dp, ok := pka.DerivationInfo()
		s += fmt.Sprintf(" pub=%x scope=%v path=%+v known=%v", pka.PubKey().SerializeCompressed(), sc, dp, ok)
	}
	return s
}

// Ask asks a manager the C08 query set. unlockedLikeRunning: the fresh manager
// was brought to the same lock state as the running one.
func (m *Machine) Ask(mgr *waddrmgr.Manager, ns walletdb.ReadBucket) Answers {
	a := Answers{Addr: map[string]string{}, Accounts: map[string]acctAnswer{}, Hashes: map[int32]string{}, Names: map[string]string{}, Each: map[string][]uint32{}}
	for _, is := range m.Issued {
		ma, err := mgr.Address(ns, is.Address)
		if err != nil {
			a.Addr[is.Addr] = "NOT FOUND: " + err.Error()
			continue
		}
		a.Addr[is.Addr] = describeManaged(ns, ma)
	}
	for _, im := range m.Imports {
		ma, err := mgr.Address(ns, im.Address)
		if err != nil {
			a.Addr[im.Addr] = "NOT FOUND: " + err.Error()
			continue
		}
		a.Addr[im.Addr] = describeManaged(ns, ma)
	}
	// never-issued addresses just beyond the next index (not touched by rolled-back transactions)
	for _, s := range m.SortedScopes() {
		for _, ac := range s.SortedAccounts() {
			for br := uint32(0); br < 2; br++ {
				o := m.OracleAddr(ac, br, ac.Next[br])
				if m.Tainted[o.Addr] || m.ByAddr[o.Addr] != nil {
					continue
				}
				if _, err := mgr.Address(ns, o.Address); err == nil {
					a.Addr["unissued:"+o.Addr] = "FOUND"
				} else {
					a.Addr["unissued:"+o.Addr] = "not found"
				}
			}
		}
	}
	for _, s := range m.SortedScopes() {
		sm, err := mgr.FetchScopedKeyManager(s.Scope)
		if err != nil {
			a.Accounts[fmt.Sprintf("%v", s.Scope)] = acctAnswer{LookupErr: "scope missing: " + err.Error()}
			continue
		}
		var each []uint32
		sm.ForEachAccount(ns, func(acct uint32) error { each = append(each, acct); return nil })
		sort.Slice(each, func(i, j int) bool { return each[i] < each[j] })
		a.Each[fmt.Sprintf("%v", s.Scope)] = each
		if last, err := sm.LastAccount(ns); err == nil {
			a.Names[fmt.Sprintf("%v/last", s.Scope)] = fmt.Sprint(last)
		}
		for _, ac := range s.SortedAccounts() {
			key := fmt.Sprintf("%v/%d", s.Scope, ac.Num)
			var ans acctAnswer
			props, err := sm.AccountProperties(ns, ac.Num)
			if err != nil {
				ans.LookupErr = "AccountProperties: " + err.Error()
				a.Accounts[key] = ans
				continue
			}
			ans.Name, ans.Ext, ans.Int, ans.Imported = props.AccountName, props.ExternalKeyCount, props.InternalKeyCount, props.ImportedKeyCount
			if props.AccountPubKey != nil {
				ans.PubKey = props.AccountPubKey.String()
			}
			ans.FP = props.MasterKeyFingerprint
			if props.AddrSchema != nil {
				ans.Schema = fmt.Sprintf("%+v", *props.AddrSchema)
			}
			// IsWatchOnly depends on the lock state by construction (acctKeyPriv == nil); compared only via the dedicated query
			wo, err := sm.IsWatchOnlyAccount(ns, ac.Num)
			if err == nil {
				ans.WatchOnly = wo
			}
			if la, err := sm.LastExternalAddress(ns, ac.Num); err == nil {
				ans.LastExt = la.Address().EncodeAddress()
			} else {
				ans.LastExt = "ERR " + errCode(err)
			}
			if la, err := sm.LastInternalAddress(ns, ac.Num); err == nil {
				ans.LastInt = la.Address().EncodeAddress()
			} else {
				ans.LastInt = "ERR " + errCode(err)
			}
			if n, err := sm.LookupAccount(ns, ac.Name); err == nil {
				ans.LookupByName = n
			} else {
				ans.LookupErr = "LookupAccount: " + errCode(err)
			}
			if nm, err := sm.AccountName(ns, ac.Num); err == nil {
				a.Names[key] = nm
			} else {
				a.Names[key] = "ERR " + errCode(err)
			}
			a.Accounts[key] = ans
		}
		// imported account properties
		if props, err := sm.AccountProperties(ns, waddrmgr.ImportedAddrAccount); err == nil {
			a.Accounts[fmt.Sprintf("%v/imported", s.Scope)] = acctAnswer{Name: props.AccountName, Imported: props.ImportedKeyCount}
		}
	}
	st := mgr.SyncedTo()
	a.Synced = fmt.Sprintf("%d/%v", st.Height, st.Hash)
	for h := st.Height - 3; h <= st.Height+1; h++ {
		if h < 0 {
			continue
		}
		if bh, err := mgr.BlockHash(ns, h); err == nil {
			a.Hashes[h] = bh.String()
		} else {
			a.Hashes[h] = "none"
		}
	}
	a.Birthday = mgr.Birthday().Unix()
	a.WO = mgr.WatchOnly()
	return a
}

func errCode(err error) string {
	if me, ok := err.(waddrmgr.ManagerError); ok {
		return me.ErrorCode.String()
	}
	return err.Error()
}

// DiffAnswers lists the differences between two answer sets.
func DiffAnswers(run, fresh Answers) []string {
	var out []string
	for k, v := range run.Addr {
		if fresh.Addr[k] != v {
			out = append(out, fmt.Sprintf("address %s:\n      running: %s\n      restart: %s", k, v, fresh.Addr[k]))
		}
	}
	for k, v := range run.Accounts {
		if fresh.Accounts[k] != v {
			out = append(out, fmt.Sprintf("account %s:\n      running: %+v\n      restart: %+v", k, v, fresh.Accounts[k]))
		}
	}
	for k, v := range run.Names {
		if fresh.Names[k] != v {
			out = append(out, fmt.Sprintf("name %s: running %q restart %q", k, v, fresh.Names[k]))
		}
	}
	for k, v := range run.Each {
		if fmt.Sprint(fresh.Each[k]) != fmt.Sprint(v) {
			out = append(out, fmt.Sprintf("accounts of %s: running %v restart %v", k, v, fresh.Each[k]))
		}
	}
	if run.Synced != fresh.Synced {
		out = append(out, fmt.Sprintf("synced-to: running %s restart %s", run.Synced, fresh.Synced))
	}
	for k, v := range run.Hashes {
		if fresh.Hashes[k] != v {
			out = append(out, fmt.Sprintf("block hash %d: running %s restart %s", k, v, fresh.Hashes[k]))
		}
	}
	if run.Birthday != fresh.Birthday {
		out = append(out, fmt.Sprintf("birthday: running %d restart %d", run.Birthday, fresh.Birthday))
	}
	if run.WO != fresh.WO {
		out = append(out, fmt.Sprintf("watch-only: running %v restart %v", run.WO, fresh.WO))
	}
	sort.Strings(out)
	return out
}

// CheckFresh opens a second manager on the same database, brings it to the
// same lock state, and compares the answers of both (C08).
func (m *Machine) CheckFresh(where string) {
	m.View(func(ns walletdb.ReadBucket) {
		fresh, err := waddrmgr.Open(ns, m.PubPass, m.Params)
		if err != nil {
			m.Violation("[%s] a fresh manager cannot be opened on the same database: %v", where, err)
		}
		defer fresh.Close()
		if !m.Locked && !m.WatchOnly {
			if err := fresh.Unlock(ns, m.PrivPass); err != nil {
				m.Violation("[%s] the fresh manager cannot be unlocked with the current private passphrase: %v", where, err)
			}
		}
		run := m.Ask(m.Mgr, ns)
		fr := m.Ask(fresh, ns)
		if d := DiffAnswers(run, fr); len(d) > 0 {
			msg := ""
			for _, x := range d {
				msg += "\n   " + x
			}
			m.Violation("[%s] the running manager and a freshly opened one disagree:%s", where, msg)
		}
		// the model agrees on indices too (what a restarted wallet would issue next)
		for _, s := range m.SortedScopes() {
			for _, ac := range s.SortedAccounts() {
				a := fr.Accounts[fmt.Sprintf("%v/%d", s.Scope, ac.Num)]
				if a.Ext != ac.Next[0] || a.Int != ac.Next[1] {
					m.Violation("[%s] scope %v account %d: persisted key counts %d/%d, committed operations issued %d/%d", where, s.Scope, ac.Num,
						a.Ext, a.Int, ac.Next[0], ac.Next[1])
				}
			}
		}
	})
	m.N["fresh-compare"]++
}

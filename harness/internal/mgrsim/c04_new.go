package mgrsim

// C04 needs passphrases that are long enough to be searched for in the file
// without chance matches (>= MinNeedleLen bytes) and that cannot coincide with
// a bucket or key name of the database (those are lower-case letters and '-':
// every generated passphrase contains a digit). New draws 1-8 / 1-12
// characters; NewLongPass is the same construction with long passphrases.

import (
	"bytes"
	"os"
	"path/filepath"
	"time"

	"github.com/btcsuite/btcd/btcutil/hdkeychain"
	"github.com/btcsuite/btcd/chaincfg"
	"github.com/btcsuite/btcwallet/waddrmgr"
	"github.com/btcsuite/btcwallet/walletdb"
	"pgregory.net/rapid"

	"verifharness/internal/bip32ref"
	"verifharness/internal/evid"
	"verifharness/internal/proxydb"
)

// LongPass draws a passphrase of 8-20 printable characters with a digit in it.
func LongPass(t *rapid.T, label string) []byte {
	return []byte(rapid.StringMatching(`[A-Za-z0-9 !#%&+,.:;=?@_~-]{4,10}[0-9][A-Za-z0-9 !#%&+,.:;=?@_~-]{3,9}`).Draw(t, label))
}

// NewLongPass is New with passphrases drawn by LongPass.
func NewLongPass(t *rapid.T, prop string, c *evid.Case) *Machine {
	FastScrypt()
	m := &Machine{T: t, Prop: prop, Case: c, Scopes: map[waddrmgr.KeyScope]*ScopeModel{}, ByAddr: map[string]*Issued{},
		Tainted: map[string]bool{}, N: map[string]int{}, lastCT: map[waddrmgr.CryptoKeyType][]byte{}}
	m.Params = rapid.SampledFrom([]*chaincfg.Params{&chaincfg.RegressionNetParams, &chaincfg.TestNet3Params, &chaincfg.MainNetParams}).Draw(t, "net")
	for {
		m.Seed = DrawSeed(t, m.Params, "seed")
		mk, err := bip32ref.Master(m.Seed)
		if err == nil {
			m.Master = mk
			break
		}
	}
	for {
		m.Seed2 = DrawSeed(t, m.Params, "seed2")
		if bytes.Equal(m.Seed, m.Seed2) {
			m.Seed2 = append([]byte{m.Seed[0] ^ 0x42}, m.Seed[1:]...)
		}
		if mk, err := bip32ref.Master(m.Seed2); err == nil {
			m.Master2 = mk
			break
		}
	}
	m.PubPass = LongPass(t, "pubPass")
	for {
		m.PrivPass = LongPass(t, "privPass")
		if !bytes.Equal(m.PrivPass, m.PubPass) {
			break
		}
	}
	c.Logf("net=%s seed=%x seed2=%x pub=%q priv=%q", m.Params.Name, m.Seed, m.Seed2, m.PubPass, m.PrivPass)

	dir, err := os.MkdirTemp(scratch(), "verif-mgrsim-")
	if err != nil {
		m.Inconclusive("mkdtemp: %v", err)
	}
	m.Dir = dir
	m.Path = filepath.Join(dir, "w.db")
	raw, err := walletdb.Create("bdb", m.Path, true, 10*time.Second, false)
	if err != nil {
		m.Inconclusive("create db: %v", err)
	}
	m.Raw = raw
	m.DB = proxydb.New(raw)
	root, err := hdkeychain.NewMaster(m.Seed, m.Params)
	if err != nil {
		m.Inconclusive("hdkeychain.NewMaster: %v", err)
	}
	m.Birthday = time.Unix(1_600_000_000, 0)
	err = walletdb.Update(m.DB, func(tx walletdb.ReadWriteTx) error {
		ns, err := tx.CreateTopLevelBucket(NSKey)
		if err != nil {
			return err
		}
		return waddrmgr.Create(ns, root, m.PubPass, m.PrivPass, m.Params, nil, m.Birthday)
	})
	if err != nil {
		m.Violation("waddrmgr.Create failed: %v", err)
	}
	m.openManager()
	for _, sc := range waddrmgr.DefaultKeyScopes {
		m.addScopeModel(sc, waddrmgr.ScopeAddrMap[sc], false)
	}
	m.SyncedTo = waddrmgr.BlockStamp{Height: 0, Hash: *m.Params.GenesisHash, Timestamp: m.Params.GenesisBlock.Header.Timestamp}
	return m
}

// OpChangePassLong is OpChangePass with a new passphrase drawn by LongPass
// (and different from both current passphrases, so that an old passphrase that
// is searched for in the file is never a current one).
func (m *Machine) OpChangePassLong(t *rapid.T) {
	private := rapid.Bool().Draw(t, "private")
	cur := m.PubPass
	if private {
		cur = m.PrivPass
	}
	old := append([]byte(nil), cur...)
	rightOld := rapid.IntRange(0, 5).Draw(t, "rightOld") > 0
	if !rightOld {
		old, _ = m.nearMiss(t, cur)
		rightOld = bytes.Equal(old, cur)
	}
	var newPass []byte
	for {
		newPass = LongPass(t, "newPass")
		if !bytes.Equal(newPass, m.PubPass) && !bytes.Equal(newPass, m.PrivPass) {
			break
		}
	}
	err, committed := m.Tx(Commit, func(ns walletdb.ReadWriteBucket) error {
		return m.Mgr.ChangePassphrase(ns, old, newPass, private, &waddrmgr.DefaultScryptOptions)
	})
	m.Case.Logf("change-passphrase private=%v rightOld=%v new=%q locked=%v -> %v", private, rightOld, newPass, m.Locked, err)
	switch {
	case private && m.WatchOnly:
		if !isMgrErr(err, waddrmgr.ErrWatchingOnly) {
			m.Violation("changing the private passphrase of a watching-only manager returned %v", err)
		}
	case !rightOld:
		if !isMgrErr(err, waddrmgr.ErrWrongPassphrase) {
			m.Violation("ChangePassphrase with a wrong old passphrase returned %v", err)
		}
	default:
		if err != nil {
			m.Violation("ChangePassphrase(private=%v) with the right old passphrase failed: %v", private, err)
		}
		if committed {
			oldCopy := append([]byte(nil), cur...)
			if private {
				m.PrivPass = newPass
				m.N["passphrase-change-private"]++
			} else {
				m.PubPass = newPass
				m.N["passphrase-change-public"]++
			}
			m.N["passphrase-change"]++
			m.checkOldPassphraseFails(private, oldCopy)
		}
	}
	if m.Mgr.IsLocked() != m.Locked && !m.WatchOnly {
		m.Violation("ChangePassphrase changed the lock state: manager locked=%v, expected %v", m.Mgr.IsLocked(), m.Locked)
	}
}

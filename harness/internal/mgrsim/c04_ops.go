package mgrsim

// C04: import of a taproot script (ImportTaprootScript), the fourth kind of
// script address the manager stores. The model keeps it in m.Imports with the
// TLV blob the manager returns while unlocked as "the script", so that the
// shared checks (found, imported, returned unchanged, refused while locked or
// watching-only when secret) apply; the leaf script and internal key are
// returned to the caller as additional needles.

import (
	"bytes"

	"github.com/btcsuite/btcd/btcec/v2/schnorr"
	"github.com/btcsuite/btcd/btcutil"
	"github.com/btcsuite/btcd/txscript"
	"github.com/btcsuite/btcwallet/waddrmgr"
	"github.com/btcsuite/btcwallet/walletdb"
	"pgregory.net/rapid"
)

// TapImport describes a committed taproot script import.
type TapImport struct {
	Imported    *Imported
	LeafScripts [][]byte
	InternalKey []byte // 32 bytes x-only
	OutputKey   []byte // 32 bytes x-only
}

// OpImportTapScript imports a full-tree tapscript with 1-2 leaves; nil when
// nothing was committed. With allowSecret false only non-secret scripts are
// imported.
func (m *Machine) OpImportTapScript(t *rapid.T, allowSecret bool) *TapImport {
	s := m.drawScope(t)
	secret := rapid.IntRange(0, 2).Draw(t, "secretTapscript") > 0 && allowSecret
	nLeaves := rapid.IntRange(1, 2).Draw(t, "leaves")
	internal := m.nextWIF(t, true).PrivKey.PubKey()
	var leaves []txscript.TapLeaf
	var leafScripts [][]byte
	for i := 0; i < nLeaves; i++ {
		k := m.nextWIF(t, true).PrivKey.PubKey()
		sc, err := txscript.NewScriptBuilder().AddData(schnorr.SerializePubKey(k)).AddOp(txscript.OP_CHECKSIG).Script()
		if err != nil {
			m.Inconclusive("script: %v", err)
		}
		leaves = append(leaves, txscript.NewBaseTapLeaf(sc))
		leafScripts = append(leafScripts, sc)
	}
	ts := &waddrmgr.Tapscript{Type: waddrmgr.TapscriptTypeFullTree, ControlBlock: &txscript.ControlBlock{InternalKey: internal}, Leaves: leaves}
	var ma waddrmgr.ManagedTaprootScriptAddress
	opErr, committed := m.Tx(Commit, func(ns walletdb.ReadWriteBucket) error {
		var err error
		ma, err = m.scoped(s.Scope).ImportTaprootScript(ns, ts, m.importStamp(), 1, secret)
		return err
	})
	m.Case.Logf("import-taproot-script scope=%v leaves=%d secret=%v locked=%v -> %v", s.Scope, nLeaves, secret, m.Locked, opErr)
	if secret && (m.Locked || m.WatchOnly) {
		if opErr == nil {
			m.Violation("importing a secret taproot script while locked=%v watch-only=%v succeeded", m.Locked, m.WatchOnly)
		}
		if !isMgrErr(opErr, waddrmgr.ErrLocked) && !isMgrErr(opErr, waddrmgr.ErrWatchingOnly) {
			m.Violation("importing a secret taproot script while locked returned %v, expected a locked or watching-only error", opErr)
		}
		m.N["import-refused-locked"]++
		return nil
	}
	if opErr != nil {
		if m.Locked && !secret {
			return nil // the statement is silent about non-secret scripts while locked
		}
		m.Violation("importing a taproot script failed: %v", opErr)
	}
	if !committed {
		return nil
	}
	tree := txscript.AssembleTaprootScriptTree(leaves...)
	root := tree.RootNode.TapHash()
	out := schnorr.SerializePubKey(txscript.ComputeTaprootOutputKey(internal, root[:]))
	want, err := btcutil.NewAddressTaproot(out, m.Params)
	if err != nil {
		m.Inconclusive("oracle address: %v", err)
	}
	if ma.Address().EncodeAddress() != want.EncodeAddress() {
		m.Violation("imported taproot script: address %s, expected %s", ma.Address().EncodeAddress(), want.EncodeAddress())
	}
	im := &Imported{Scope: s.Scope, Addr: want.EncodeAddress(), Address: want, Secret: secret, Kind: "p2tr-script"}
	// the stored form (TLV) is internal to waddrmgr: take it from the manager when it hands it out
	if blob, err := ma.Script(); err == nil {
		for _, ls := range leafScripts {
			if !bytes.Contains(blob, ls) {
				m.Violation("imported taproot script %s: the stored script does not contain the imported leaf script", im.Addr)
			}
		}
		im.Script = blob
	} else if !m.Locked {
		m.Violation("imported taproot script %s: unlocked but Script() fails: %v", im.Addr, err)
	} else {
		return &TapImport{LeafScripts: leafScripts, InternalKey: schnorr.SerializePubKey(internal), OutputKey: out}
	}
	m.Imports = append(m.Imports, im)
	m.N["import-script"]++
	m.N["import-tapscript"]++
	if secret {
		m.N["import-tapscript-secret"]++
	}
	return &TapImport{Imported: im, LeafScripts: leafScripts, InternalKey: schnorr.SerializePubKey(internal), OutputKey: out}
}

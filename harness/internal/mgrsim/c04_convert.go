package mgrsim

// C04, last sentence: after conversion to watching-only, a reopened wallet
// still knows every address but no passphrase unlocks it and no call returns
// private material.

import (
	"github.com/btcsuite/btcwallet/waddrmgr"
	"github.com/btcsuite/btcwallet/walletdb"
	"pgregory.net/rapid"
)

// C04Convert converts the manager to watching-only in a committed transaction
// and moves the model along.
func (m *Machine) C04Convert(neuterFirst bool) {
	if neuterFirst {
		// the root key may have been removed earlier (NeuterRootKey, or a
		// database migrated from a version that never stored it)
		err, committed := m.Tx(Commit, func(ns walletdb.ReadWriteBucket) error { return m.Mgr.NeuterRootKey(ns) })
		m.Case.Logf("neuter-root-key -> %v", err)
		if err != nil || !committed {
			m.Violation("NeuterRootKey failed: %v", err)
		}
		m.N["root-key-neutered"]++
	}
	err, committed := m.Tx(Commit, func(ns walletdb.ReadWriteBucket) error { return m.Mgr.ConvertToWatchingOnly(ns) })
	m.Case.Logf("convert-to-watching-only (was locked=%v) -> %v", m.Locked, err)
	if err != nil || !committed {
		m.Violation("ConvertToWatchingOnly failed: %v", err)
	}
	wasUnlocked := !m.Locked
	m.WatchOnly = true
	m.Locked = true
	if wasUnlocked {
		m.afterLockTransition("conversion to watching-only")
	}
	m.N["convert"]++
}

// C04CheckWatchOnly checks a (reopened) converted manager: every issued and
// imported address is found with its true metadata, Unlock fails for every
// passphrase ever used and for arbitrary ones and leaves the manager locked,
// and no accessor returns private material.
func (m *Machine) C04CheckWatchOnly(t *rapid.T, where string, everPrivate [][]byte) {
	if !m.Mgr.WatchOnly() {
		m.Violation("[%s] the manager does not report watching-only after ConvertToWatchingOnly", where)
	}
	m.CheckAllIssued(where)
	m.CheckAccessors(where)

	tries := append([][]byte(nil), everPrivate...)
	tries = append(tries, m.PrivPass, m.PubPass, []byte{}, []byte(rapid.StringMatching(`[ -~]{0,16}`).Draw(t, "arbitraryPass")))
	for _, p := range tries {
		var err error
		m.View(func(ns walletdb.ReadBucket) { err = m.Mgr.Unlock(ns, append([]byte(nil), p...)) })
		if err == nil {
			m.Violation("[%s] Unlock(%q) succeeded on a manager converted to watching-only", where, p)
		}
		if !m.Mgr.IsLocked() {
			m.Violation("[%s] after a refused Unlock(%q) the converted manager reports unlocked", where, p)
		}
		m.N["convert-unlock-refused"]++
	}
	// nothing private comes out after the unlock attempts either
	m.CheckAllIssued(where + ", after the unlock attempts")
	m.CheckAccessors(where + ", after the unlock attempts")

	// derive-by-path: the private half must not be available, with and without the cache
	for _, s := range m.SortedScopes() {
		for _, a := range s.SortedAccounts() {
			for br := uint32(0); br < 2; br++ {
				idx := uint32(0)
				if a.Next[br] > 0 {
					idx = a.Next[br] - 1
				}
				kp := waddrmgr.DerivationPath{InternalAccount: a.Num, Account: a.Key.ChildNum, Branch: br, Index: idx, MasterKeyFingerprint: a.MasterFP}
				priv, err := m.scoped(s.Scope).DeriveFromKeyPathCache(kp)
				if err == nil || priv != nil {
					m.Violation("[%s] DeriveFromKeyPathCache(scope %v account %d %d/%d) returned a private key on a manager converted to watching-only", where,
						s.Scope, a.Num, br, idx)
				}
				want := m.OracleAddr(a, br, idx)
				m.View(func(ns walletdb.ReadBucket) {
					ma, err := m.scoped(s.Scope).DeriveFromKeyPath(ns, kp)
					if err != nil {
						// the statement does not promise that derivation by path keeps working
						return
					}
					if ma.Address().EncodeAddress() != want.Addr {
						m.Violation("[%s] DeriveFromKeyPath(scope %v account %d %d/%d) = %s, derivation from the seed gives %s", where, s.Scope, a.Num, br, idx,
							ma.Address().EncodeAddress(), want.Addr)
					}
					m.checkPriv(where+" derive-by-path", ma, want)
				})
				m.N["convert-derive-refused"]++
			}
		}
	}
}

// PrivateCiphertext is a stored ciphertext the private or script crypto key opens.
type PrivateCiphertext struct {
	Where string
	Plain []byte
}

// C04PrivateCiphertexts lists, on an UNLOCKED manager, every candidate of the
// namespace (whole value or length-prefixed field) that the manager's private
// or script crypto key opens: the private-key material as it is stored.
func (m *Machine) C04PrivateCiphertexts() map[string]PrivateCiphertext {
	if m.Locked || m.WatchOnly {
		m.Inconclusive("C04PrivateCiphertexts needs an unlocked manager")
	}
	out := map[string]PrivateCiphertext{}
	m.View(func(ns walletdb.ReadBucket) {
		blobs, _, _, err := collectBlobs(ns, NSKey)
		if err != nil {
			m.Inconclusive("walking the namespace: %v", err)
		}
		for _, bl := range blobs {
			for _, kt := range []waddrmgr.CryptoKeyType{waddrmgr.CKTPrivate, waddrmgr.CKTScript} {
				if pt, err := m.Mgr.Decrypt(kt, bl.b); err == nil {
					out[string(bl.b)] = PrivateCiphertext{Where: bl.where, Plain: pt}
				}
			}
		}
	})
	return out
}

// C04CheckCiphertextsGone: ConvertToWatchingOnly "removes private keys from the
// existing address manager" and means "permanent loss of any imported private
// keys and scripts" (deletePrivateKeys: "removes all private key material from
// the database"): none of the private ciphertexts listed before the conversion
// may still be a value or field of the live namespace. This is asserted for
// what deletePrivateKeys handles (master, coin-type and account keys, imported
// keys, P2SH and secret P2WSH scripts); rows of taproot scripts are never
// judged (deletePrivateKeys has no case for them; observation, not part of
// the C04 statement) - onTapscript is told about such a residue instead.
func (m *Machine) C04CheckCiphertextsGone(where string, before map[string]PrivateCiphertext, onTapscript func(addr string)) {
	m.View(func(ns walletdb.ReadBucket) {
		blobs, _, _, err := collectBlobs(ns, NSKey)
		if err != nil {
			m.Inconclusive("walking the namespace: %v", err)
		}
	next:
		for _, bl := range blobs {
			was, ok := before[string(bl.b)]
			if !ok {
				continue
			}
			for _, im := range m.Imports {
				if im.Kind == "p2tr-script" && im.Script != nil && string(im.Script) == string(was.Plain) {
					if onTapscript != nil {
						onTapscript(im.Addr)
					}
					continue next
				}
			}
			m.Violation("[%s] after ConvertToWatchingOnly the database still holds private-key material: the %d-byte ciphertext that the private/script crypto key opened before the conversion (then at %s) is still stored at %s",
				where, len(bl.b), was.Where, bl.where)
		}
	})
	m.N["convert-ciphertexts-gone-checked"]++
}

package mgrsim

// Manager half of C10: fault enumeration of database writes. One mutating
// manager operation with fixed arguments is run on copies of the machine's
// database file, each with its own manager object brought to the running
// manager's lock state, with the k-th mutating call failing, for every k.
// Nothing in here changes the machine's model, database or manager.

import (
	"bytes"
	"fmt"
	"os"
	"path/filepath"
	"sort"
	"strings"
	"time"

	"github.com/btcsuite/btcd/btcutil"
	"github.com/btcsuite/btcd/btcutil/hdkeychain"
	"github.com/btcsuite/btcd/chaincfg/chainhash"
	"github.com/btcsuite/btcd/txscript"
	"github.com/btcsuite/btcwallet/waddrmgr"
	"github.com/btcsuite/btcwallet/walletdb"
	"pgregory.net/rapid"

	"verifharness/internal/bip32ref"
	"verifharness/internal/proxydb"
)

// FaultAddr is an address an operation creates.
type FaultAddr struct {
	Addr    string
	Address btcutil.Address
}

// FaultAcct names an account.
type FaultAcct struct {
	Scope waddrmgr.KeyScope
	Num   uint32
}

// FaultOp is one mutating manager operation with all arguments fixed, so that
// the same operation can run on different manager instances.
type FaultOp struct {
	Kind  string
	Class string
	Desc  string
	// Run performs the operation and renders its result (addresses, account
	// number).
	Run func(mgr *waddrmgr.Manager, ns walletdb.ReadWriteBucket) (string, error)
	// Want is the oracle's result ("" when the oracle has nothing to say).
	Want string
	// NewAddrs are the addresses the operation issues or imports.
	NewAddrs []FaultAddr
	// Accounts are the (scope, account) pairs whose address lists the
	// operation changes.
	Accounts []FaultAcct
	// Probe asks operation-specific account / scope questions.
	Probe func(mgr *waddrmgr.Manager, ns walletdb.ReadBucket, out map[string]string)
	// Passphrases and mode after the operation succeeded (nil = unchanged).
	PubAfter, PrivAfter []byte
	WatchOnlyAfter      bool
}

// FaultOpts configures the enumeration.
type FaultOpts struct {
	// KnownIndexSwallow is the identifier under which "a failed write of the
	// address-to-account index is swallowed" is listed as an open known finding
	// ("" = not listed: the shape is a violation).
	KnownIndexSwallow string
}

// FaultResult is what one enumeration did.
type FaultResult struct {
	N              int
	Log            []string
	Positions      int
	RefErr         error
	FullEffect     int
	NotReached     int
	ResidueIgnored int
	KnownHits      map[string]int
}

// FaultAnswers is the C08 query set plus the address-to-account questions.
type FaultAnswers struct {
	A Answers
	X map[string]string
}

func c10scoped(mgr *waddrmgr.Manager, sc waddrmgr.KeyScope) (*waddrmgr.ScopedKeyManager, error) {
	return mgr.FetchScopedKeyManager(sc)
}

// askFault asks a manager the C10 query set. In post mode the addresses the
// operation creates are part of the questions (they are issued then); in pre
// mode they are not (cache entries of never-issued addresses are outside the
// statement).
func (m *Machine) askFault(mgr *waddrmgr.Manager, ns walletdb.ReadBucket, op *FaultOp, post bool) FaultAnswers {
	fa := FaultAnswers{A: m.Ask(mgr, ns), X: map[string]string{}}
	fa.A.Birthday = 0 // not part of the statement's query list (DESIGN C10 L)
	addrAcct := func(addr string, a btcutil.Address) {
		sm, acct, err := mgr.AddrAccount(ns, a)
		if err != nil {
			fa.X["addr-account:"+addr] = "ERR " + errCode(err)
			return
		}
		fa.X["addr-account:"+addr] = fmt.Sprintf("scope=%v account=%d", sm.Scope(), acct)
	}
	for _, is := range m.Issued {
		addrAcct(is.Addr, is.Address)
	}
	for _, im := range m.Imports {
		addrAcct(im.Addr, im.Address)
	}
	if post {
		for _, na := range op.NewAddrs {
			addrAcct(na.Addr, na.Address)
			ma, err := mgr.Address(ns, na.Address)
			if err != nil {
				fa.X["new-address:"+na.Addr] = "NOT FOUND: " + errCode(err)
			} else {
				fa.X["new-address:"+na.Addr] = describeManaged(ns, ma)
			}
		}
	}
	// the address lists of the accounts the operation touches (every listed
	// address is derived again, so this is not asked for all accounts)
	for _, fa2 := range op.Accounts {
		sm, err := mgr.FetchScopedKeyManager(fa2.Scope)
		if err != nil {
			continue // reported by Ask
		}
		var list []string
		err = sm.ForEachAccountAddress(ns, fa2.Num, func(ma waddrmgr.ManagedAddress) error {
			list = append(list, ma.Address().EncodeAddress())
			return nil
		})
		sort.Strings(list)
		key := fmt.Sprintf("account-addresses:%v/%d", fa2.Scope, fa2.Num)
		if err != nil {
			fa.X[key] = "ERR " + errCode(err)
		} else {
			fa.X[key] = strings.Join(list, ",")
		}
	}
	if op.Probe != nil {
		op.Probe(mgr, ns, fa.X)
	}
	return fa
}

// c10shape renders the shape of the manager's namespace: every bucket, key and
// value length. Values contain random nonces and wall-clock stamps, their
// lengths and the key sets do not.
func c10shape(b walletdb.ReadBucket, path string, out map[string]string) {
	b.ForEach(func(k, v []byte) error {
		if v == nil {
			if nb := b.NestedReadBucket(k); nb != nil {
				out[fmt.Sprintf("db:%s/%x/", path, k)] = "bucket"
				c10shape(nb, fmt.Sprintf("%s/%x", path, k), out)
				return nil
			}
		}
		out[fmt.Sprintf("db:%s/%x", path, k)] = fmt.Sprintf("%d bytes", len(v))
		return nil
	})
}

func (c *mgrCopy) shape() map[string]string {
	out := map[string]string{}
	walletdb.View(c.db, func(tx walletdb.ReadTx) error {
		c10shape(tx.ReadBucket(NSKey), "", out)
		return nil
	})
	return out
}

func diffShape(a, b map[string]string, an, bn string) []faultDiff {
	var out []faultDiff
	var keys []string
	for k := range a {
		keys = append(keys, k)
	}
	for k := range b {
		if _, ok := a[k]; !ok {
			keys = append(keys, k)
		}
	}
	sort.Strings(keys)
	for _, k := range keys {
		if a[k] != b[k] {
			av, bv := a[k], b[k]
			if av == "" {
				av = "(absent)"
			}
			if bv == "" {
				bv = "(absent)"
			}
			out = append(out, faultDiff{k, fmt.Sprintf("%s:\n      %s: %s\n      %s: %s", k, an, av, bn, bv)})
		}
	}
	return out
}

type faultDiff struct {
	Key  string
	Text string
}

// diffFault compares expected (a) with observed (b). Keys in ignore are
// "unissued:" lookups of addresses the failed operation would have issued.
func diffFault(a, b FaultAnswers, an, bn string, ignore map[string]bool) (out []faultDiff, ignored int) {
	aa, bb := a.A, b.A
	if len(ignore) > 0 {
		ca, cb := map[string]string{}, map[string]string{}
		for k, v := range aa.Addr {
			if ignore[k] {
				if bb.Addr[k] != v {
					ignored++
				}
				continue
			}
			ca[k] = v
		}
		for k, v := range bb.Addr {
			if !ignore[k] {
				cb[k] = v
			}
		}
		aa.Addr, bb.Addr = ca, cb
	}
	out = append(out, keyedDiffAnswers(aa, bb, an, bn)...)
	var keys []string
	for k := range a.X {
		keys = append(keys, k)
	}
	for k := range b.X {
		if _, ok := a.X[k]; !ok {
			keys = append(keys, k)
		}
	}
	sort.Strings(keys)
	for _, k := range keys {
		if a.X[k] != b.X[k] {
			out = append(out, faultDiff{k, fmt.Sprintf("%s:\n      %s: %s\n      %s: %s", k, an, a.X[k], bn, b.X[k])})
		}
	}
	return out, ignored
}

// keyedDiffAnswers is DiffAnswers with a key per difference.
func keyedDiffAnswers(a, b Answers, an, bn string) []faultDiff {
	var out []faultDiff
	two := func(key, x, y string) {
		out = append(out, faultDiff{key, fmt.Sprintf("%s:\n      %s: %s\n      %s: %s", key, an, x, bn, y)})
	}
	for k, v := range a.Addr {
		if b.Addr[k] != v {
			two("address:"+k, v, b.Addr[k])
		}
	}
	for k, v := range b.Addr {
		if _, ok := a.Addr[k]; !ok {
			two("address:"+k, "(not asked)", v)
		}
	}
	for k, v := range a.Accounts {
		if b.Accounts[k] != v {
			two("account:"+k, fmt.Sprintf("%+v", v), fmt.Sprintf("%+v", b.Accounts[k]))
		}
	}
	for k, v := range a.Names {
		if b.Names[k] != v {
			two("name:"+k, v, b.Names[k])
		}
	}
	for k, v := range a.Each {
		if fmt.Sprint(b.Each[k]) != fmt.Sprint(v) {
			two("accounts-of:"+k, fmt.Sprint(v), fmt.Sprint(b.Each[k]))
		}
	}
	if a.Synced != b.Synced {
		two("synced-to", a.Synced, b.Synced)
	}
	for k, v := range a.Hashes {
		if b.Hashes[k] != v {
			two(fmt.Sprintf("block-hash:%d", k), v, b.Hashes[k])
		}
	}
	for k, v := range b.Hashes {
		if _, ok := a.Hashes[k]; !ok {
			two(fmt.Sprintf("block-hash:%d", k), "(not asked)", v)
		}
	}
	if a.Birthday != b.Birthday {
		two("birthday", fmt.Sprint(a.Birthday), fmt.Sprint(b.Birthday))
	}
	if a.WO != b.WO {
		two("watch-only", fmt.Sprint(a.WO), fmt.Sprint(b.WO))
	}
	sort.Slice(out, func(i, j int) bool { return out[i].Key < out[j].Key })
	return out
}

func renderDiff(d []faultDiff) string {
	s := ""
	for _, x := range d {
		s += "\n   " + x.Text
	}
	return s
}

// ---- copies -------------------------------------------------------------------

type mgrCopy struct {
	path string
	raw  walletdb.DB
	db   *proxydb.DB
	mgr  *waddrmgr.Manager
}

func (c *mgrCopy) close() {
	if c.mgr != nil {
		done := make(chan struct{})
		mgr := c.mgr
		go func() { mgr.Close(); close(done) }()
		select {
		case <-done:
		case <-time.After(2 * time.Second):
		}
		c.mgr = nil
	}
	if c.raw != nil {
		c.raw.Close()
		c.raw = nil
	}
}

// c10open opens the file wrapped in proxydb and a manager on it, unlocked when
// asked to.
func (m *Machine) c10open(path string, pub, priv []byte, unlock bool, where string) *mgrCopy {
	raw, err := walletdb.Open("bdb", path, true, 10*time.Second, false)
	if err != nil {
		m.Inconclusive("opening a database copy: %v", err)
	}
	c := &mgrCopy{path: path, raw: raw, db: proxydb.New(raw)}
	c.mgr = m.c10manager(c, pub, priv, unlock, where)
	return c
}

// c10manager opens one more manager on the copy's database.
func (m *Machine) c10manager(c *mgrCopy, pub, priv []byte, unlock bool, where string) *waddrmgr.Manager {
	var mgr *waddrmgr.Manager
	var oerr, uerr error
	err := walletdb.View(c.db, func(tx walletdb.ReadTx) error {
		ns := tx.ReadBucket(NSKey)
		mgr, oerr = waddrmgr.Open(ns, pub, m.Params)
		if oerr != nil {
			return nil
		}
		if unlock {
			uerr = mgr.Unlock(ns, priv)
		}
		return nil
	})
	if err != nil {
		c.close()
		m.Inconclusive("read transaction: %v", err)
	}
	if oerr != nil {
		c.close()
		m.Violation("%s the manager cannot be opened with the public passphrase %q: %v", where, pub, oerr)
	}
	if uerr != nil {
		mgr.Close()
		c.close()
		m.Violation("%s the manager cannot be unlocked with the private passphrase %q: %v", where, priv, uerr)
	}
	return mgr
}

func (m *Machine) c10ask(c *mgrCopy, mgr *waddrmgr.Manager, op *FaultOp, post bool) FaultAnswers {
	var fa FaultAnswers
	err := walletdb.View(c.db, func(tx walletdb.ReadTx) error {
		fa = m.askFault(mgr, tx.ReadBucket(NSKey), op, post)
		return nil
	})
	if err != nil {
		m.Inconclusive("read transaction: %v", err)
	}
	return fa
}

// c10run runs the operation in one read-write transaction with the k-th
// mutating call failing (0 = none); the closure returns the operation's error
// so that the transaction rolls back.
func (c *mgrCopy) run(mgr *waddrmgr.Manager, k int, op *FaultOp) (res string, err error, injected bool) {
	c.db.FailAt = k
	before := c.db.Injected
	err = walletdb.Update(c.db, func(tx walletdb.ReadWriteTx) error {
		var e error
		res, e = op.Run(mgr, tx.ReadWriteBucket(NSKey))
		return e
	})
	c.db.FailAt = 0
	return res, err, c.db.Injected > before
}

// EnumerateFaults runs the fault enumeration of op on copies of the current
// database file. It fails the case on a violation.
func (m *Machine) EnumerateFaults(t *rapid.T, op *FaultOp, opts FaultOpts) FaultResult {
	r := FaultResult{KnownHits: map[string]int{}}
	warm := rapid.Bool().Draw(t, "c10warmCaches")
	variant := rapid.IntRange(0, 1).Draw(t, "c10variant")
	dir, err := os.MkdirTemp(scratch(), "verif-c10m-")
	if err != nil {
		m.Inconclusive("mkdtemp: %v", err)
	}
	defer os.RemoveAll(dir)
	var image bytes.Buffer
	if err := m.DB.Copy(&image); err != nil {
		m.Inconclusive("copying the database: %v", err)
	}
	var opened []*mgrCopy
	defer func() {
		for _, c := range opened {
			c.close()
		}
	}()
	unlock := !m.Locked && !m.WatchOnly
	openImage := func(path, where string) *mgrCopy {
		if err := os.WriteFile(path, image.Bytes(), 0o600); err != nil {
			m.Inconclusive("writing a database copy: %v", err)
		}
		c := m.c10open(path, m.PubPass, m.PrivPass, unlock, where)
		opened = append(opened, c)
		return c
	}
	pubAfter, privAfter := m.PubPass, m.PrivPass
	if op.PubAfter != nil {
		pubAfter = op.PubAfter
	}
	if op.PrivAfter != nil {
		privAfter = op.PrivAfter
	}
	unlockAfter := unlock && !op.WatchOnlyAfter

	// reference run on copy 0
	c0 := openImage(filepath.Join(dir, "ref.db"), "[fault enumeration, copy 0]")
	before0 := m.c10ask(c0, c0.mgr, op, false)
	res0, err, _ := c0.run(c0.mgr, 0, op)
	if err != nil {
		r.RefErr = err
		return r
	}
	r.N, r.Log = c0.db.Mutations, c0.db.MutationLog
	post0 := m.c10ask(c0, c0.mgr, op, true)
	shape0 := c0.shape()
	if op.Want != "" && res0 != op.Want {
		m.Violation("[fault enumeration: %s] the run without a fault returned %q, the independent derivation gives %q", op.Desc, res0, op.Want)
	}
	c0.close()
	ignore := map[string]bool{}
	for _, na := range op.NewAddrs {
		ignore["unissued:"+na.Addr] = true
	}
	path := filepath.Join(dir, "k.db")
	for k := 1; k <= r.N; k++ {
		where := fmt.Sprintf("[fault enumeration: %s; lock state %s; write %d of %d (%s) fails]", op.Desc, lockName(unlock), k, r.N, r.Log[k-1])
		for _, c := range opened {
			c.close()
		}
		opened = opened[:0]
		ck := openImage(path, where+" before the operation:")
		before := before0
		if warm {
			before = m.c10ask(ck, ck.mgr, op, false)
		}
		_, err, injected := ck.run(ck.mgr, k, op)
		if !injected {
			r.NotReached++
			continue
		}
		r.Positions++
		if err == nil {
			// success with a failed write: only acceptable with the full effect
			got := m.c10ask(ck, ck.mgr, op, true)
			d, _ := diffFault(post0, got, "full effect", "committed", nil)
			d = append(d, diffShape(shape0, ck.shape(), "full effect", "committed")...)
			if len(d) == 0 {
				r.FullEffect++
				continue
			}
			if opts.KnownIndexSwallow != "" && indexSwallowShape(r.Log, k, d, post0, got) {
				r.KnownHits[opts.KnownIndexSwallow]++
				continue
			}
			m.Violation("%s the operation reported success although one of its writes failed, and the committed state is not its full effect:%s", where, renderDiff(d))
		}
		// (2a) the running manager answers as before
		after := m.c10ask(ck, ck.mgr, op, false)
		d, ign := diffFault(before, after, "before", "after rollback", ignore)
		r.ResidueIgnored += ign
		if len(d) > 0 {
			m.Violation("%s the operation failed (%v) and its transaction was rolled back, but the running manager answers differently from before the operation:%s",
				where, err, renderDiff(d))
		}
		retryOn := ck.mgr
		retryWhat := "on the running manager"
		if (k+variant)%2 == 0 {
			// (2b) close and reopen the file: a restarted manager answers as before
			ck.close()
			ck = m.c10open(path, m.PubPass, m.PrivPass, unlock, where+" after rollback and reopen:")
			opened = append(opened, ck)
			d, _ := diffFault(before, m.c10ask(ck, ck.mgr, op, false), "before", "after rollback and reopen", nil)
			if len(d) > 0 {
				m.Violation("%s the operation failed (%v) and was rolled back, but a manager opened on the reopened database answers differently from before the operation:%s",
					where, err, renderDiff(d))
			}
			retryOn = ck.mgr
			retryWhat = "on the reopened manager"
		} else {
			// (2b') a second manager on the same database is what a restart would read
			fresh := m.c10manager(ck, m.PubPass, m.PrivPass, unlock, where+" after rollback (second manager):")
			d, _ := diffFault(before, m.c10ask(ck, fresh, op, false), "before", "after rollback (fresh manager)", nil)
			fresh.Close()
			if len(d) > 0 {
				m.Violation("%s the operation failed (%v) and was rolled back, but a fresh manager on the database answers differently from before the operation:%s",
					where, err, renderDiff(d))
			}
		}
		// (3) retry without a fault
		res, err2, _ := ck.run(retryOn, 0, op)
		if err2 != nil {
			m.Violation("%s retrying the operation %s without a fault failed: %v (the run without a fault succeeded)", where, retryWhat, err2)
		}
		if res != res0 {
			m.Violation("%s the retried operation (%s) returned %q, the run without a fault returned %q", where, retryWhat, res, res0)
		}
		if op.Want != "" && res != op.Want {
			m.Violation("%s the retried operation (%s) returned %q, the independent derivation gives %q", where, retryWhat, res, op.Want)
		}
		d, _ = diffFault(post0, m.c10ask(ck, retryOn, op, true), "run without fault", "retry after fault", nil)
		if len(d) > 0 {
			m.Violation("%s the retried operation (%s) succeeded but the manager answers differently from the run without a fault:%s", where, retryWhat, renderDiff(d))
		}
		if (k+variant)%2 != 0 && (k >= r.N-1 || op.PubAfter != nil || op.PrivAfter != nil) {
			// the retry ran on the manager that saw the failure: what it wrote
			// must also be what a restart reads (checked for the last positions
			// only: one more manager per position is expensive)
			ck.close()
			ck = m.c10open(path, pubAfter, privAfter, unlockAfter, where+" after the retry and reopen:")
			opened = append(opened, ck)
			d, _ := diffFault(post0, m.c10ask(ck, ck.mgr, op, true), "run without fault", "retry after fault, reopened", nil)
			if len(d) > 0 {
				m.Violation("%s the retried operation (%s) succeeded but after reopening the database the manager answers differently from the run without a fault:%s",
					where, retryWhat, renderDiff(d))
			}
		} else if op.PubAfter != nil || op.PrivAfter != nil {
			// the new passphrases are the ones that work after a restart
			ck.close()
			ck = m.c10open(path, pubAfter, privAfter, unlockAfter || op.PrivAfter != nil, where+" after the retry and reopen:")
			opened = append(opened, ck)
		}
	}
	return r
}

func lockName(unlocked bool) string {
	if unlocked {
		return "unlocked"
	}
	return "locked"
}

// indexSwallowShape: the failed write is the Put that immediately precedes the
// CreateBucketIfNotExists of putAddrAccountIndex (the only place the manager
// calls CreateBucketIfNotExists), and the committed state differs from the full
// effect only in the entries of that index and in the answers that are read
// from it: AddrAccount, ForEachAccountAddress and the imported key count of
// AccountProperties.
func indexSwallowShape(log []string, k int, d []faultDiff, full, got FaultAnswers) bool {
	if k >= len(log) || log[k-1] != "Put" || log[k] != "CreateBucketIfNotExists" {
		return false
	}
	for _, x := range d {
		switch {
		case strings.HasPrefix(x.Key, "addr-account:"), strings.HasPrefix(x.Key, "account-addresses:"):
		case strings.HasPrefix(x.Key, "db:") && strings.Contains(x.Key, fmt.Sprintf("/%x/", "addracctidx")):
			// the entries of the index itself
		case strings.HasPrefix(x.Key, "account:") && strings.HasSuffix(x.Key, "/imported"):
			f, g := full.A.Accounts[strings.TrimPrefix(x.Key, "account:")], got.A.Accounts[strings.TrimPrefix(x.Key, "account:")]
			f.Imported, g.Imported = 0, 0
			if f != g {
				return false
			}
		default:
			return false
		}
	}
	return true
}

// ---- drawing an enabled operation -------------------------------------------

func joinAddrs(mas []waddrmgr.ManagedAddress) string {
	var s []string
	for _, ma := range mas {
		s = append(s, ma.Address().EncodeAddress())
	}
	return strings.Join(s, ",")
}

// FaultKinds lists the operation kinds of the manager half.
var FaultKinds = []string{"next-external", "next-internal", "extend-external", "extend-internal", "new-account", "new-watch-only-account",
	"rename-account", "import-key", "import-script", "mark-used", "set-synced-to", "set-birthday-block", "change-passphrase-public",
	"change-passphrase-private", "new-scope", "convert-to-watching-only"}

// DrawFaultOp draws one mutating manager operation that is enabled in the
// current state; nil when the drawn kind has no enabled instance. The model is
// not changed (except for the counter that keeps imported keys distinct).
func (m *Machine) DrawFaultOp(t *rapid.T) *FaultOp {
	if m.WatchOnly {
		return nil
	}
	unlocked := !m.Locked
	ls := lockName(unlocked)
	var unused []*Issued
	for _, is := range m.Issued {
		if !is.Used {
			unused = append(unused, is)
		}
	}
	var kinds []string
	add := func(k string, w int, ok bool) {
		if ok {
			for i := 0; i < w; i++ {
				kinds = append(kinds, k)
			}
		}
	}
	add("next-external", 2, true)
	add("next-internal", 2, true)
	add("extend-external", 1, true)
	add("extend-internal", 1, true)
	add("new-account", 3, unlocked)
	add("new-watch-only-account", 2, true)
	add("rename-account", 2, true)
	add("import-key", 3, unlocked)
	add("import-script", 3, unlocked)
	add("mark-used", 2, len(unused) > 0)
	add("set-synced-to", 1, true)
	add("set-birthday-block", 1, true)
	add("change-passphrase-public", 1, true)
	add("change-passphrase-private", 1, true)
	add("new-scope", 3, unlocked)
	add("convert-to-watching-only", 1, true)
	kind := rapid.SampledFrom(kinds).Draw(t, "c10kind")
	switch kind {
	case "next-external", "next-internal":
		s := m.drawScope(t)
		a := m.drawAcct(t, s)
		n := uint32(rapid.IntRange(1, 3).Draw(t, "n"))
		branch := uint32(0)
		if kind == "next-internal" {
			branch = 1
		}
		op := &FaultOp{Kind: kind, Class: fmt.Sprintf("%s/%s/n=%d", ls, acctClass(s, a), n), Accounts: []FaultAcct{{s.Scope, a.Num}},
			Desc: fmt.Sprintf("%s scope=%v acct=%d n=%d (next index %d)", kind, s.Scope, a.Num, n, a.Next[branch])}
		var want []string
		for i := uint32(0); i < n; i++ {
			o := m.OracleAddr(a, branch, a.Next[branch]+i)
			want = append(want, o.Addr)
			op.NewAddrs = append(op.NewAddrs, FaultAddr{o.Addr, o.Address})
		}
		op.Want = strings.Join(want, ",")
		sc, num := s.Scope, a.Num
		op.Run = func(mgr *waddrmgr.Manager, ns walletdb.ReadWriteBucket) (string, error) {
			sm, err := c10scoped(mgr, sc)
			if err != nil {
				return "", err
			}
			var mas []waddrmgr.ManagedAddress
			if branch == 1 {
				mas, err = sm.NextInternalAddresses(ns, num, n)
			} else {
				mas, err = sm.NextExternalAddresses(ns, num, n)
			}
			return joinAddrs(mas), err
		}
		return op
	case "extend-external", "extend-internal":
		s := m.drawScope(t)
		a := m.drawAcct(t, s)
		branch := uint32(0)
		if kind == "extend-internal" {
			branch = 1
		}
		last := a.Next[branch] + uint32(rapid.IntRange(0, 3).Draw(t, "extendBy"))
		op := &FaultOp{Kind: kind, Class: fmt.Sprintf("%s/%s/n=%d", ls, acctClass(s, a), last+1-a.Next[branch]), Accounts: []FaultAcct{{s.Scope, a.Num}},
			Desc: fmt.Sprintf("%s scope=%v acct=%d to index %d (next index %d)", kind, s.Scope, a.Num, last, a.Next[branch])}
		for i := a.Next[branch]; i <= last; i++ {
			o := m.OracleAddr(a, branch, i)
			op.NewAddrs = append(op.NewAddrs, FaultAddr{o.Addr, o.Address})
		}
		sc, num := s.Scope, a.Num
		op.Run = func(mgr *waddrmgr.Manager, ns walletdb.ReadWriteBucket) (string, error) {
			sm, err := c10scoped(mgr, sc)
			if err != nil {
				return "", err
			}
			if branch == 1 {
				return "ok", sm.ExtendInternalAddresses(ns, num, last)
			}
			return "ok", sm.ExtendExternalAddresses(ns, num, last)
		}
		return op
	case "new-account":
		s := m.drawScope(t)
		name := rapid.StringMatching(`[a-z]{1,6}`).Draw(t, "acctName") + "q"
		for _, a := range s.Accounts {
			if a.Name == name {
				return nil
			}
		}
		sc, num := s.Scope, s.LastAcct+1
		return &FaultOp{Kind: kind, Class: ls + "/" + scopeClass(s), Desc: fmt.Sprintf("NewAccount scope=%v name=%q", sc, name),
			Want: fmt.Sprint(num),
			Run: func(mgr *waddrmgr.Manager, ns walletdb.ReadWriteBucket) (string, error) {
				sm, err := c10scoped(mgr, sc)
				if err != nil {
					return "", err
				}
				n, err := sm.NewAccount(ns, name)
				return fmt.Sprint(n), err
			},
			Probe: probeAccount(sc, num, name)}
	case "new-watch-only-account":
		s := m.drawScope(t)
		name := "w" + rapid.StringMatching(`[a-z]{1,5}`).Draw(t, "acctName") + "q"
		for _, a := range s.Accounts {
			if a.Name == name {
				return nil
			}
		}
		sk, err := bip32ref.DeriveScope(m.Master2, bip32ref.Scope{Purpose: s.Scope.Purpose, Coin: s.Scope.Coin})
		if err != nil {
			return nil
		}
		k := uint32(rapid.IntRange(0, 5).Draw(t, "srcAcct"))
		ak, err := sk.CoinType.Stored().Child(k + bip32ref.Hardened)
		if err != nil {
			return nil
		}
		_, xpub := ak.Neuter().Serialize(m.Params.HDPublicKeyID)
		for _, a := range s.Accounts {
			if a.XPub == xpub {
				return nil
			}
		}
		hk, err := hdkeychain.NewKeyFromString(xpub)
		if err != nil {
			m.Inconclusive("oracle xpub does not parse: %v", err)
		}
		fp := uint32(rapid.IntRange(0, 1<<30).Draw(t, "fingerprint"))
		var override *waddrmgr.ScopeAddrSchema
		if rapid.IntRange(0, 2).Draw(t, "schemaOverride") == 0 {
			sch := waddrmgr.KeyScopeBIP0049AddrSchema
			override = &sch
		}
		sc, num := s.Scope, s.LastAcct+1
		return &FaultOp{Kind: kind, Class: fmt.Sprintf("%s/%s/override=%v", ls, scopeClass(s), override != nil),
			Desc: fmt.Sprintf("NewAccountWatchingOnly scope=%v name=%q src=%d", sc, name, k), Want: fmt.Sprint(num),
			Run: func(mgr *waddrmgr.Manager, ns walletdb.ReadWriteBucket) (string, error) {
				sm, err := c10scoped(mgr, sc)
				if err != nil {
					return "", err
				}
				n, err := sm.NewAccountWatchingOnly(ns, name, hk, fp, override)
				return fmt.Sprint(n), err
			},
			Probe: probeAccount(sc, num, name)}
	case "rename-account":
		s := m.drawScope(t)
		a := m.drawAcct(t, s)
		name := rapid.StringMatching(`[a-z]{1,6}`).Draw(t, "newName") + "rq"
		for _, o := range s.Accounts {
			if o.Name == name {
				return nil
			}
		}
		sc, num, old := s.Scope, a.Num, a.Name
		return &FaultOp{Kind: kind, Class: ls + "/" + acctClass(s, a), Desc: fmt.Sprintf("RenameAccount scope=%v acct=%d %q -> %q", sc, num, old, name),
			Run: func(mgr *waddrmgr.Manager, ns walletdb.ReadWriteBucket) (string, error) {
				sm, err := c10scoped(mgr, sc)
				if err != nil {
					return "", err
				}
				return "ok", sm.RenameAccount(ns, num, name)
			},
			Probe: func(mgr *waddrmgr.Manager, ns walletdb.ReadBucket, out map[string]string) {
				sm, err := c10scoped(mgr, sc)
				if err != nil {
					return
				}
				for _, nm := range []string{old, name} {
					if n, err := sm.LookupAccount(ns, nm); err == nil {
						out["lookup-account:"+nm] = fmt.Sprint(n)
					} else {
						out["lookup-account:"+nm] = "ERR " + errCode(err)
					}
				}
			}}
	case "import-key":
		s := m.drawScope(t)
		compressed := true
		if s.ExtKind == bip32ref.P2PKH {
			compressed = rapid.Bool().Draw(t, "compressed")
		}
		wif := m.nextWIF(t, compressed)
		want, aerr := bip32ref.Address(wif.SerializePubKey(), s.ExtKind, m.Params)
		if aerr != nil {
			m.Inconclusive("oracle address: %v", aerr)
		}
		if !compressed {
			want, _ = btcutil.NewAddressPubKeyHash(btcutil.Hash160(wif.SerializePubKey()), m.Params)
		}
		sc := s.Scope
		stamp := m.importStamp()
		return &FaultOp{Kind: kind, Class: ls + "/" + scopeClass(s), Desc: fmt.Sprintf("ImportPrivateKey scope=%v compressed=%v", sc, compressed),
			Want: want.EncodeAddress(), NewAddrs: []FaultAddr{{want.EncodeAddress(), want}}, Accounts: []FaultAcct{{sc, waddrmgr.ImportedAddrAccount}},
			Run: func(mgr *waddrmgr.Manager, ns walletdb.ReadWriteBucket) (string, error) {
				sm, err := c10scoped(mgr, sc)
				if err != nil {
					return "", err
				}
				ma, err := sm.ImportPrivateKey(ns, wif, stamp)
				if err != nil {
					return "", err
				}
				return ma.Address().EncodeAddress(), nil
			}}
	case "import-script":
		s := m.drawScope(t)
		sk := rapid.SampledFrom([]string{"p2sh", "p2wsh-secret", "p2wsh-public"}).Draw(t, "scriptKind")
		m.wifPool++
		k1 := m.nextWIF(t, true)
		script, err := txscript.NewScriptBuilder().AddData(k1.SerializePubKey()).AddOp(txscript.OP_CHECKSIG).Script()
		if err != nil {
			m.Inconclusive("script: %v", err)
		}
		var want btcutil.Address
		if sk == "p2sh" {
			want, _ = btcutil.NewAddressScriptHash(script, m.Params)
		} else {
			want, _ = btcutil.NewAddressWitnessScriptHash(chainhash.HashB(script), m.Params)
		}
		sc := s.Scope
		stamp := m.importStamp()
		return &FaultOp{Kind: kind, Class: ls + "/" + sk, Desc: fmt.Sprintf("import %s script scope=%v", sk, sc),
			Want: want.EncodeAddress(), NewAddrs: []FaultAddr{{want.EncodeAddress(), want}}, Accounts: []FaultAcct{{sc, waddrmgr.ImportedAddrAccount}},
			Run: func(mgr *waddrmgr.Manager, ns walletdb.ReadWriteBucket) (string, error) {
				sm, err := c10scoped(mgr, sc)
				if err != nil {
					return "", err
				}
				var ma waddrmgr.ManagedScriptAddress
				if sk == "p2sh" {
					ma, err = sm.ImportScript(ns, script, stamp)
				} else {
					ma, err = sm.ImportWitnessScript(ns, script, stamp, 0, sk == "p2wsh-secret")
				}
				if err != nil {
					return "", err
				}
				return ma.Address().EncodeAddress(), nil
			}}
	case "mark-used":
		is := unused[rapid.IntRange(0, len(unused)-1).Draw(t, "which")]
		addr := is.Address
		return &FaultOp{Kind: kind, Class: ls, Desc: fmt.Sprintf("MarkUsed(%s)", is.Addr),
			Run: func(mgr *waddrmgr.Manager, ns walletdb.ReadWriteBucket) (string, error) {
				return "ok", mgr.MarkUsed(ns, addr)
			},
			Probe: func(mgr *waddrmgr.Manager, ns walletdb.ReadBucket, out map[string]string) {
				// a fresh lookup of the address, not through Ask's rendering only
				if ma, err := mgr.Address(ns, addr); err == nil {
					out["used:"+is.Addr] = fmt.Sprint(ma.Used(ns))
				}
			}}
	case "set-synced-to":
		// any height from genesis to one above the tip: moving the tip back by
		// several blocks also has to forget the hashes above the new tip
		h := int32(rapid.IntRange(0, int(m.SyncedTo.Height)+1).Draw(t, "syncHeight"))
		var hash chainhash.Hash
		hash[0], hash[1], hash[2], hash[3] = byte(h), byte(h>>8), byte(rapid.IntRange(0, 255).Draw(t, "fork")), 0xc1
		bs := waddrmgr.BlockStamp{Height: h, Hash: hash, Timestamp: m.Birthday}
		return &FaultOp{Kind: kind, Class: ls, Desc: fmt.Sprintf("SetSyncedTo(h=%d) from %d", h, m.SyncedTo.Height),
			Run: func(mgr *waddrmgr.Manager, ns walletdb.ReadWriteBucket) (string, error) {
				b := bs
				return "ok", mgr.SetSyncedTo(ns, &b)
			}}
	case "set-birthday-block":
		h := int32(rapid.IntRange(0, 5).Draw(t, "bdayHeight"))
		var hash chainhash.Hash
		hash[0], hash[1], hash[31] = byte(h), byte(rapid.IntRange(0, 255).Draw(t, "fork")), 0xbd
		verified := rapid.Bool().Draw(t, "verified")
		bs := waddrmgr.BlockStamp{Height: h, Hash: hash, Timestamp: m.Birthday}
		return &FaultOp{Kind: kind, Class: ls, Desc: fmt.Sprintf("SetBirthdayBlock(h=%d, verified=%v)", h, verified),
			Run: func(mgr *waddrmgr.Manager, ns walletdb.ReadWriteBucket) (string, error) {
				return "ok", mgr.SetBirthdayBlock(ns, bs, verified)
			},
			Probe: func(mgr *waddrmgr.Manager, ns walletdb.ReadBucket, out map[string]string) {
				b, v, err := mgr.BirthdayBlock(ns)
				if err != nil {
					out["birthday-block"] = "ERR " + errCode(err)
				} else {
					out["birthday-block"] = fmt.Sprintf("%d/%v verified=%v", b.Height, b.Hash, v)
				}
			}}
	case "change-passphrase-public", "change-passphrase-private":
		private := kind == "change-passphrase-private"
		newPass := []byte(rapid.StringMatching(`[A-Za-z0-9]{1,10}`).Draw(t, "newPass"))
		old := m.PubPass
		if private {
			old = m.PrivPass
		}
		old = append([]byte(nil), old...)
		op := &FaultOp{Kind: kind, Class: ls, Desc: fmt.Sprintf("ChangePassphrase(private=%v) %q -> %q", private, old, newPass),
			Run: func(mgr *waddrmgr.Manager, ns walletdb.ReadWriteBucket) (string, error) {
				return "ok", mgr.ChangePassphrase(ns, append([]byte(nil), old...), append([]byte(nil), newPass...), private, &waddrmgr.DefaultScryptOptions)
			}}
		if private {
			op.PrivAfter = newPass
		} else {
			op.PubAfter = newPass
		}
		return op
	case "new-scope":
		sc := waddrmgr.KeyScope{Purpose: uint32(1000 + rapid.IntRange(0, 3).Draw(t, "purpose")), Coin: uint32(rapid.IntRange(0, 2).Draw(t, "coin"))}
		if m.Scopes[sc] != nil {
			return nil
		}
		types := []waddrmgr.AddressType{waddrmgr.PubKeyHash, waddrmgr.NestedWitnessPubKey, waddrmgr.WitnessPubKey, waddrmgr.TaprootPubKey}
		schema := waddrmgr.ScopeAddrSchema{
			ExternalAddrType: rapid.SampledFrom(types).Draw(t, "extType"),
			InternalAddrType: rapid.SampledFrom(types).Draw(t, "intType"),
		}
		return &FaultOp{Kind: kind, Class: ls, Desc: fmt.Sprintf("NewScopedKeyManager(%v, %+v)", sc, schema),
			Run: func(mgr *waddrmgr.Manager, ns walletdb.ReadWriteBucket) (string, error) {
				_, err := mgr.NewScopedKeyManager(ns, sc, schema)
				return "ok", err
			},
			Probe: func(mgr *waddrmgr.Manager, ns walletdb.ReadBucket, out map[string]string) {
				sm, err := mgr.FetchScopedKeyManager(sc)
				if err != nil {
					out[fmt.Sprintf("scope:%v", sc)] = "ERR " + errCode(err)
					return
				}
				out[fmt.Sprintf("scope:%v", sc)] = fmt.Sprintf("schema=%+v", sm.AddrSchema())
				if p, err := sm.AccountProperties(ns, 0); err == nil {
					out[fmt.Sprintf("scope:%v/0", sc)] = fmt.Sprintf("name=%s ext=%d int=%d key=%v", p.AccountName, p.ExternalKeyCount, p.InternalKeyCount, p.AccountPubKey)
				} else {
					out[fmt.Sprintf("scope:%v/0", sc)] = "ERR " + errCode(err)
				}
				if last, err := sm.LastAccount(ns); err == nil {
					out[fmt.Sprintf("scope:%v/last", sc)] = fmt.Sprint(last)
				} else {
					out[fmt.Sprintf("scope:%v/last", sc)] = "ERR " + errCode(err)
				}
			}}
	default: // convert-to-watching-only
		return &FaultOp{Kind: "convert-to-watching-only", Class: fmt.Sprintf("%s/imports=%v/scopes=%d", ls, len(m.Imports) > 0, len(m.Scopes)),
			Desc: "ConvertToWatchingOnly", WatchOnlyAfter: true,
			Run: func(mgr *waddrmgr.Manager, ns walletdb.ReadWriteBucket) (string, error) {
				return "ok", mgr.ConvertToWatchingOnly(ns)
			}}
	}
}

func scopeClass(s *ScopeModel) string {
	if s.Custom {
		return "custom-scope"
	}
	return "default-scope"
}

func acctClass(s *ScopeModel, a *AcctModel) string {
	c := scopeClass(s)
	switch {
	case a.WatchOnly:
		c += "/xpub-account"
	case a.Num == 0:
		c += "/account-0"
	default:
		c += "/later-account"
	}
	return c
}

// probeAccount asks about an account that the operation is about to create.
func probeAccount(sc waddrmgr.KeyScope, num uint32, name string) func(mgr *waddrmgr.Manager, ns walletdb.ReadBucket, out map[string]string) {
	return func(mgr *waddrmgr.Manager, ns walletdb.ReadBucket, out map[string]string) {
		sm, err := c10scoped(mgr, sc)
		if err != nil {
			return
		}
		if n, err := sm.LookupAccount(ns, name); err == nil {
			out["lookup-account:"+name] = fmt.Sprint(n)
		} else {
			out["lookup-account:"+name] = "ERR " + errCode(err)
		}
		if nm, err := sm.AccountName(ns, num); err == nil {
			out[fmt.Sprintf("account-name:%d", num)] = nm
		} else {
			out[fmt.Sprintf("account-name:%d", num)] = "ERR " + errCode(err)
		}
		if p, err := sm.AccountProperties(ns, num); err == nil {
			out[fmt.Sprintf("account-properties:%d", num)] = fmt.Sprintf("name=%s ext=%d int=%d key=%v watch-only=%v", p.AccountName, p.ExternalKeyCount,
				p.InternalKeyCount, p.AccountPubKey, p.IsWatchOnly)
		} else {
			out[fmt.Sprintf("account-properties:%d", num)] = "ERR " + errCode(err)
		}
	}
}

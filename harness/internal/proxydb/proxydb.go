// Package proxydb wraps a walletdb.DB (and its transactions, buckets and
// cursors) by delegation, adding four switchable behaviours used by the
// checks: counting / failing the k-th mutating call of a transaction (C10),
// a callback after every successful commit (C04), turning a commit into a
// failed commit (C08), and gating OnCommit handlers (C09). The code under test
// only ever sees walletdb interfaces, so no hook in /repo is needed.
package proxydb

import (
	"errors"
	"io"
	"sync"

	"github.com/btcsuite/btcwallet/walletdb"
)

// ErrInjected is returned by a mutating call selected for failure.
var ErrInjected = errors.New("proxydb: injected write failure")

// ErrCommitFailed is returned by a commit that was turned into a failure.
var ErrCommitFailed = errors.New("proxydb: injected commit failure")

// DB is the proxy.
type DB struct {
	Inner walletdb.DB

	mu sync.Mutex
	// FailAt > 0: the FailAt-th mutating call (1-based) of the next
	// read-write transactions fails with ErrInjected. Counting restarts in
	// every transaction.
	FailAt int
	// Mutations is the number of mutating calls seen in the last finished
	// read-write transaction.
	Mutations int
	// MutationLog names the mutating calls of the last transaction.
	MutationLog []string
	// FailNextCommit makes the next Commit roll back and return ErrCommitFailed.
	FailNextCommit bool
	// AfterCommit is called after every successful commit (handlers already ran).
	AfterCommit func()
	// Gate, when set, is called at the start of every OnCommit handler.
	Gate func()
	// Injected counts how many failures were injected.
	Injected int
}

// New wraps db.
func New(db walletdb.DB) *DB { return &DB{Inner: db} }

// BeginReadTx implements walletdb.DB.
func (d *DB) BeginReadTx() (walletdb.ReadTx, error) {
	tx, err := d.Inner.BeginReadTx()
	if err != nil {
		return nil, err
	}
	return &rtx{d: d, inner: tx}, nil
}

// BeginReadWriteTx implements walletdb.DB.
func (d *DB) BeginReadWriteTx() (walletdb.ReadWriteTx, error) {
	tx, err := d.Inner.BeginReadWriteTx()
	if err != nil {
		return nil, err
	}
	return &rwtx{d: d, inner: tx}, nil
}

// Copy implements walletdb.DB.
func (d *DB) Copy(w io.Writer) error { return d.Inner.Copy(w) }

// Close implements walletdb.DB.
func (d *DB) Close() error { return d.Inner.Close() }

// PrintStats implements walletdb.DB.
func (d *DB) PrintStats() string { return d.Inner.PrintStats() }

// View implements walletdb.DB.
func (d *DB) View(f func(tx walletdb.ReadTx) error, reset func()) error {
	reset()
	tx, err := d.BeginReadTx()
	if err != nil {
		return err
	}
	defer tx.Rollback()
	return f(tx)
}

// Update implements walletdb.DB with the semantics of bdb's Update: roll back
// on error or panic, commit otherwise.
func (d *DB) Update(f func(tx walletdb.ReadWriteTx) error, reset func()) error {
	reset()
	tx, err := d.BeginReadWriteTx()
	if err != nil {
		return err
	}
	done := false
	defer func() {
		if !done {
			tx.Rollback()
		}
	}()
	if err := f(tx); err != nil {
		done = true
		tx.Rollback()
		return err
	}
	done = true
	return tx.Commit()
}

// Batch implements walletdb.BatchDB (no batching: one update).
func (d *DB) Batch(f func(tx walletdb.ReadWriteTx) error) error {
	return d.Update(f, func() {})
}

// ---- transactions -----------------------------------------------------------

type rtx struct {
	d     *DB
	inner walletdb.ReadTx
}

func (t *rtx) ReadBucket(key []byte) walletdb.ReadBucket {
	b := t.inner.ReadBucket(key)
	if b == nil {
		return nil
	}
	return &rbucket{inner: b}
}
func (t *rtx) ForEachBucket(f func(key []byte) error) error { return t.inner.ForEachBucket(f) }
func (t *rtx) Rollback() error                              { return t.inner.Rollback() }

type rwtx struct {
	d        *DB
	inner    walletdb.ReadWriteTx
	n        int
	log      []string
	finished bool
}

// mutate is called before every mutating call; it returns ErrInjected when
// this call is the one selected for failure.
func (t *rwtx) mutate(what string) error {
	t.n++
	t.log = append(t.log, what)
	t.d.mu.Lock()
	defer t.d.mu.Unlock()
	if t.d.FailAt > 0 && t.n == t.d.FailAt {
		t.d.Injected++
		return ErrInjected
	}
	return nil
}

func (t *rwtx) finish() {
	if t.finished {
		return
	}
	t.finished = true
	t.d.mu.Lock()
	t.d.Mutations = t.n
	t.d.MutationLog = t.log
	t.d.mu.Unlock()
}

func (t *rwtx) ReadBucket(key []byte) walletdb.ReadBucket {
	b := t.inner.ReadBucket(key)
	if b == nil {
		return nil
	}
	return &rbucket{inner: b}
}
func (t *rwtx) ForEachBucket(f func(key []byte) error) error { return t.inner.ForEachBucket(f) }
func (t *rwtx) Rollback() error {
	t.finish()
	return t.inner.Rollback()
}
func (t *rwtx) ReadWriteBucket(key []byte) walletdb.ReadWriteBucket {
	b := t.inner.ReadWriteBucket(key)
	if b == nil {
		return nil
	}
	return &rwbucket{t: t, inner: b}
}
func (t *rwtx) CreateTopLevelBucket(key []byte) (walletdb.ReadWriteBucket, error) {
	if err := t.mutate("CreateTopLevelBucket"); err != nil {
		return nil, err
	}
	b, err := t.inner.CreateTopLevelBucket(key)
	if err != nil {
		return nil, err
	}
	return &rwbucket{t: t, inner: b}, nil
}
func (t *rwtx) DeleteTopLevelBucket(key []byte) error {
	if err := t.mutate("DeleteTopLevelBucket"); err != nil {
		return err
	}
	return t.inner.DeleteTopLevelBucket(key)
}
func (t *rwtx) Commit() error {
	t.finish()
	t.d.mu.Lock()
	fail := t.d.FailNextCommit
	t.d.FailNextCommit = false
	after := t.d.AfterCommit
	t.d.mu.Unlock()
	if fail {
		t.inner.Rollback()
		return ErrCommitFailed
	}
	if err := t.inner.Commit(); err != nil {
		return err
	}
	if after != nil {
		after()
	}
	return nil
}
func (t *rwtx) OnCommit(f func()) {
	t.inner.OnCommit(func() {
		t.d.mu.Lock()
		g := t.d.Gate
		t.d.mu.Unlock()
		if g != nil {
			g()
		}
		f()
	})
}

// ---- buckets ------------------------------------------------------------------

type rbucket struct{ inner walletdb.ReadBucket }

func (b *rbucket) NestedReadBucket(key []byte) walletdb.ReadBucket {
	n := b.inner.NestedReadBucket(key)
	if n == nil {
		return nil
	}
	return &rbucket{inner: n}
}
func (b *rbucket) ForEach(f func(k, v []byte) error) error { return b.inner.ForEach(f) }
func (b *rbucket) Get(key []byte) []byte                   { return b.inner.Get(key) }
func (b *rbucket) ReadCursor() walletdb.ReadCursor         { return b.inner.ReadCursor() }
func (b *rbucket) Sequence() uint64                        { return b.inner.Sequence() }

type rwbucket struct {
	t     *rwtx
	inner walletdb.ReadWriteBucket
}

func (b *rwbucket) NestedReadBucket(key []byte) walletdb.ReadBucket {
	n := b.inner.NestedReadWriteBucket(key)
	if n == nil {
		return nil
	}
	return &rwbucket{t: b.t, inner: n}
}
func (b *rwbucket) ForEach(f func(k, v []byte) error) error { return b.inner.ForEach(f) }
func (b *rwbucket) Get(key []byte) []byte                   { return b.inner.Get(key) }
func (b *rwbucket) ReadCursor() walletdb.ReadCursor         { return b.inner.ReadCursor() }
func (b *rwbucket) Sequence() uint64                        { return b.inner.Sequence() }
func (b *rwbucket) NestedReadWriteBucket(key []byte) walletdb.ReadWriteBucket {
	n := b.inner.NestedReadWriteBucket(key)
	if n == nil {
		return nil
	}
	return &rwbucket{t: b.t, inner: n}
}
func (b *rwbucket) CreateBucket(key []byte) (walletdb.ReadWriteBucket, error) {
	if err := b.t.mutate("CreateBucket"); err != nil {
		return nil, err
	}
	n, err := b.inner.CreateBucket(key)
	if err != nil {
		return nil, err
	}
	return &rwbucket{t: b.t, inner: n}, nil
}
func (b *rwbucket) CreateBucketIfNotExists(key []byte) (walletdb.ReadWriteBucket, error) {
	if err := b.t.mutate("CreateBucketIfNotExists"); err != nil {
		return nil, err
	}
	n, err := b.inner.CreateBucketIfNotExists(key)
	if err != nil {
		return nil, err
	}
	return &rwbucket{t: b.t, inner: n}, nil
}
func (b *rwbucket) DeleteNestedBucket(key []byte) error {
	if err := b.t.mutate("DeleteNestedBucket"); err != nil {
		return err
	}
	return b.inner.DeleteNestedBucket(key)
}
func (b *rwbucket) Put(key, value []byte) error {
	if err := b.t.mutate("Put"); err != nil {
		return err
	}
	return b.inner.Put(key, value)
}
func (b *rwbucket) Delete(key []byte) error {
	if err := b.t.mutate("Delete"); err != nil {
		return err
	}
	return b.inner.Delete(key)
}
func (b *rwbucket) ReadWriteCursor() walletdb.ReadWriteCursor {
	return &rwcursor{t: b.t, inner: b.inner.ReadWriteCursor()}
}
func (b *rwbucket) Tx() walletdb.ReadWriteTx { return b.t }
func (b *rwbucket) NextSequence() (uint64, error) {
	if err := b.t.mutate("NextSequence"); err != nil {
		return 0, err
	}
	return b.inner.NextSequence()
}
func (b *rwbucket) SetSequence(v uint64) error {
	if err := b.t.mutate("SetSequence"); err != nil {
		return err
	}
	return b.inner.SetSequence(v)
}

type rwcursor struct {
	t     *rwtx
	inner walletdb.ReadWriteCursor
}

func (c *rwcursor) First() ([]byte, []byte)        { return c.inner.First() }
func (c *rwcursor) Last() ([]byte, []byte)         { return c.inner.Last() }
func (c *rwcursor) Next() ([]byte, []byte)         { return c.inner.Next() }
func (c *rwcursor) Prev() ([]byte, []byte)         { return c.inner.Prev() }
func (c *rwcursor) Seek(s []byte) ([]byte, []byte) { return c.inner.Seek(s) }
func (c *rwcursor) Delete() error {
	if err := c.t.mutate("Cursor.Delete"); err != nil {
		return err
	}
	return c.inner.Delete()
}

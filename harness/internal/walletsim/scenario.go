package walletsim

import (
	"encoding/binary"
	"fmt"
	"github.com/btcsuite/btcd/btcec/v2"
	"github.com/btcsuite/btcd/btcutil"
	"time"

	"github.com/btcsuite/btcd/chaincfg"
	"github.com/btcsuite/btcd/chaincfg/chainhash"
	"github.com/btcsuite/btcd/txscript"
	"github.com/btcsuite/btcd/wire"
	"github.com/btcsuite/btcwallet/waddrmgr"
	"github.com/btcsuite/btcwallet/walletdb"
	"github.com/btcsuite/btcwallet/wtxmgr"
	"pgregory.net/rapid"

	"verifharness/internal/evid"
	"verifharness/internal/simchain"
)

// Scenario is a funded, unlocked wallet with a harness-side coin ledger; it is
// the common starting point of the transaction-creation checks (C06, C09, C20).
type Scenario struct {
	T    *rapid.T
	F    *Fixture
	C    *evid.Case
	Book *Book
	Now  time.Time
	ext  uint32
	// Locked / Leased mirror what the harness asked the wallet to lock or lease.
	Locked map[wire.OutPoint]bool
	Leased map[wire.OutPoint]wtxmgr.LockID
	// Accounts lists the account numbers that exist per default scope.
	Accounts map[waddrmgr.KeyScope][]uint32
}

// WrapNext, when set, wraps the database of the next scenario's wallet.
var WrapNext func(walletdb.DB) walletdb.DB

// NewScenario creates the wallet on a fresh chain of `blocks` blocks, starts
// and unlocks it, creates `extraAccounts` additional accounts per scope and
// obtains external and change addresses on every (scope, account).
func NewScenario(t *rapid.T, prop string, c *evid.Case, blocks int, extraAccounts int) *Scenario {
	seed := rapid.SliceOfN(rapid.Byte(), 32, 32).Draw(t, "seed")
	t0 := time.Unix(1_700_000_000, 0)
	// a quarter of the wallets are opened with a recovery window (the daemon's
	// default): every start and resynchronisation then runs the recovery loop
	recov := uint32(rapid.SampledFrom([]int{0, 0, 0, 5}).Draw(t, "recoveryWindow"))
	f := New(t, prop, &chaincfg.RegressionNetParams, seed, t0, recov)
	f.WrapDB = WrapNext
	f.Text = c.Text
	f.Style = simchain.Style(rapid.IntRange(0, 1).Draw(t, "style"))
	s := &Scenario{T: t, F: f, C: c, Book: NewBook(), Locked: map[wire.OutPoint]bool{}, Leased: map[wire.OutPoint]wtxmgr.LockID{},
		Accounts: map[waddrmgr.KeyScope][]uint32{}}
	s.Now = t0.Add(-100 * time.Hour)
	for i := 0; i < blocks; i++ {
		s.Now = s.Now.Add(10 * time.Minute)
		f.Chain.Extend(nil, s.Now, nil, 0)
	}
	f.Open()
	f.Connect()
	f.Unlock()
	for _, sc := range waddrmgr.DefaultKeyScopes {
		s.Accounts[sc] = []uint32{0}
		for k := 0; k < extraAccounts; k++ {
			n, err := f.W.NextAccount(sc, fmt.Sprintf("acct%d", k+1))
			if err != nil {
				f.Violation("NextAccount(%v) failed: %v", sc, err)
			}
			s.Accounts[sc] = append(s.Accounts[sc], n)
		}
		for _, acct := range s.Accounts[sc] {
			a, err := f.W.NewAddress(acct, sc)
			if err != nil {
				f.Violation("NewAddress(%d, %v) failed: %v", acct, sc, err)
			}
			s.Book.Add(&OwnAddr{Addr: a, Scope: sc, Account: acct, Branch: 0})
			ch, err := f.W.NewChangeAddress(acct, sc)
			if err != nil {
				f.Violation("NewChangeAddress(%d, %v) failed: %v", acct, sc, err)
			}
			s.Book.Add(&OwnAddr{Addr: ch, Scope: sc, Account: acct, Branch: 1})
		}
	}
	c.Logf("style=%d chain=%d blocks, accounts per scope=%d, %d own addresses, recovery window %d", f.Style, blocks, 1+extraAccounts, len(s.Book.List), recov)
	if recov > 0 {
		c.Class("opened-with-recovery-window")
	}
	return s
}

// ImportKeys imports n private keys (drawn scopes) into the wallet: their
// addresses belong to the imported-address account of their scope, which can
// be funded and spent from like any other account.
func (s *Scenario) ImportKeys(n int) {
	for i := 0; i < n; i++ {
		sc := waddrmgr.DefaultKeyScopes[rapid.IntRange(0, 3).Draw(s.T, "importScope")]
		raw := make([]byte, 32)
		raw[0], raw[1], raw[2] = 0x31, byte(i+1), byte(len(s.Book.List))
		copy(raw[3:], s.F.Seed[:20])
		priv, _ := btcec.PrivKeyFromBytes(raw)
		wif, err := btcutil.NewWIF(priv, s.F.Params, true)
		if err != nil {
			s.F.Inconclusive("NewWIF: %v", err)
		}
		addrStr, err := s.F.W.ImportPrivateKey(sc, wif, &waddrmgr.BlockStamp{Hash: *s.F.Params.GenesisHash}, false)
		if err != nil {
			s.F.Violation("ImportPrivateKey(%v) on an unlocked wallet failed: %v", sc, err)
		}
		addr, err := btcutil.DecodeAddress(addrStr, s.F.Params)
		if err != nil {
			s.F.Violation("ImportPrivateKey returned the undecodable address %q: %v", addrStr, err)
		}
		own := &OwnAddr{Addr: addr, Scope: sc, Account: waddrmgr.ImportedAddrAccount}
		s.Book.Add(own)
		has := false
		for _, a := range s.Accounts[sc] {
			has = has || a == waddrmgr.ImportedAddrAccount
		}
		if !has {
			s.Accounts[sc] = append(s.Accounts[sc], waddrmgr.ImportedAddrAccount)
		}
		s.C.Logf("imported key into %v: %s", sc, own.Addr)
	}
	if n > 0 {
		s.C.Class("imported-keys")
	}
}

// Tick advances the harness clock used for block timestamps.
func (s *Scenario) Tick() time.Time {
	s.Now = s.Now.Add(10 * time.Minute)
	return s.Now
}

// FundingTx builds a transaction paying `n` drawn own addresses from an
// outpoint outside the wallet.
func (s *Scenario) FundingTx(n int) *wire.MsgTx {
	s.ext++
	var h chainhash.Hash
	binary.LittleEndian.PutUint32(h[:], s.ext)
	h[31] = 0xfa
	tx := wire.NewMsgTx(2)
	tx.AddTxIn(wire.NewTxIn(&wire.OutPoint{Hash: h, Index: 0}, nil, nil))
	for i := 0; i < n; i++ {
		own := s.Book.List[rapid.IntRange(0, len(s.Book.List)-1).Draw(s.T, "payTo")]
		amt := int64(rapid.IntRange(2_000, 3_000_000).Draw(s.T, "amount"))
		tx.AddTxOut(wire.NewTxOut(amt, own.Script))
	}
	return tx
}

// Mine mines n blocks; the first takes the given transactions plus the
// mempool's (in arrival order, which is parent-first).
func (s *Scenario) Mine(n int, txs []*wire.MsgTx, cbTo *OwnAddr) {
	for i := 0; i < n; i++ {
		var in []*wire.MsgTx
		if i == 0 {
			in = append(in, s.F.Chain.Mempool()...)
			in = append(in, txs...)
		}
		var script []byte
		var val int64
		if cbTo != nil && i == 0 {
			script, val = cbTo.Script, 50_000_000
		}
		b := s.F.Chain.Extend(in, s.Tick(), script, val)
		if len(in) > 0 || script != nil {
			s.C.Logf("block %d with %d txs (coinbase to wallet: %v)", b.Height, len(in), script != nil)
		}
	}
	s.F.Quiesce()
}

// ExternalScript returns a fresh script outside the wallet of a drawn type.
func (s *Scenario) ExternalScript() []byte {
	s.ext++
	b := make([]byte, 32)
	binary.LittleEndian.PutUint32(b, s.ext)
	b[31] = 0x3e
	switch rapid.IntRange(0, 4).Draw(s.T, "destType") {
	case 0: // P2PKH
		return append(append([]byte{0x76, 0xa9, 0x14}, b[:20]...), 0x88, 0xac)
	case 1: // P2SH
		return append(append([]byte{0xa9, 0x14}, b[:20]...), 0x87)
	case 2: // P2WPKH
		return append([]byte{0x00, 0x14}, b[:20]...)
	case 3: // P2WSH
		return append([]byte{0x00, 0x20}, b...)
	default: // P2TR (any 32-byte x-only value is accepted as an output key by the script rules for creation)
		return append([]byte{0x51, 0x20}, b...)
	}
}

// EligibleQuery describes a transaction-creation request for the eligibility model.
type EligibleQuery struct {
	Scope   *waddrmgr.KeyScope // nil: any default scope
	Account uint32
	MinConf int32
}

// Eligible computes the model's eligible coin set for a request: credited to
// the requested account (and scope), unspent by any known confirmed or
// unconfirmed transaction, not locked, not leased, confirmed at least minconf
// times at the backend's tip and, if coinbase, mature.
func (s *Scenario) Eligible(q EligibleQuery) map[wire.OutPoint]*Coin {
	tip := s.F.Chain.Tip().Height
	mat := int32(s.F.Params.CoinbaseMaturity)
	out := map[wire.OutPoint]*Coin{}
	for _, co := range s.Book.Coins(s.F.Chain) {
		if co.SpentBy != nil || s.Locked[co.OutPoint] {
			continue
		}
		if _, leased := s.Leased[co.OutPoint]; leased {
			continue
		}
		if co.Own.Account != q.Account {
			continue
		}
		if q.Scope != nil && co.Own.Scope != *q.Scope {
			continue
		}
		confs := int32(0)
		if co.Block != nil {
			confs = tip - co.Block.Height + 1
		}
		if confs < q.MinConf {
			continue
		}
		if co.Coinbase && confs < mat {
			continue
		}
		out[co.OutPoint] = co
	}
	return out
}

// IneligibleKinds counts, for the non-triviality rule, how many different kinds
// of ineligible coins exist for a request.
func (s *Scenario) IneligibleKinds(q EligibleQuery) map[string]int {
	tip := s.F.Chain.Tip().Height
	mat := int32(s.F.Params.CoinbaseMaturity)
	kinds := map[string]int{}
	for _, co := range s.Book.Coins(s.F.Chain) {
		confs := int32(0)
		if co.Block != nil {
			confs = tip - co.Block.Height + 1
		}
		switch {
		case co.SpentBy != nil:
			kinds["spent"]++
		case s.Locked[co.OutPoint]:
			kinds["locked"]++
		case func() bool { _, l := s.Leased[co.OutPoint]; return l }():
			kinds["leased"]++
		case co.Own.Account != q.Account:
			kinds["other-account"]++
		case q.Scope != nil && co.Own.Scope != *q.Scope:
			kinds["other-scope"]++
		case confs < q.MinConf:
			kinds["too-few-confirmations"]++
		case co.Coinbase && confs < mat:
			kinds["immature-coinbase"]++
		}
	}
	return kinds
}

// OwnFromWallet asks the wallet whether a script is one of its own (used for
// change addresses the wallet created itself) and returns the book entry.
func OwnFromWallet(f *Fixture, script []byte) *OwnAddr {
	_, addrs, _, err := txscriptExtract(script, f.Params)
	if err != nil || len(addrs) != 1 {
		return nil
	}
	ma, err := f.W.AddressInfo(addrs[0])
	if err != nil {
		return nil
	}
	own := &OwnAddr{Addr: addrs[0], Script: script, Account: ma.InternalAccount(), Branch: 1}
	if pk, ok := ma.(waddrmgr.ManagedPubKeyAddress); ok {
		sc, _, _ := pk.DerivationInfo()
		own.Scope = sc
	}
	return own
}

var txscriptExtract = txscript.ExtractPkScriptAddrs

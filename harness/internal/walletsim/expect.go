package walletsim

import (
	"fmt"
	"sort"
	"time"

	"github.com/btcsuite/btcd/btcutil"
	"github.com/btcsuite/btcd/chaincfg/chainhash"
	"github.com/btcsuite/btcd/txscript"
	"github.com/btcsuite/btcd/wire"
	"github.com/btcsuite/btcwallet/waddrmgr"
	"github.com/btcsuite/btcwallet/wallet"
	"github.com/btcsuite/btcwallet/walletdb"
	"github.com/btcsuite/btcwallet/wtxmgr"

	"verifharness/internal/simchain"
)

// OwnAddr is an address the harness obtained from the wallet (or derived for
// it), with what the harness knows about it.
type OwnAddr struct {
	Addr    btcutil.Address
	Script  []byte
	Scope   waddrmgr.KeyScope
	Account uint32
	Branch  uint32
	Index   uint32
}

// Coin is an output paying the wallet, as computed by the harness from the
// events it emitted (never read from the wallet).
type Coin struct {
	OutPoint     wire.OutPoint
	Value        int64
	Own          *OwnAddr
	Block        *simchain.Block // nil: unconfirmed (in the backend's mempool)
	Coinbase     bool
	SpentBy      *chainhash.Hash // a confirmed or mempool transaction spending it
	SpentInChain bool
}

// Book keeps the harness' knowledge of which scripts are the wallet's.
type Book struct {
	ByScript map[string]*OwnAddr
	List     []*OwnAddr
}

// NewBook creates an empty book.
func NewBook() *Book { return &Book{ByScript: map[string]*OwnAddr{}} }

// Add registers an own address.
func (b *Book) Add(a *OwnAddr) {
	if a.Script == nil {
		s, err := txscript.PayToAddrScript(a.Addr)
		if err != nil {
			panic(err)
		}
		a.Script = s
	}
	if _, ok := b.ByScript[string(a.Script)]; ok {
		return
	}
	b.ByScript[string(a.Script)] = a
	b.List = append(b.List, a)
}

// Coins computes the wallet's coins from the backend model: outputs paying own
// scripts in best-chain transactions and in mempool transactions, with their
// spend status.
func (b *Book) Coins(c *simchain.Chain) []*Coin {
	var coins []*Coin
	byOp := map[wire.OutPoint]*Coin{}
	scan := func(tx *wire.MsgTx, blk *simchain.Block, cb bool) {
		h := tx.TxHash()
		for i, out := range tx.TxOut {
			if own, ok := b.ByScript[string(out.PkScript)]; ok {
				co := &Coin{OutPoint: wire.OutPoint{Hash: h, Index: uint32(i)}, Value: out.Value, Own: own, Block: blk, Coinbase: cb}
				coins = append(coins, co)
				byOp[co.OutPoint] = co
			}
		}
	}
	best := c.Best()
	for _, blk := range best {
		for i, tx := range blk.Msg.Transactions {
			scan(tx, blk, i == 0)
		}
	}
	mem := c.Mempool()
	for _, tx := range mem {
		scan(tx, nil, false)
	}
	mark := func(tx *wire.MsgTx, inChain bool) {
		h := tx.TxHash()
		for _, in := range tx.TxIn {
			if co, ok := byOp[in.PreviousOutPoint]; ok {
				hh := h
				co.SpentBy = &hh
				if inChain {
					co.SpentInChain = true
				}
			}
		}
	}
	for _, blk := range best {
		for _, tx := range blk.Msg.Transactions {
			mark(tx, true)
		}
	}
	for _, tx := range mem {
		mark(tx, false)
	}
	return coins
}

// ExpectedBalance is the statement's balance for minconf at the backend's tip.
func (b *Book) ExpectedBalance(c *simchain.Chain, minconf int32, maturity int32) int64 {
	tip := c.Tip().Height
	var bal int64
	for _, co := range b.Coins(c) {
		if co.SpentBy != nil {
			continue
		}
		if co.Block == nil {
			if minconf == 0 {
				bal += co.Value
			}
			continue
		}
		confs := tip - co.Block.Height + 1
		if confs < minconf || (co.Coinbase && confs < maturity) {
			continue
		}
		bal += co.Value
	}
	return bal
}

// RelevantTxs lists, per best-chain block, the transactions that pay or spend
// the wallet, plus the relevant mempool transactions.
func (b *Book) RelevantTxs(c *simchain.Chain) (confirmed map[chainhash.Hash]*simchain.Block, unconfirmed map[chainhash.Hash]bool) {
	confirmed = map[chainhash.Hash]*simchain.Block{}
	unconfirmed = map[chainhash.Hash]bool{}
	own := map[wire.OutPoint]bool{}
	for _, co := range b.Coins(c) {
		own[co.OutPoint] = true
	}
	rel := func(tx *wire.MsgTx) bool {
		for _, out := range tx.TxOut {
			if _, ok := b.ByScript[string(out.PkScript)]; ok {
				return true
			}
		}
		for _, in := range tx.TxIn {
			if own[in.PreviousOutPoint] {
				return true
			}
		}
		return false
	}
	for _, blk := range c.Best() {
		for _, tx := range blk.Msg.Transactions {
			if rel(tx) {
				confirmed[tx.TxHash()] = blk
			}
		}
	}
	for _, tx := range c.Mempool() {
		if rel(tx) {
			unconfirmed[tx.TxHash()] = true
		}
	}
	return
}

// CheckTipAndHistory is the C15 oracle: synced-to = backend tip; remembered
// hashes within [from, tip] are those of the best chain; every confirmed
// transaction of the store sits in a best-chain block.
func (f *Fixture) CheckTipAndHistory(where string, from int32) {
	tip := f.Chain.Tip()
	st := f.W.Manager.SyncedTo()
	if st.Height != tip.Height || st.Hash != tip.Hash {
		f.Violation("[%s] the wallet is synced to %d/%v, the backend's tip is %d/%v", where, st.Height, st.Hash, tip.Height, tip.Hash)
	}
	err := walletdb.View(f.W.Database(), func(tx walletdb.ReadTx) error {
		ans := tx.ReadBucket([]byte("waddrmgr"))
		for h := from; h <= tip.Height; h++ {
			if h < 0 {
				continue
			}
			got, err := f.W.Manager.BlockHash(ans, h)
			if err != nil {
				return fmt.Errorf("no hash remembered for height %d (tip %d, window starts at %d): %v", h, tip.Height, from, err)
			}
			want := f.Chain.At(h)
			if *got != want.Hash {
				return fmt.Errorf("hash remembered for height %d is %v, the best chain has %v", h, got, want.Hash)
			}
		}
		tns := tx.ReadBucket([]byte("wtxmgr"))
		// direct lookups of everything that sat in a block which is not on the
		// best chain any more (coinbases included): never an error, never
		// "confirmed" in such a block
		for _, ob := range f.Chain.Orphaned() {
			for _, otx := range ob.Msg.Transactions {
				h := otx.TxHash()
				d, err := f.W.TxStore.TxDetails(tns, &h)
				if err != nil {
					return fmt.Errorf("looking up transaction %v of the disconnected block %d/%v failed: %v", h, ob.Height, ob.Hash, err)
				}
				if d == nil || d.Block.Height == -1 {
					continue
				}
				if cb := f.Chain.ConfirmedIn(h); cb == nil || cb.Hash != d.Block.Hash {
					return fmt.Errorf("transaction %v is reported confirmed in block %d/%v, which is not the best-chain block containing it", h, d.Block.Height, d.Block.Hash)
				}
			}
		}
		return f.W.TxStore.RangeTransactions(tns, 0, tip.Height+1000, func(ds []wtxmgr.TxDetails) (bool, error) {
			for i := range ds {
				d := &ds[i]
				b := f.Chain.At(d.Block.Height)
				if b == nil || b.Hash != d.Block.Hash {
					return false, fmt.Errorf("transaction %v is reported confirmed in block %d/%v which is not on the best chain", d.Hash, d.Block.Height, d.Block.Hash)
				}
				found := false
				for _, btx := range b.Msg.Transactions {
					if btx.TxHash() == d.Hash {
						found = true
					}
				}
				if !found {
					return false, fmt.Errorf("transaction %v is reported confirmed in block %d which does not contain it", d.Hash, d.Block.Height)
				}
			}
			return false, nil
		})
	})
	if err != nil {
		f.Violation("[%s] %v", where, err)
	}
}

// CheckBalances compares CalculateBalance and the transaction sets with the
// harness' book (ties the chain-following property to the ledger truth).
func (f *Fixture) CheckBalances(where string, b *Book, minconfs []int32) {
	mat := int32(f.Params.CoinbaseMaturity)
	for _, mc := range minconfs {
		got, err := f.W.CalculateBalance(mc)
		if err != nil {
			f.Violation("[%s] CalculateBalance(%d) failed: %v", where, mc, err)
		}
		want := b.ExpectedBalance(f.Chain, mc, mat)
		if int64(got) != want {
			f.Violation("[%s] CalculateBalance(%d) = %d, the harness ledger says %d (tip %d)\ncoins: %s", where, mc, int64(got), want,
				f.Chain.Tip().Height, DescribeCoins(b.Coins(f.Chain)))
		}
	}
	if f.PerAccount {
		f.checkAccountBalances(where, b, minconfs, mat)
	}
	conf, unconf := b.RelevantTxs(f.Chain)
	err := walletdb.View(f.W.Database(), func(tx walletdb.ReadTx) error {
		tns := tx.ReadBucket([]byte("wtxmgr"))
		for h, blk := range conf {
			hh := h
			d, err := f.W.TxStore.TxDetails(tns, &hh)
			if err != nil {
				return err
			}
			if d == nil {
				return fmt.Errorf("relevant transaction %v (block %d) is unknown to the wallet", h, blk.Height)
			}
			if d.Block.Height != blk.Height || d.Block.Hash != blk.Hash {
				return fmt.Errorf("relevant transaction %v is confirmed in block %d/%v, the wallet reports %d/%v", h, blk.Height, blk.Hash, d.Block.Height, d.Block.Hash)
			}
		}
		for h := range unconf {
			hh := h
			d, err := f.W.TxStore.TxDetails(tns, &hh)
			if err != nil {
				return err
			}
			if d == nil {
				return fmt.Errorf("relevant unconfirmed transaction %v is unknown to the wallet", h)
			}
			if d.Block.Height != -1 {
				return fmt.Errorf("transaction %v is unconfirmed, the wallet reports block %d", h, d.Block.Height)
			}
		}
		return nil
	})
	if err != nil {
		f.Violation("[%s] %v", where, err)
	}
	// the wallet's transaction history (C13 at wallet level): every relevant
	// transaction exactly once, under the block that currently confirms it or
	// as unconfirmed
	res, err := f.W.GetTransactions(wallet.NewBlockIdentifierFromHeight(0), wallet.NewBlockIdentifierFromHeight(-1), "", nil)
	if err != nil {
		f.Violation("[%s] GetTransactions failed: %v", where, err)
	}
	seen := map[chainhash.Hash]bool{}
	last := int32(-1)
	for _, blk := range res.MinedTransactions {
		if blk.Height <= last {
			f.Violation("[%s] GetTransactions lists block %d after block %d", where, blk.Height, last)
		}
		last = blk.Height
		for _, ts := range blk.Transactions {
			if seen[*ts.Hash] {
				f.Violation("[%s] GetTransactions lists %v twice", where, ts.Hash)
			}
			seen[*ts.Hash] = true
			b, ok := conf[*ts.Hash]
			if !ok {
				f.Violation("[%s] GetTransactions lists %v in block %d, the ledger does not have it confirmed", where, ts.Hash, blk.Height)
			}
			if b.Height != blk.Height || b.Hash != *blk.Hash {
				f.Violation("[%s] GetTransactions lists %v in block %d/%v, it is confirmed in %d/%v", where, ts.Hash, blk.Height, blk.Hash, b.Height, b.Hash)
			}
		}
	}
	for h := range conf {
		if !seen[h] {
			f.Violation("[%s] GetTransactions does not list the confirmed relevant transaction %v", where, h)
		}
	}
	useen := map[chainhash.Hash]bool{}
	for _, ts := range res.UnminedTransactions {
		if useen[*ts.Hash] || seen[*ts.Hash] {
			f.Violation("[%s] GetTransactions lists %v twice", where, ts.Hash)
		}
		useen[*ts.Hash] = true
		if !unconf[*ts.Hash] {
			f.Violation("[%s] GetTransactions lists %v as unconfirmed, the ledger does not", where, ts.Hash)
		}
	}
	for h := range unconf {
		if !useen[h] {
			f.Violation("[%s] GetTransactions does not list the unconfirmed relevant transaction %v", where, h)
		}
	}
}

// DescribeCoins renders coins.
func DescribeCoins(cs []*Coin) string {
	sort.Slice(cs, func(i, j int) bool { return cs[i].OutPoint.String() < cs[j].OutPoint.String() })
	s := ""
	for _, c := range cs {
		blk := "mempool"
		if c.Block != nil {
			blk = fmt.Sprintf("h=%d", c.Block.Height)
		}
		sp := "unspent"
		if c.SpentBy != nil {
			sp = "spent-by " + c.SpentBy.String()[:8]
		}
		s += fmt.Sprintf("\n   %s:%d %d %s cb=%v %s acct=%d scope=%v", c.OutPoint.Hash.String()[:8], c.OutPoint.Index, c.Value, blk, c.Coinbase, sp, c.Own.Account, c.Own.Scope)
	}
	return s
}

var _ = time.Second

// checkAccountBalances compares the per-account views of the same balance
// (CalculateAccountBalances, AccountBalances, UnspentOutputs by policy) with
// the book. Only for harnesses that neither lease nor lock outputs.
func (f *Fixture) checkAccountBalances(where string, b *Book, minconfs []int32, mat int32) {
	tip := f.Chain.Tip().Height
	coins := b.Coins(f.Chain)
	accts := map[uint32]bool{0: true}
	for _, co := range coins {
		accts[co.Own.Account] = true
	}
	var nums []uint32
	for a := range accts {
		nums = append(nums, a)
	}
	sort.Slice(nums, func(i, j int) bool { return nums[i] < nums[j] })
	confsOf := func(co *Coin) int32 {
		if co.Block == nil {
			return 0
		}
		return tip - co.Block.Height + 1
	}
	for _, acct := range nums {
		for _, mc := range minconfs {
			var total, spendable, immature int64
			ops := map[wire.OutPoint]int64{}
			for _, co := range coins {
				if co.SpentBy != nil || co.Own.Account != acct {
					continue
				}
				confs := confsOf(co)
				total += co.Value
				if co.Coinbase && confs < mat {
					immature += co.Value
				} else if confs >= mc {
					spendable += co.Value
				}
				if confs >= mc {
					ops[co.OutPoint] = co.Value
				}
			}
			got, err := f.W.CalculateAccountBalances(acct, mc)
			if err != nil {
				f.Violation("[%s] CalculateAccountBalances(%d, %d) failed: %v", where, acct, mc, err)
			}
			if int64(got.Total) != total || int64(got.Spendable) != spendable || int64(got.ImmatureReward) != immature {
				f.Violation("[%s] CalculateAccountBalances(account %d, minconf %d) = total %d spendable %d immature %d, the harness ledger says %d / %d / %d (tip %d)\ncoins: %s",
					where, acct, mc, int64(got.Total), int64(got.Spendable), int64(got.ImmatureReward), total, spendable, immature, tip, DescribeCoins(coins))
			}
			outs, err := f.W.UnspentOutputs(wallet.OutputSelectionPolicy{Account: acct, RequiredConfirmations: mc})
			if err != nil {
				f.Violation("[%s] UnspentOutputs(account %d, minconf %d) failed: %v", where, acct, mc, err)
			}
			seen := map[wire.OutPoint]bool{}
			for _, o := range outs {
				v, ok := ops[o.OutPoint]
				if !ok {
					f.Violation("[%s] UnspentOutputs(account %d, minconf %d) lists %v, which the ledger does not count as an unspent output of that account with enough confirmations", where, acct, mc, o.OutPoint)
				}
				if seen[o.OutPoint] {
					f.Violation("[%s] UnspentOutputs(account %d, minconf %d) lists %v twice", where, acct, mc, o.OutPoint)
				}
				seen[o.OutPoint] = true
				if o.Output.Value != v {
					f.Violation("[%s] UnspentOutputs reports %v with value %d, it is %d", where, o.OutPoint, o.Output.Value, v)
				}
			}
			if len(seen) != len(ops) {
				f.Violation("[%s] UnspentOutputs(account %d, minconf %d) lists %d outputs, the ledger has %d", where, acct, mc, len(seen), len(ops))
			}
		}
	}
	// per scope: AccountBalances
	for _, sc := range waddrmgr.DefaultKeyScopes {
		for _, mc := range minconfs {
			want := map[uint32]int64{}
			for _, co := range coins {
				if co.SpentBy != nil || co.Own.Scope != sc {
					continue
				}
				confs := confsOf(co)
				if confs < mc || (co.Coinbase && confs < mat) {
					continue
				}
				want[co.Own.Account] += co.Value
			}
			res, err := f.W.AccountBalances(sc, mc)
			if err != nil {
				f.Violation("[%s] AccountBalances(%v, %d) failed: %v", where, sc, mc, err)
			}
			for _, r := range res {
				if int64(r.AccountBalance) != want[r.AccountNumber] {
					f.Violation("[%s] AccountBalances(%v, minconf %d): account %d has %d, the harness ledger says %d", where, sc, mc, r.AccountNumber, int64(r.AccountBalance), want[r.AccountNumber])
				}
				delete(want, r.AccountNumber)
			}
			for a, v := range want {
				if v != 0 {
					f.Violation("[%s] AccountBalances(%v, minconf %d) does not list account %d, which holds %d", where, sc, mc, a, v)
				}
			}
		}
	}
}

// Package walletsim drives a complete wallet.Wallet through its public API
// against the simchain backend model: create/open, start, synchronise,
// stop/restart, with deterministic waiting (Quiesce) instead of sleeping.
package walletsim

import (
	"fmt"
	"os"
	"path/filepath"
	"runtime"
	"strings"
	"sync"
	"time"

	"github.com/btcsuite/btcd/btcutil/hdkeychain"
	"github.com/btcsuite/btcd/chaincfg"
	"github.com/btcsuite/btcwallet/chain"
	"github.com/btcsuite/btcwallet/snacl"
	"github.com/btcsuite/btcwallet/waddrmgr"
	"github.com/btcsuite/btcwallet/wallet"
	"github.com/btcsuite/btcwallet/walletdb"
	_ "github.com/btcsuite/btcwallet/walletdb/bdb"

	"verifharness/internal/simchain"
)

var fastOnce sync.Once

// FastScrypt swaps scrypt's work factor for a cheap one (public API).
func FastScrypt() {
	fastOnce.Do(func() {
		waddrmgr.SetSecretKeyGen(func(p *[]byte, _ *waddrmgr.ScryptOptions) (*snacl.SecretKey, error) {
			return snacl.NewSecretKey(p, 16, 8, 1)
		})
	})
}

// Fataler is the part of *rapid.T the fixture needs.
type Fataler interface {
	Fatalf(format string, args ...interface{})
}

// QuiesceTimeout bounds waiting for the wallet; hitting it means the wallet
// stopped consuming notifications (reported as inconclusive, never as a
// property violation).
var QuiesceTimeout = 60 * time.Second

// Fixture is one wallet on one database file plus the backend model.
type Fixture struct {
	T        Fataler
	Prop     string
	Params   *chaincfg.Params
	Dir      string
	Path     string
	Seed     []byte
	PubPass  []byte
	PrivPass []byte
	Birthday time.Time
	// PerAccount adds the per-account views of the balance to CheckBalances
	// (for harnesses that neither lease nor lock outputs).
	PerAccount bool
	// StallIsViolation: for the properties that promise a wallet that keeps
	// following its backend, a notification handler the runtime reports
	// blocked for minutes is a violation, not an inconclusive run.
	StallIsViolation bool
	Recovery         uint32

	Chain  *simchain.Chain
	Client *simchain.Client
	Style  simchain.Style

	DB walletdb.DB
	W  *wallet.Wallet
	// WrapDB, when set, wraps the raw database before the wallet sees it.
	WrapDB func(walletdb.DB) walletdb.DB

	Text func() string // rendering of the case for failure messages
	// OnOpen runs after a backend session was created (before the wallet uses it).
	OnOpen func()
}

func scratch() string {
	if st, err := os.Stat("/dev/shm"); err == nil && st.IsDir() {
		return "/dev/shm"
	}
	return os.TempDir()
}

// Violation fails the case with a property violation.
func (f *Fixture) Violation(format string, args ...interface{}) {
	txt := ""
	if f.Text != nil {
		txt = f.Text()
	}
	f.T.Fatalf("%s VIOLATED: %s\n--- history ---\n%s", f.Prop, fmt.Sprintf(format, args...), txt)
}

// Inconclusive fails the case for a harness reason.
func (f *Fixture) Inconclusive(format string, args ...interface{}) {
	f.T.Fatalf("INCONCLUSIVE: "+format, args...)
}

// New creates the database and the wallet (not started yet).
func New(t Fataler, prop string, params *chaincfg.Params, seed []byte, birthday time.Time, recovery uint32) *Fixture {
	FastScrypt()
	f := &Fixture{T: t, Prop: prop, Params: params, Seed: seed, PubPass: []byte("public"), PrivPass: []byte("private-pass"),
		Birthday: birthday, Recovery: recovery}
	dir, err := os.MkdirTemp(scratch(), "verif-walletsim-")
	if err != nil {
		f.Inconclusive("mkdtemp: %v", err)
	}
	f.Dir = dir
	f.Path = filepath.Join(dir, "wallet.db")
	f.Chain = simchain.NewChain(params)
	db, err := walletdb.Create("bdb", f.Path, true, 10*time.Second, false)
	if err != nil {
		f.Inconclusive("create db: %v", err)
	}
	root, err := hdkeychain.NewMaster(seed, params)
	if err != nil {
		f.Inconclusive("NewMaster: %v", err)
	}
	if err := wallet.Create(db, f.PubPass, f.PrivPass, root, params, birthday); err != nil {
		f.Violation("wallet.Create failed: %v", err)
	}
	db.Close()
	return f
}

// Open opens the database and the wallet, starts it and attaches a fresh
// backend session. It does not deliver ClientConnected yet.
func (f *Fixture) Open() {
	db, err := walletdb.Open("bdb", f.Path, true, 10*time.Second, false)
	if err != nil {
		f.Inconclusive("open db: %v", err)
	}
	f.DB = db
	var wdb walletdb.DB = db
	if f.WrapDB != nil {
		wdb = f.WrapDB(db)
	}
	w, err := wallet.OpenWithRetry(wdb, f.PubPass, nil, f.Params, f.Recovery, 10*time.Millisecond)
	if err != nil {
		f.Violation("wallet.Open failed: %v", err)
	}
	f.W = w
	w.Start()
	f.Client = f.Chain.NewClient(f.Style)
	if f.OnOpen != nil {
		f.OnOpen()
	}
	w.SynchronizeRPC(f.Client)
}

// Connect delivers ClientConnected (startup sync: birthday, rollback to the
// common block, recovery, rescan) and waits until the wallet has processed it
// and everything the rescan queued.
func (f *Fixture) Connect() {
	f.Client.Push(chain.ClientConnected{})
	f.Quiesce()
}

// Quiesce waits until the wallet has processed all queued notifications.
func (f *Fixture) Quiesce() {
	if err := f.Client.Quiesce(QuiesceTimeout); err != nil {
		buf := make([]byte, 1<<20)
		n := runtime.Stack(buf, true)
		txt := ""
		if f.Text != nil {
			txt = f.Text()
		}
		dump := string(buf[:n])
		if f.StallIsViolation && deadlockedHandler(dump) == "" {
			// the runtime marks a goroutine as blocked "for minutes" only after
			// a full minute: look once more a little later
			time.Sleep(8 * time.Second)
			dump = string(buf[:runtime.Stack(buf, true)])
		}
		if g := deadlockedHandler(dump); g != "" && f.StallIsViolation {
			f.Violation("the wallet stopped processing chain notifications: its notification handler has been blocked for over a minute\n--- history ---\n%s\n--- blocked goroutine ---\n%s", txt, g)
		}
		f.Inconclusive("%v (after %v)\n--- history ---\n%s\n--- goroutines ---\n%s", err, QuiesceTimeout, txt, filterStacks(dump))
	}
}

// Unlock unlocks the wallet for the rest of the session.
func (f *Fixture) Unlock() {
	if err := f.W.Unlock(f.PrivPass, nil); err != nil {
		f.Violation("Unlock with the private passphrase failed: %v", err)
	}
}

// Stop stops the wallet and closes the database (the backend keeps running).
func (f *Fixture) Stop() {
	if f.W != nil {
		// let the wallet finish what is queued: stopping it in the middle of a
		// disconnect notification makes it dereference its (cleared) chain client
		if f.Client != nil {
			f.Client.Quiesce(QuiesceTimeout)
		}
		f.W.Stop()
		done := make(chan struct{})
		go func() { f.W.WaitForShutdown(); close(done) }()
		select {
		case <-done:
		case <-time.After(30 * time.Second):
			buf := make([]byte, 1<<20)
			f.Inconclusive("wallet did not shut down within 30s\n--- goroutines ---\n%s", filterStacks(string(buf[:runtime.Stack(buf, true)])))
		}
		f.W = nil
	}
	if f.Client != nil {
		f.Client.Shutdown()
		f.Client = nil
	}
	if f.DB != nil {
		f.DB.Close()
		f.DB = nil
	}
}

// Close stops everything and removes the scratch directory.
func (f *Fixture) Close() {
	func() {
		defer func() { recover() }()
		if f.W != nil {
			if f.Client != nil {
				f.Client.Quiesce(5 * time.Second)
			}
			f.W.Stop()
			done := make(chan struct{})
			go func() { f.W.WaitForShutdown(); close(done) }()
			select {
			case <-done:
			case <-time.After(5 * time.Second):
			}
		}
		if f.Client != nil {
			f.Client.Shutdown()
		}
		if f.DB != nil {
			f.DB.Close()
		}
	}()
	if f.Dir != "" {
		os.RemoveAll(f.Dir)
	}
}

// filterStacks keeps the goroutines that are inside btcwallet code.
// deadlockedHandler returns the stack of the wallet's notification handler when
// the runtime reports it blocked on a lock, channel or condition for minutes (a
// handler that is busy, or retrying with short sleeps, is not reported).
func deadlockedHandler(all string) string {
	for _, g := range strings.Split(all, "\n\n") {
		if !strings.Contains(g, "handleChainNotifications") {
			continue
		}
		head := g
		if i := strings.Index(g, "\n"); i >= 0 {
			head = g[:i]
		}
		if !strings.Contains(head, "minutes]") {
			continue
		}
		for _, st := range []string{"[semacquire", "[sync.Mutex.Lock", "[sync.RWMutex", "[sync.Cond.Wait", "[chan receive", "[chan send", "[select", "[sync.WaitGroup"} {
			if strings.Contains(head, st) {
				if len(g) > 4000 {
					g = g[:4000]
				}
				return g
			}
		}
	}
	return ""
}

func filterStacks(all string) string {
	var out []string
	for _, g := range strings.Split(all, "\n\n") {
		if strings.Contains(g, "btcsuite/btcwallet/wallet") || strings.Contains(g, "btcwallet/waddrmgr") {
			if len(g) > 3000 {
				g = g[:3000]
			}
			out = append(out, g)
		}
	}
	return strings.Join(out, "\n\n")
}

// Package bip32ref is an independent reference implementation of the key
// derivation the wallet documents: BIP32 child derivation with btcsuite's
// legacy rule for hardened children of in-memory private keys, the
// BIP44/49/84/86 path layout, and the address encoding of each address type.
// It never calls waddrmgr or hdkeychain's Derive functions; it is built from
// HMAC-SHA512, big-integer arithmetic and btcec point multiplication.
package bip32ref

import (
	"crypto/hmac"
	"crypto/sha512"
	"encoding/binary"
	"errors"
	"math/big"

	"github.com/btcsuite/btcd/btcec/v2"
	"github.com/btcsuite/btcd/btcec/v2/schnorr"
	"github.com/btcsuite/btcd/btcutil"
	"github.com/btcsuite/btcd/btcutil/base58"
	"github.com/btcsuite/btcd/chaincfg"
	"github.com/btcsuite/btcd/chaincfg/chainhash"
	"github.com/btcsuite/btcd/txscript"
)

// Hardened is the first hardened child index.
const Hardened = uint32(0x80000000)

var curveN = btcec.S256().N

// ErrInvalidChild mirrors BIP32's "invalid child" (probability < 2^-127).
var ErrInvalidChild = errors.New("bip32ref: invalid child")

// Key is an extended key. Priv is nil for public keys. Priv is held exactly as
// the wallet would hold it in memory: 32 bytes when it came from a seed or
// from a serialised string, minimal length when it came out of a derivation.
type Key struct {
	Priv     []byte
	Pub      []byte // 33 bytes compressed
	Chain    []byte // 32 bytes
	Depth    byte
	ParentFP []byte // 4 bytes
	ChildNum uint32
}

func pubOf(priv []byte) []byte {
	_, pub := btcec.PrivKeyFromBytes(pad32(priv))
	return pub.SerializeCompressed()
}

func pad32(b []byte) []byte {
	if len(b) >= 32 {
		return b
	}
	out := make([]byte, 32)
	copy(out[32-len(b):], b)
	return out
}

// Master derives the master key of a seed (BIP32).
func Master(seed []byte) (*Key, error) {
	h := hmac.New(sha512.New, []byte("Bitcoin seed"))
	h.Write(seed)
	lr := h.Sum(nil)
	il := lr[:32]
	n := new(big.Int).SetBytes(il)
	if n.Sign() == 0 || n.Cmp(curveN) >= 0 {
		return nil, ErrInvalidChild
	}
	k := &Key{Priv: append([]byte(nil), il...), Chain: append([]byte(nil), lr[32:]...), ParentFP: []byte{0, 0, 0, 0}}
	k.Pub = pubOf(k.Priv)
	return k, nil
}

// Stored returns the key as it is after a round trip through its serialised
// form (private key left-padded to 32 bytes).
func (k *Key) Stored() *Key {
	c := *k
	if k.Priv != nil {
		c.Priv = pad32(k.Priv)
	}
	return &c
}

// Neuter drops the private part.
func (k *Key) Neuter() *Key {
	c := *k
	c.Priv = nil
	return &c
}

// Child derives child i with btcsuite's legacy rule: a hardened child of a
// private key copies the parent key left-aligned into the 33-byte HMAC input
// (which equals BIP32 exactly when the key is held at 32 bytes).
func (k *Key) Child(i uint32) (*Key, error) {
	data := make([]byte, 37)
	if i >= Hardened {
		if k.Priv == nil {
			return nil, errors.New("bip32ref: hardened child of public key")
		}
		copy(data[1:], k.Priv)
	} else {
		copy(data, k.Pub)
	}
	binary.BigEndian.PutUint32(data[33:], i)
	h := hmac.New(sha512.New, k.Chain)
	h.Write(data)
	lr := h.Sum(nil)
	il := new(big.Int).SetBytes(lr[:32])
	if il.Sign() == 0 || il.Cmp(curveN) >= 0 {
		return nil, ErrInvalidChild
	}
	c := &Key{Chain: append([]byte(nil), lr[32:]...), Depth: k.Depth + 1, ChildNum: i,
		ParentFP: btcutil.Hash160(k.Pub)[:4]}
	if k.Priv != nil {
		n := new(big.Int).SetBytes(k.Priv)
		n.Add(n, il)
		n.Mod(n, curveN)
		c.Priv = n.Bytes() // minimal length, as held in memory
		c.Pub = pubOf(c.Priv)
		return c, nil
	}
	// public derivation: il*G + parent
	var ilScalar btcec.ModNScalar
	ilScalar.SetByteSlice(lr[:32])
	var ilJ, pJ, sumJ btcec.JacobianPoint
	btcec.ScalarBaseMultNonConst(&ilScalar, &ilJ)
	pp, err := btcec.ParsePubKey(k.Pub)
	if err != nil {
		return nil, err
	}
	pp.AsJacobian(&pJ)
	btcec.AddNonConst(&ilJ, &pJ, &sumJ)
	if sumJ.Z.IsZero() {
		return nil, ErrInvalidChild
	}
	sumJ.ToAffine()
	c.Pub = btcec.NewPublicKey(&sumJ.X, &sumJ.Y).SerializeCompressed()
	return c, nil
}

// ChildStd derives child i by plain BIP32 (the parent key taken at 32 bytes).
func (k *Key) ChildStd(i uint32) (*Key, error) { return k.Stored().Child(i) }

// Serialize returns the 78-byte serialisation and its base58check string.
func (k *Key) Serialize(version [4]byte) ([]byte, string) {
	b := make([]byte, 0, 82)
	b = append(b, version[:]...)
	b = append(b, k.Depth)
	b = append(b, k.ParentFP...)
	var cn [4]byte
	binary.BigEndian.PutUint32(cn[:], k.ChildNum)
	b = append(b, cn[:]...)
	b = append(b, k.Chain...)
	if k.Priv != nil {
		b = append(b, 0)
		b = append(b, pad32(k.Priv)...)
	} else {
		b = append(b, k.Pub...)
	}
	raw := append([]byte(nil), b...)
	ck := chainhash.DoubleHashB(b)[:4]
	b = append(b, ck...)
	return raw, base58.Encode(b)
}

// Scope is a key scope (purpose, coin type).
type Scope struct{ Purpose, Coin uint32 }

// AddrKind is an address format.
type AddrKind int

// Address formats.
const (
	P2PKH AddrKind = iota
	NestedP2WPKH
	P2WPKH
	P2TR
)

// ScopeKeys is the chain of keys the wallet derives for a scope.
type ScopeKeys struct {
	Purpose  *Key // as held in memory after derivation
	CoinType *Key // as held in memory after derivation
}

// DeriveScope derives m/purpose'/coin' the way the wallet does: purpose' from
// the master (always 32 bytes), coin' from the in-memory purpose key.
func DeriveScope(master *Key, s Scope) (*ScopeKeys, error) {
	p, err := master.Stored().Child(s.Purpose + Hardened)
	if err != nil {
		return nil, err
	}
	c, err := p.Child(s.Coin + Hardened)
	if err != nil {
		return nil, err
	}
	return &ScopeKeys{Purpose: p, CoinType: c}, nil
}

// AccountAtCreation derives account 0' of a scope as done when the scope is
// created: from the in-memory coin-type key.
func (sk *ScopeKeys) AccountAtCreation(acct uint32) (*Key, error) {
	return sk.CoinType.Child(acct + Hardened)
}

// AccountLater derives an account created later: from the coin-type key as
// stored (32 bytes).
func (sk *ScopeKeys) AccountLater(acct uint32) (*Key, error) {
	return sk.CoinType.Stored().Child(acct + Hardened)
}

// AddrKey derives branch/index below an account key (non-hardened, where the
// legacy rule and BIP32 coincide).
func AddrKey(acct *Key, branch, index uint32) (*Key, error) {
	b, err := acct.Child(branch)
	if err != nil {
		return nil, err
	}
	return b.Child(index)
}

// Address encodes the public key in the given format.
func Address(pub []byte, kind AddrKind, params *chaincfg.Params) (btcutil.Address, error) {
	h := btcutil.Hash160(pub)
	switch kind {
	case P2PKH:
		return btcutil.NewAddressPubKeyHash(h, params)
	case P2WPKH:
		return btcutil.NewAddressWitnessPubKeyHash(h, params)
	case NestedP2WPKH:
		script := append([]byte{0x00, 0x14}, h...)
		return btcutil.NewAddressScriptHash(script, params)
	case P2TR:
		pk, err := btcec.ParsePubKey(pub)
		if err != nil {
			return nil, err
		}
		out := txscript.ComputeTaprootKeyNoScript(pk)
		return btcutil.NewAddressTaproot(schnorr.SerializePubKey(out), params)
	}
	return nil, errors.New("bip32ref: unknown address kind")
}

// LeadingZero reports whether the in-memory private key is shorter than 32
// bytes (the case where the legacy rule differs from BIP32 for hardened
// children).
func (k *Key) LeadingZero() bool { return k.Priv != nil && len(k.Priv) < 32 }

package bip32ref

import (
	"bytes"
	"encoding/binary"
	"testing"

	"github.com/btcsuite/btcd/btcutil/hdkeychain"
	"github.com/btcsuite/btcd/chaincfg"
)

// Cross-check of the oracle itself against hdkeychain.Derive (true BIP32) on
// seeds where no intermediate key has a leading zero, and against
// DeriveNonStandard on seeds where one has.
func TestOracleAgainstHdkeychain(t *testing.T) {
	affected := 0
	for s := 0; s < 3000; s++ {
		seed := make([]byte, 32)
		binary.LittleEndian.PutUint32(seed, uint32(s))
		seed[31] = 0x5a
		m, err := Master(seed)
		if err != nil {
			t.Fatal(err)
		}
		hm, err := hdkeychain.NewMaster(seed, &chaincfg.MainNetParams)
		if err != nil {
			t.Fatal(err)
		}
		path := []uint32{84 + Hardened, 0 + Hardened, 0 + Hardened, 1, 5}
		k := m
		hk := hm
		hkStd := hm
		short := false
		for _, i := range path {
			if k.LeadingZero() && i >= Hardened {
				short = true
			}
			k, err = k.Child(i)
			if err != nil {
				t.Fatal(err)
			}
			hk, err = hk.DeriveNonStandard(i)
			if err != nil {
				t.Fatal(err)
			}
			hkStd, err = hkStd.Derive(i)
			if err != nil {
				t.Fatal(err)
			}
		}
		pk, _ := hk.ECPubKey()
		if !bytes.Equal(pk.SerializeCompressed(), k.Pub) {
			t.Fatalf("seed %d: oracle disagrees with DeriveNonStandard", s)
		}
		pkStd, _ := hkStd.ECPubKey()
		if !short && !bytes.Equal(pkStd.SerializeCompressed(), k.Pub) {
			t.Fatalf("seed %d: oracle disagrees with BIP32 on an unaffected seed", s)
		}
		if short {
			affected++
			if bytes.Equal(pkStd.SerializeCompressed(), k.Pub) {
				t.Fatalf("seed %d: legacy rule expected to differ", s)
			}
		}
		// serialisation
		_, str := k.Serialize([4]byte{0x04, 0x88, 0xad, 0xe4})
		if str != hk.String() {
			t.Fatalf("seed %d: serialisation differs: %s vs %s", s, str, hk.String())
		}
	}
	if affected == 0 {
		t.Fatalf("no affected seed among 3000 (expected ~35)")
	}
	t.Logf("affected seeds: %d", affected)
}

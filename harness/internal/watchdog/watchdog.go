// Package watchdog turns "a call of the code under test never returns" into a
// reportable outcome instead of a test-binary deadline.
//
// Run executes a case in its own goroutine. Panics of the case - rapid's
// control flow included - are re-raised in the caller, so the case behaves as
// if it had run inline. When the case does not finish within the limit, the
// state of its goroutine decides: blocked on a lock, channel or condition for
// the whole limit means a call that will never return (reported through
// stuck); still running means the machine was too slow to tell (reported
// through slow, an inconclusive outcome).
package watchdog

import (
	"fmt"
	"hash/fnv"
	"regexp"
	"runtime"
	"strings"
	"time"
	"verifharness/internal/evid"
)

// Limit is the default time a single generated case may take. Cases of the
// packages that use the watchdog take well under a second.
const Limit = 90 * time.Second

var blockedState = regexp.MustCompile(`^goroutine \d+ \[(semacquire|sync\.Mutex\.Lock|sync\.RWMutex\.R?Lock|sync\.Cond\.Wait|sync\.WaitGroup\.Wait|chan receive|chan send|select)[,\]]`)

// Run runs f under the watchdog.
func Run(limit time.Duration, f func(), stuck func(dump string), slow func(dump string)) {
	done := make(chan raised, 1)
	go func() {
		defer func() {
			r := recover()
			site := ""
			if r != nil {
				site = raiseSite()
			}
			done <- raised{r, site}
		}()
		caseGoroutine(f)
	}()
	select {
	case r := <-done:
		r.again()
		return
	case <-time.After(limit):
	}
	// a last chance: it may just have finished
	select {
	case r := <-done:
		r.again()
		return
	default:
	}
	buf := make([]byte, 4<<20)
	dump := string(buf[:runtime.Stack(buf, true)])
	mine := ""
	for _, g := range strings.Split(dump, "\n\n") {
		if strings.Contains(g, "watchdog.caseGoroutine") {
			mine = g
			break
		}
	}
	if mine != "" && blockedState.MatchString(mine) {
		stuck(mine)
		return
	}
	if mine == "" {
		mine = dump
	}
	slow(mine)
}

//go:noinline
func caseGoroutine(f func()) { f() }

// Fataler is the part of rapid.T / testing.T the guard needs.
type Fataler interface {
	Fatalf(format string, args ...interface{})
}

// Guard runs one generated case under the watchdog. A case goroutine that is
// still blocked after the limit is a violation of prop ("the manager / store /
// database still answers" is part of the statements that use the guard); a case
// that is merely slow is inconclusive. history returns the case's log so far.
func Guard(t Fataler, prop string, history func() string, f func()) {
	Run(Limit, f,
		func(g string) {
			t.Fatalf("%s VIOLATED: a call of the code under test never returned: the case is blocked after %v (a lock or transaction left open?)\n--- history ---\n%s\n--- blocked goroutine ---\n%s",
				prop, Limit, history(), g)
		},
		func(g string) {
			t.Fatalf("INCONCLUSIVE: the case did not finish within %v but is not blocked\n--- history ---\n%s\n--- goroutine ---\n%s", Limit, history(), g)
		})
}

// Case begins an evidence case of g and runs body under the guard.
func Case(t Fataler, prop string, g *evid.Group, body func(c *evid.Case)) {
	var c *evid.Case
	Guard(t, prop, func() string {
		if c == nil {
			return ""
		}
		return c.Text()
	}, func() {
		c = g.Begin()
		defer c.End()
		body(c)
	})
}

// raised is a panic of the case goroutine and where it was raised.
type raised struct {
	value interface{}
	site  string
}

// LastSite is the raise site of the failure re-raised last (for the report).
var LastSite string

// again re-raises the panic in the calling goroutine.
func (r raised) again() {
	if r.value == nil {
		return
	}
	if fmt.Sprintf("%T", r.value) == "rapid.invalidData" {
		trampInvalid(r.value)
	}
	LastSite = r.site
	h := fnv.New32a()
	h.Write([]byte(r.site))
	trampolines[int(h.Sum32()%uint32(len(trampolines)))](r.value)
}

// raiseSite renders the stack of the panic that is being recovered, from the
// raise down to the case goroutine's entry.
func raiseSite() string {
	pcs := make([]uintptr, 64)
	frames := runtime.CallersFrames(pcs[:runtime.Callers(3, pcs)])
	var b strings.Builder
	for {
		f, more := frames.Next()
		if strings.HasSuffix(f.Function, "watchdog.caseGoroutine") {
			break
		}
		if !strings.HasPrefix(f.Function, "runtime.") {
			fmt.Fprintf(&b, "    %s:%d in %s\n", f.File, f.Line, f.Function)
		}
		if !more {
			break
		}
	}
	return b.String()
}

// Package known reads /verif/known_findings.json (never writes it). A check
// asks whether a finding is listed as open; if so the generator/oracle excludes
// exactly that shape and counts the exclusions.
package known

import (
	"encoding/json"
	"os"
	"path/filepath"
	"runtime"
	"sync"
)

type finding struct {
	ID       string `json:"id"`
	Property string `json:"property"`
	What     string `json:"what"`
}

type file struct {
	Open  []finding `json:"open"`
	Fixed []string  `json:"fixed"`
}

var (
	once sync.Once
	open map[string]bool
)

func load() {
	open = map[string]bool{}
	path := os.Getenv("VERIF_KNOWN")
	if path == "" {
		_, src, _, _ := runtime.Caller(0)
		path = filepath.Join(filepath.Dir(src), "..", "..", "..", "known_findings.json")
	}
	b, err := os.ReadFile(path)
	if err != nil {
		return
	}
	var f file
	if json.Unmarshal(b, &f) != nil {
		return
	}
	for _, x := range f.Open {
		open[x.ID] = true
	}
}

// Open reports whether the finding is listed as an open known finding.
func Open(id string) bool {
	once.Do(load)
	return open[id]
}

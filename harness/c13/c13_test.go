// C13 - transaction history shows each known transaction once, at its current status.
package c13

import (
	"os"
	"testing"

	"github.com/btcsuite/btcwallet/walletdb"
	"pgregory.net/rapid"

	"verifharness/internal/evid"
	"verifharness/internal/known"
	"verifharness/internal/txsim"
)

func cfg() txsim.Config {
	max, maxTx := 40, 12
	if os.Getenv("VERIF_TIER") == "thorough" {
		max, maxTx = 100, 16
	}
	return txsim.Config{
		Prop: "C13",
		Weights: map[string]int{"announce": 6, "mine": 6, "advance": 1, "rollback": 3, "abandon": 1,
			"redeliver": 2, "reopen": 1},
		MinSteps: 5, MaxSteps: max,
		Universe: txsim.UniverseOpts{MinTx: 4, MaxTx: maxTx},
		KnownF4:  known.Open("F4"),
	}
}

func TestC13History(t *testing.T) {
	g := evid.G("TestC13History")
	rapid.Check(t, func(t *rapid.T) {
		c := g.Begin()
		defer c.End()
		s := txsim.NewSim(t, cfg(), c)
		defer s.Close()
		s.Run(t, nil, func() {
			// ranges drawn from the block heights +-1, -1 (unconfirmed), 0 and max
			pts := []int32{-1, 0, 1<<31 - 1, s.N.Tip}
			for _, b := range s.N.Blocks {
				pts = append(pts, b.Height-1, b.Height, b.Height+1)
			}
			ranges := [][2]int32{{0, -1}, {-1, 0}, {-1, -1}}
			for k := 0; k < 4; k++ {
				a := pts[rapid.IntRange(0, len(pts)-1).Draw(t, "rangeBegin")]
				b := pts[rapid.IntRange(0, len(pts)-1).Draw(t, "rangeEnd")]
				ranges = append(ranges, [2]int32{a, b})
			}
			s.View(func(ns walletdb.ReadBucket) { s.CheckC13(ns, "read-tx", ranges) })
		})
		if s.NMovedStatus > 0 || s.NRollback > 0 {
			c.Class("status-moved")
		}
		if s.NUnconfSpendOfConfirmed > 0 {
			c.Class("spent-flag-changed-by-unconfirmed-spend")
		}
		if s.NConflictRemoved > 0 || s.NAbandon > 0 || s.NCoinbaseDescRemoved > 0 {
			c.Class("transaction-removed")
		}
		if s.L.F4Hits > 0 {
			g.KnownHit("F4")
		}
		if (s.NMovedStatus > 0 || s.NRollback > 0) && (s.NUnconfSpendOfConfirmed > 0 || s.NConflictRemoved > 0 || s.NRollbackCreditAndSpender > 0) {
			c.NonTrivial()
		}
	})
}

package c04probe

import (
	"bytes"
	"os"
	"path/filepath"
	"testing"
	"time"

	"github.com/btcsuite/btcd/btcec/v2"
	"github.com/btcsuite/btcd/btcutil/hdkeychain"
	"github.com/btcsuite/btcd/chaincfg"
	"github.com/btcsuite/btcd/txscript"
	"github.com/btcsuite/btcwallet/snacl"
	"github.com/btcsuite/btcwallet/waddrmgr"
	"github.com/btcsuite/btcwallet/walletdb"
	_ "github.com/btcsuite/btcwallet/walletdb/bdb"

	"verifharness/internal/mgrsim"
)

func TestProbeTaprootScriptConvert(t *testing.T) {
	mgrsim.FastScrypt()
	dir, _ := os.MkdirTemp("/dev/shm", "verif-probe-")
	defer os.RemoveAll(dir)
	path := filepath.Join(dir, "w.db")
	db, err := walletdb.Create("bdb", path, true, 10*time.Second, false)
	if err != nil {
		t.Fatal(err)
	}
	defer db.Close()
	params := &chaincfg.RegressionNetParams
	seed := bytes.Repeat([]byte{7}, 32)
	root, _ := hdkeychain.NewMaster(seed, params)
	ns := []byte("waddrmgr")
	var mgr *waddrmgr.Manager
	err = walletdb.Update(db, func(tx walletdb.ReadWriteTx) error {
		b, err := tx.CreateTopLevelBucket(ns)
		if err != nil {
			return err
		}
		if err := waddrmgr.Create(b, root, []byte("public-1"), []byte("private-1"), params, nil, time.Unix(1600000000, 0)); err != nil {
			return err
		}
		mgr, err = waddrmgr.Open(b, []byte("public-1"), params)
		return err
	})
	if err != nil {
		t.Fatal(err)
	}
	priv, _ := btcec.PrivKeyFromBytes(bytes.Repeat([]byte{9}, 32))
	leafScript, _ := txscript.NewScriptBuilder().AddData(bytes.Repeat([]byte{0xab}, 32)).AddOp(txscript.OP_CHECKSIG).Script()
	leaf := txscript.NewBaseTapLeaf(leafScript)
	ts := &waddrmgr.Tapscript{Type: waddrmgr.TapscriptTypeFullTree, ControlBlock: &txscript.ControlBlock{InternalKey: priv.PubKey()}, Leaves: []txscript.TapLeaf{leaf}}
	var addr waddrmgr.ManagedTaprootScriptAddress
	err = walletdb.Update(db, func(tx walletdb.ReadWriteTx) error {
		b := tx.ReadWriteBucket(ns)
		if err := mgr.Unlock(b, []byte("private-1")); err != nil {
			return err
		}
		sm, _ := mgr.FetchScopedKeyManager(waddrmgr.KeyScopeBIP0086)
		bs := waddrmgr.BlockStamp{Height: 1000}
		addr, err = sm.ImportTaprootScript(b, ts, &bs, 1, true)
		return err
	})
	if err != nil {
		t.Fatal(err)
	}
	t.Logf("imported %s", addr.Address())
	err = walletdb.Update(db, func(tx walletdb.ReadWriteTx) error { return mgr.ConvertToWatchingOnly(tx.ReadWriteBucket(ns)) })
	if err != nil {
		t.Fatal(err)
	}
	mgr.Close()
	// walk the live namespace and try the zero key on every field
	found := 0
	walletdb.View(db, func(tx walletdb.ReadTx) error {
		mgr, err = waddrmgr.Open(tx.ReadBucket(ns), []byte("public-1"), params)
		if err != nil {
			t.Fatal(err)
		}
		ma, err := mgr.Address(tx.ReadBucket(ns), addr.Address())
		t.Logf("lookup after conversion: %v %v", ma != nil, err)
		if ma != nil {
			ts2, err := ma.(waddrmgr.ManagedTaprootScriptAddress).TaprootScript()
			t.Logf("TaprootScript() after conversion: %v %v", ts2 != nil, err)
		}
		var walk func(b walletdb.ReadBucket)
		walk = func(b walletdb.ReadBucket) {
			b.ForEach(func(k, v []byte) error {
				if v == nil {
					if nb := b.NestedReadBucket(k); nb != nil {
						walk(nb)
						return nil
					}
				}
				for o := 0; o+4 <= len(v); o++ {
					l := int(uint32(v[o]) | uint32(v[o+1])<<8 | uint32(v[o+2])<<16 | uint32(v[o+3])<<24)
					if l < 40 || o+4+l > len(v) {
						continue
					}
					var zk snacl.CryptoKey
					if pt, err := zk.Decrypt(v[o+4 : o+4+l]); err == nil {
						found++
						t.Logf("zero key opens a %d-byte field at key %x offset %d; contains the leaf script: %v", l, k, o, bytes.Contains(pt, leafScript))
					}
				}
				return nil
			})
		}
		walk(tx.ReadBucket(ns))
		return nil
	})
	t.Logf("fields the all-zero key opens after ConvertToWatchingOnly: %d", found)
}

package c19

import (
	"math/bits"

	"pgregory.net/rapid"
)

// Entropy sources: rapid (property test) and raw bytes (native fuzzing) feed
// the same table grammar.

type src interface {
	Intn(n int, label string) int // [0,n)
}

// rapidSrc draws unbiased numbers from single bits (rapid's integer generators
// are biased towards small values, which would skew the weighted choices).
type rapidSrc struct{ t *rapid.T }

func (r rapidSrc) Intn(n int, label string) int {
	if n <= 1 {
		return 0
	}
	k := bits.Len(uint(n - 1))
	for {
		v := 0
		for i := 0; i < k; i++ {
			v <<= 1
			if rapid.Bool().Draw(r.t, label) {
				v |= 1
			}
		}
		if v < n {
			return v
		}
	}
}

type byteSrc struct {
	data []byte
	pos  int
}

func (b *byteSrc) Intn(n int, _ string) int {
	if n <= 1 || b.pos >= len(b.data) {
		return 0
	}
	v := int(b.data[b.pos])
	b.pos++
	if n > 256 && b.pos < len(b.data) {
		v = v<<8 | int(b.data[b.pos])
		b.pos++
	}
	return v % n
}

type recSrc struct {
	in  src
	out []byte
}

func (r *recSrc) Intn(n int, label string) int {
	v := r.in.Intn(n, label)
	if n <= 1 {
		return v
	}
	if n > 256 {
		r.out = append(r.out, byte(v>>8), byte(v))
	} else {
		r.out = append(r.out, byte(v))
	}
	return v
}

type lcgSrc struct{ x uint64 }

func (l *lcgSrc) Intn(n int, _ string) int {
	if n <= 1 {
		return 0
	}
	l.x = l.x*6364136223846793005 + 1442695040888963407
	return int((l.x >> 33) % uint64(n))
}

func weighted(s src, label string, w ...int) int {
	tot := 0
	for _, x := range w {
		tot += x
	}
	if tot <= 0 {
		return 0
	}
	r := s.Intn(tot, label)
	for i, x := range w {
		if r < x {
			return i
		}
		r -= x
	}
	return len(w) - 1
}

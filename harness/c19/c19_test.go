// C19 - database upgrades apply each pending migration once, in order, or not
// at all.
//
// Part (a), TestC19UpgradeTables / FuzzC19: migration.Upgrade is driven with
// 1-3 fake migration.Manager implementations, each with a version table of
// 0-12 distinct numbers declared in a drawn order (ascending as the real
// tables, descending, shuffled), nil migrations mixed in, and a stored
// version below / equal to a table number / between / at / above the latest.
// Every migration records (manager, number, stored version it observed) in a
// trace and rewrites the namespace in an order-sensitive way (hash chain,
// marker, nested bucket with sequence, deletion of initial data).  For every
// table the upgrade is run inside one walletdb.Update on a real bdb file:
// once without a fault, once more on the upgraded state, and then once per
// fault position (CurrentVersion, EVERY pending migration, SetVersion, of
// every manager), each followed by a retry without the fault.
//
// Part (b), TestC19RealManagers: see real_test.go.
package c19

import (
	"bytes"
	"crypto/sha256"
	"encoding/binary"
	"errors"
	"fmt"
	"math"
	"os"
	"path/filepath"
	"sort"
	"strings"
	"testing"
	"time"

	"github.com/btcsuite/btcwallet/walletdb"
	_ "github.com/btcsuite/btcwallet/walletdb/bdb"
	"github.com/btcsuite/btcwallet/walletdb/migration"
	"pgregory.net/rapid"

	"verifharness/internal/dbmodel"
	"verifharness/internal/evid"
)

type fataler interface {
	Fatalf(string, ...interface{})
}

var errInjected = errors.New("c19: injected failure")

// ---------------------------------------------------------------------------
// case description

type verSpec struct {
	Number uint32
	Nil    bool
}

type mgrSpec struct {
	Versions  []verSpec // declaration order
	Stored    uint32
	SameSlice bool // Versions() hands out the same slice every time (as the real managers do) instead of a copy
	InitKeys  int
}

type caseSpec struct {
	Mgrs            []mgrSpec
	WriteBeforeFail bool // a failing migration fails after (true) or before (false) its writes
}

func (m *mgrSpec) latest() uint32 {
	var l uint32
	for _, v := range m.Versions {
		if v.Number > l {
			l = v.Number
		}
	}
	return l
}

// pending returns the versions above the stored one, ascending.
func (m *mgrSpec) pending() []verSpec {
	var p []verSpec
	for _, v := range m.Versions {
		if v.Number > m.Stored {
			p = append(p, v)
		}
	}
	sort.Slice(p, func(i, j int) bool { return p[i].Number < p[j].Number })
	return p
}

func (m *mgrSpec) reversion() bool { return m.Stored > m.latest() }

func (c *caseSpec) String() string {
	var sb strings.Builder
	fmt.Fprintf(&sb, "managers=%d failingMigrationWritesFirst=%v\n", len(c.Mgrs), c.WriteBeforeFail)
	for i, m := range c.Mgrs {
		fmt.Fprintf(&sb, " m%d stored=%d sameSlice=%v initKeys=%d table=[", i, m.Stored, m.SameSlice, m.InitKeys)
		for k, v := range m.Versions {
			if k > 0 {
				sb.WriteByte(' ')
			}
			fmt.Fprintf(&sb, "%d", v.Number)
			if v.Nil {
				sb.WriteString("(nil)")
			}
		}
		sb.WriteString("]\n")
	}
	return sb.String()
}

func drawMgr(s src) mgrSpec {
	var m mgrSpec
	n := s.Intn(13, "nversions")
	// distinct numbers
	set := map[uint32]bool{}
	mode := weighted(s, "numbers", 55, 30, 15)
	for len(set) < n {
		var x uint32
		switch mode {
		case 0: // dense small numbers, 0 included now and then
			x = uint32(s.Intn(16, "num"))
		case 1: // sparse
			x = uint32(s.Intn(40, "num")) * uint32(1+s.Intn(50, "gap"))
		default: // around the 32-bit boundaries
			x = []uint32{0, 1, 2, 1 << 31, 1<<31 - 1, 1<<31 + 1, math.MaxUint32, math.MaxUint32 - 1, math.MaxUint32 - 2, 1 << 16, 255, 256, 65535}[s.Intn(13, "num")]
		}
		for set[x] {
			x++ // (also keeps the loop finite when a fuzz input is exhausted)
		}
		set[x] = true
	}
	nums := make([]uint32, 0, n)
	for x := range set {
		nums = append(nums, x)
	}
	sort.Slice(nums, func(i, j int) bool { return nums[i] < nums[j] })
	switch weighted(s, "order", 20, 15, 65) {
	case 1:
		for i, j := 0, len(nums)-1; i < j; i, j = i+1, j-1 {
			nums[i], nums[j] = nums[j], nums[i]
		}
	case 2:
		for i := len(nums) - 1; i > 0; i-- {
			j := s.Intn(i+1, "shuffle")
			nums[i], nums[j] = nums[j], nums[i]
		}
	}
	pNil := []int{0, 25, 50, 90}[s.Intn(4, "pnil")]
	for _, x := range nums {
		m.Versions = append(m.Versions, verSpec{Number: x, Nil: s.Intn(100, "nil") < pNil})
	}
	sorted := append([]uint32{}, nums...)
	sort.Slice(sorted, func(i, j int) bool { return sorted[i] < sorted[j] })
	latest := m.latest()
	switch weighted(s, "stored", 30, 25, 12, 13, 20) {
	case 0: // below every number (or 0)
		if len(sorted) > 0 && sorted[0] > 0 {
			m.Stored = sorted[0] - 1
			if s.Intn(2, "zero") == 0 {
				m.Stored = 0
			}
		}
	case 1: // equal to a number of the table (possibly the latest)
		if len(sorted) > 0 {
			m.Stored = sorted[s.Intn(len(sorted), "storedidx")]
		}
	case 2: // strictly between two numbers when there is room
		if len(sorted) > 1 {
			i := s.Intn(len(sorted)-1, "gapidx")
			m.Stored = sorted[i]
			if sorted[i+1]-sorted[i] > 1 {
				m.Stored = sorted[i] + 1
			}
		}
	case 3:
		m.Stored = latest
	default: // above the latest
		m.Stored = latest
		if latest < math.MaxUint32 {
			switch s.Intn(3, "above") {
			case 0:
				m.Stored = latest + 1
			case 1:
				d := uint32(1 + s.Intn(1000, "aboveby"))
				if math.MaxUint32-latest < d {
					d = math.MaxUint32 - latest
				}
				m.Stored = latest + d
			default:
				m.Stored = math.MaxUint32
			}
		}
	}
	m.SameSlice = s.Intn(2, "sameslice") == 0
	m.InitKeys = s.Intn(5, "initkeys")
	return m
}

func drawCase(s src) caseSpec {
	var c caseSpec
	n := 1 + weighted(s, "nmgrs", 50, 30, 20)
	for i := 0; i < n; i++ {
		c.Mgrs = append(c.Mgrs, drawMgr(s))
	}
	c.WriteBeforeFail = s.Intn(2, "writefirst") == 0
	return c
}

// ---------------------------------------------------------------------------
// the effect of a migration, on the real bucket and on the model

var (
	keyVer   = []byte("ver")
	keyChain = []byte("chain")
	keySub   = []byte("sub")
	keyLast  = []byte("last")
)

func be32(x uint32) []byte {
	var b [4]byte
	binary.BigEndian.PutUint32(b[:], x)
	return b[:]
}

func chainNext(chain []byte, n uint32) []byte {
	h := sha256.Sum256(append(append([]byte{}, chain...), be32(n)...))
	return h[:8]
}

func migKey(n uint32) []byte  { return []byte(fmt.Sprintf("mig-%d", n)) }
func dataKey(i uint32) []byte { return []byte(fmt.Sprintf("data-%d", i)) }

func applyReal(ns walletdb.ReadWriteBucket, n uint32) error {
	next := chainNext(ns.Get(keyChain), n)
	if err := ns.Put(keyChain, next); err != nil {
		return err
	}
	if err := ns.Put(migKey(n), next); err != nil {
		return err
	}
	sub, err := ns.CreateBucketIfNotExists(keySub)
	if err != nil {
		return err
	}
	if err := sub.Put(keyLast, be32(n)); err != nil {
		return err
	}
	if _, err := sub.NextSequence(); err != nil {
		return err
	}
	return ns.Delete(dataKey(n % 4))
}

func applyModel(mb *dbmodel.Bucket, n uint32) {
	next := chainNext(mb.KV[string(keyChain)], n)
	mb.KV[string(keyChain)] = next
	mb.KV[string(migKey(n))] = next
	sub := mb.Sub[string(keySub)]
	if sub == nil {
		sub = dbmodel.New()
		mb.Sub[string(keySub)] = sub
	}
	sub.KV[string(keyLast)] = be32(n)
	sub.Seq++
	delete(mb.KV, string(dataKey(n%4)))
}

func nsName(i int) []byte { return []byte(fmt.Sprintf("ns%d", i)) }

func initialModel(c *caseSpec) *dbmodel.Bucket {
	root := dbmodel.New()
	for i, m := range c.Mgrs {
		b := dbmodel.New()
		b.KV[string(keyVer)] = be32(m.Stored)
		b.KV[string(keyChain)] = []byte(fmt.Sprintf("genesis-%d", i))
		for k := 0; k < m.InitKeys; k++ {
			b.KV[string(dataKey(uint32(k)))] = bytes.Repeat([]byte{byte('A' + k)}, 10+300*k)
		}
		if m.InitKeys >= 3 {
			sub := dbmodel.New()
			sub.KV["old"] = []byte("x")
			sub.Seq = 5
			b.Sub[string(keySub)] = sub
		}
		root.Sub[string(nsName(i))] = b
	}
	return root
}

// expectedAfter is the state a fault-free upgrade must produce.
func expectedAfter(c *caseSpec, upTo int) *dbmodel.Bucket {
	root := initialModel(c)
	for i := range c.Mgrs {
		if i >= upTo {
			break
		}
		m := &c.Mgrs[i]
		b := root.Sub[string(nsName(i))]
		for _, v := range m.pending() {
			if !v.Nil {
				applyModel(b, v.Number)
			}
		}
		if m.Stored < m.latest() {
			b.KV[string(keyVer)] = be32(m.latest())
		}
	}
	return root
}

// ---------------------------------------------------------------------------
// fake manager

const (
	fNone = iota
	fCurrent
	fMigration
	fSetVersion
)

type fault struct {
	Kind   int
	Mgr    int
	Number uint32
}

func (f fault) String() string {
	switch f.Kind {
	case fCurrent:
		return fmt.Sprintf("CurrentVersion of m%d fails", f.Mgr)
	case fMigration:
		return fmt.Sprintf("migration %d of m%d fails", f.Number, f.Mgr)
	case fSetVersion:
		return fmt.Sprintf("SetVersion of m%d fails", f.Mgr)
	}
	return "no fault"
}

type traceEnt struct {
	Mgr      int
	Number   uint32
	Observed uint32 // stored version the migration saw
	ObsOK    bool
}

type run struct {
	c        *caseSpec
	f        fault
	trace    []traceEnt
	setCalls []string
	tables   [][]migration.Version // per manager, for SameSlice
}

type fakeMgr struct {
	r   *run
	idx int
	tx  walletdb.ReadWriteTx
	h   *harness
}

func (m *fakeMgr) Name() string { return fmt.Sprintf("fake manager m%d", m.idx) }

func (m *fakeMgr) Namespace() walletdb.ReadWriteBucket { return m.tx.ReadWriteBucket(nsName(m.idx)) }

func readVer(ns walletdb.ReadBucket) (uint32, error) {
	v := ns.Get(keyVer)
	if len(v) != 4 {
		return 0, fmt.Errorf("no version stored")
	}
	return binary.BigEndian.Uint32(v), nil
}

func (m *fakeMgr) CurrentVersion(ns walletdb.ReadBucket) (uint32, error) {
	if m.r.f.Kind == fCurrent && m.r.f.Mgr == m.idx {
		return 0, errInjected
	}
	if ns == nil {
		ns = m.Namespace()
	}
	return readVer(ns)
}

func (m *fakeMgr) SetVersion(ns walletdb.ReadWriteBucket, v uint32) error {
	m.r.setCalls = append(m.r.setCalls, fmt.Sprintf("m%d=%d", m.idx, v))
	if m.r.f.Kind == fSetVersion && m.r.f.Mgr == m.idx {
		return errInjected
	}
	if ns == nil {
		ns = m.Namespace()
	}
	return ns.Put(keyVer, be32(v))
}

func (m *fakeMgr) build() []migration.Version {
	spec := m.r.c.Mgrs[m.idx]
	out := make([]migration.Version, len(spec.Versions))
	h, idx := m.h, m.idx
	for i, v := range spec.Versions {
		out[i].Number = v.Number
		if v.Nil {
			continue
		}
		n := v.Number
		out[i].Migration = func(ns walletdb.ReadWriteBucket) error {
			// the table may outlive the run it was built in (real managers keep one
			// package-level table for the life of the process): resolve the run now
			r := h.cur
			m := &fakeMgr{r: r, idx: idx, h: h}
			obs, err := readVer(ns)
			m.r.trace = append(m.r.trace, traceEnt{Mgr: m.idx, Number: n, Observed: obs, ObsOK: err == nil})
			failing := m.r.f.Kind == fMigration && m.r.f.Mgr == m.idx && m.r.f.Number == n
			if failing && !m.r.c.WriteBeforeFail {
				return errInjected
			}
			if err := applyReal(ns, n); err != nil {
				return fmt.Errorf("harness migration %d: %w", n, err)
			}
			if failing {
				return errInjected
			}
			return nil
		}
	}
	return out
}

func (m *fakeMgr) Versions() []migration.Version {
	if m.r.c.Mgrs[m.idx].SameSlice {
		// one table for the whole case: every Upgrade call of the case (fault-free,
		// second, faulted, retries) goes through the same slice, as with the real
		// managers' package-level tables
		if m.h.tables[m.idx] == nil {
			m.h.tables[m.idx] = m.build()
		}
		return m.h.tables[m.idx]
	}
	return m.build()
}

// ---------------------------------------------------------------------------
// harness

type harness struct {
	dir    string
	db     walletdb.DB
	c      *caseSpec
	ec     *evid.Case
	viol   string
	cur    *run
	tables [][]migration.Version // per manager, for SameSlice: lives as long as the case
}

func (h *harness) failf(format string, a ...interface{}) {
	if h.viol == "" {
		h.viol = fmt.Sprintf(format, a...)
	}
}

func newHarness(c *caseSpec, ec *evid.Case) (*harness, error) {
	dir, err := os.MkdirTemp("/dev/shm", "verif-c19-")
	if err != nil {
		return nil, err
	}
	db, err := walletdb.Create("bdb", filepath.Join(dir, "c19.db"), true, 10*time.Second, false)
	if err != nil {
		os.RemoveAll(dir)
		return nil, err
	}
	return &harness{dir: dir, db: db, c: c, ec: ec}, nil
}

func (h *harness) close() {
	h.db.Close()
	os.RemoveAll(h.dir)
}

func writeModel(b walletdb.ReadWriteBucket, mb *dbmodel.Bucket) error {
	for k, v := range mb.KV {
		if err := b.Put([]byte(k), v); err != nil {
			return err
		}
	}
	for k, s := range mb.Sub {
		nb, err := b.CreateBucket([]byte(k))
		if err != nil {
			return err
		}
		if err := writeModel(nb, s); err != nil {
			return err
		}
	}
	if mb.Seq != 0 {
		return b.SetSequence(mb.Seq)
	}
	return nil
}

// reset (re)creates the namespaces with their initial content.
func (h *harness) reset() error {
	m0 := initialModel(h.c)
	return walletdb.Update(h.db, func(tx walletdb.ReadWriteTx) error {
		for i := range h.c.Mgrs {
			if tx.ReadWriteBucket(nsName(i)) != nil {
				if err := tx.DeleteTopLevelBucket(nsName(i)); err != nil {
					return err
				}
			}
			b, err := tx.CreateTopLevelBucket(nsName(i))
			if err != nil {
				return err
			}
			if err := writeModel(b, m0.Sub[string(nsName(i))]); err != nil {
				return err
			}
		}
		return nil
	})
}

type result struct {
	err      error
	trace    []traceEnt
	setCalls []string
	inTxVer  []uint32
	inTxOK   []bool
}

// upgrade runs migration.Upgrade for all managers inside one walletdb.Update.
func (h *harness) upgrade(f fault) result {
	r := &run{c: h.c, f: f, tables: make([][]migration.Version, len(h.c.Mgrs))}
	h.cur = r
	if h.tables == nil {
		h.tables = make([][]migration.Version, len(h.c.Mgrs))
	}
	var res result
	res.err = walletdb.Update(h.db, func(tx walletdb.ReadWriteTx) error {
		// (a managed function may in principle be re-run: start clean)
		r.trace, r.setCalls = nil, nil
		mgrs := make([]migration.Manager, len(h.c.Mgrs))
		for i := range h.c.Mgrs {
			mgrs[i] = &fakeMgr{r: r, idx: i, tx: tx, h: h}
		}
		uerr := migration.Upgrade(mgrs...)
		res.inTxVer = make([]uint32, len(mgrs))
		res.inTxOK = make([]bool, len(mgrs))
		for i := range mgrs {
			v, err := readVer(tx.ReadWriteBucket(nsName(i)))
			res.inTxVer[i], res.inTxOK[i] = v, err == nil
		}
		return uerr
	})
	res.trace, res.setCalls = r.trace, r.setCalls
	return res
}

// expectation for one run from the initial state
type expect struct {
	err     error
	trace   []traceEnt
	inTxVer []uint32
	sets    []string
	doneTo  int // managers fully processed
}

func (h *harness) expectFrom(f fault) expect {
	var e expect
	e.inTxVer = make([]uint32, len(h.c.Mgrs))
	for i := range h.c.Mgrs {
		e.inTxVer[i] = h.c.Mgrs[i].Stored
	}
	for i := range h.c.Mgrs {
		m := &h.c.Mgrs[i]
		if f.Kind == fCurrent && f.Mgr == i {
			e.err = errInjected
			return e
		}
		if m.reversion() {
			e.err = migration.ErrReversion
			return e
		}
		for _, v := range m.pending() {
			if v.Nil {
				continue
			}
			e.trace = append(e.trace, traceEnt{Mgr: i, Number: v.Number, Observed: m.Stored, ObsOK: true})
			if f.Kind == fMigration && f.Mgr == i && f.Number == v.Number {
				e.err = errInjected
				return e
			}
		}
		if m.Stored < m.latest() {
			e.sets = append(e.sets, fmt.Sprintf("m%d=%d", i, m.latest()))
			if f.Kind == fSetVersion && f.Mgr == i {
				e.err = errInjected
				return e
			}
			e.inTxVer[i] = m.latest()
		}
		e.doneTo = i + 1
	}
	return e
}

func traceStr(t []traceEnt) string {
	var sb strings.Builder
	for i, e := range t {
		if i > 0 {
			sb.WriteByte(' ')
		}
		fmt.Fprintf(&sb, "m%d#%d(saw v%d)", e.Mgr, e.Number, e.Observed)
	}
	return "[" + sb.String() + "]"
}

func (h *harness) compare(what string, got result, want expect) {
	if want.err == nil {
		if got.err != nil {
			h.failf("%s: Upgrade failed with %v, nothing was made to fail", what, got.err)
			return
		}
	} else if !errors.Is(got.err, want.err) {
		h.failf("%s: Upgrade (inside walletdb.Update) returned %v, want %v", what, got.err, want.err)
		return
	}
	if len(got.trace) != len(want.trace) {
		h.failf("%s: migrations run %s, want %s (the numbers above the stored version, ascending, each once, nil ones skipped)", what, traceStr(got.trace), traceStr(want.trace))
		return
	}
	for i := range got.trace {
		g, w := got.trace[i], want.trace[i]
		if g.Mgr != w.Mgr || g.Number != w.Number {
			h.failf("%s: migrations run %s, want %s (the numbers above the stored version, ascending, each once, nil ones skipped)", what, traceStr(got.trace), traceStr(want.trace))
			return
		}
		if !g.ObsOK || g.Observed != w.Observed {
			h.failf("%s: migration %d of m%d ran while the stored version was %d (ok=%v); the latest version must be recorded only after the migrations (stored version was %d)", what, g.Number, g.Mgr, g.Observed, g.ObsOK, w.Observed)
			return
		}
	}
	if strings.Join(got.setCalls, ",") != strings.Join(want.sets, ",") {
		h.failf("%s: SetVersion calls %v, want %v (the latest version, once, after the migrations)", what, got.setCalls, want.sets)
		return
	}
	for i := range want.inTxVer {
		if !got.inTxOK[i] || got.inTxVer[i] != want.inTxVer[i] {
			h.failf("%s: inside the transaction, after Upgrade returned %v, the stored version of m%d is %d (ok=%v), want %d", what, got.err, i, got.inTxVer[i], got.inTxOK[i], want.inTxVer[i])
			return
		}
	}
}

func (h *harness) dump(what string) *dbmodel.Bucket {
	d, err := dbmodel.DumpDB(h.db)
	if err != nil {
		h.failf("%s: cannot read the database: %v", what, err)
		return dbmodel.New()
	}
	return d
}

func (h *harness) faults() []fault {
	var fs []fault
	for i := range h.c.Mgrs {
		m := &h.c.Mgrs[i]
		fs = append(fs, fault{Kind: fCurrent, Mgr: i})
		if m.reversion() {
			break // nothing behind a refused manager is reached
		}
		for _, v := range m.pending() {
			if !v.Nil {
				fs = append(fs, fault{Kind: fMigration, Mgr: i, Number: v.Number})
			}
		}
		if m.Stored < m.latest() {
			fs = append(fs, fault{Kind: fSetVersion, Mgr: i})
		}
	}
	return fs
}

// checkFunctions tests GetLatestVersion and VersionsToApply directly.
func (h *harness) checkFunctions() {
	for i := range h.c.Mgrs {
		m := &h.c.Mgrs[i]
		mk := func() []migration.Version {
			out := make([]migration.Version, len(m.Versions))
			for k, v := range m.Versions {
				out[k].Number = v.Number
				if !v.Nil {
					out[k].Migration = func(walletdb.ReadWriteBucket) error { return nil }
				}
			}
			return out
		}
		nilOf := map[uint32]bool{}
		for _, v := range m.Versions {
			nilOf[v.Number] = v.Nil
		}
		// VersionsToApply first, on the table as declared
		for _, cur := range []uint32{m.Stored, 0, m.latest(), math.MaxUint32} {
			got := migration.VersionsToApply(cur, mk())
			var want []uint32
			for _, v := range m.Versions {
				if v.Number > cur {
					want = append(want, v.Number)
				}
			}
			sort.Slice(want, func(a, b int) bool { return want[a] < want[b] })
			var gotN []uint32
			for _, v := range got {
				gotN = append(gotN, v.Number)
			}
			if fmt.Sprint(gotN) != fmt.Sprint(want) {
				h.failf("VersionsToApply(current=%d) on the table of m%d returns %v, want %v (the numbers above the current version, ascending, each once)", cur, i, gotN, want)
				return
			}
			for _, v := range got {
				if (v.Migration == nil) != nilOf[v.Number] {
					h.failf("VersionsToApply(current=%d) on the table of m%d: version %d lost or gained its migration function", cur, i, v.Number)
					return
				}
			}
		}
		if got := migration.GetLatestVersion(mk()); got != m.latest() {
			h.failf("GetLatestVersion on the table of m%d returns %d, want %d", i, got, m.latest())
			return
		}
	}
}

func classify(ec *evid.Case, c *caseSpec, nFaults int) {
	ec.Class(fmt.Sprintf("managers=%d", len(c.Mgrs)))
	nt := false
	for i := range c.Mgrs {
		m := &c.Mgrs[i]
		switch {
		case len(m.Versions) == 0:
			ec.Class("empty-table")
		case len(m.Versions) == 1:
			ec.Class("single-version-table")
		case len(m.Versions) >= 8:
			ec.Class("table>=8-versions")
		}
		asc := sort.SliceIsSorted(m.Versions, func(a, b int) bool { return m.Versions[a].Number < m.Versions[b].Number })
		if !asc {
			ec.Class("table-declared-out-of-order")
		}
		p := m.pending()
		// pending migrations in declaration order
		var decl []uint32
		for _, v := range m.Versions {
			if v.Number > m.Stored {
				decl = append(decl, v.Number)
			}
		}
		outOfOrder := !sort.SliceIsSorted(decl, func(a, b int) bool { return decl[a] < decl[b] })
		nonNil := 0
		for _, v := range p {
			if !v.Nil {
				nonNil++
			} else {
				ec.Class("nil-migration-pending")
			}
		}
		switch {
		case m.reversion():
			ec.Class("stored-above-latest(reversion)")
			if i > 0 {
				ec.Class("reversion-behind-an-upgraded-manager")
			}
		case m.Stored == m.latest():
			ec.Class("stored-at-latest")
		default:
			ec.Class("stored-below-latest")
			inTable := false
			for _, v := range m.Versions {
				if v.Number == m.Stored {
					inTable = true
					if !v.Nil {
						ec.Class("stored-equals-non-nil-table-number-below-latest")
					}
				}
			}
			if !inTable {
				ec.Class("stored-not-in-table")
			}
			if len(p) > 0 && p[len(p)-1].Nil {
				ec.Class("latest-has-nil-migration")
				if nonNil > 0 {
					ec.Class("latest-nil-but-earlier-migrations-run")
				}
			}
			if len(p) < len(m.Versions) {
				ec.Class("some-versions-already-applied")
			}
		}
		if !m.reversion() && len(p) >= 2 && outOfOrder {
			ec.Class("NT:>=2-pending-declared-out-of-order")
			nt = true
		}
		if !m.reversion() && nonNil >= 2 {
			ec.Class("NT:failure-at-position>1")
			nt = true
		}
		if !m.reversion() && nonNil >= 1 && i > 0 {
			ec.Class("fault-in-later-manager(earlier-upgraded-then-rolled-back)")
		}
		for _, v := range m.Versions {
			if v.Number == 0 {
				ec.Class("number-0-in-table")
			}
			if v.Number >= 1<<31 {
				ec.Class("numbers>=2^31")
			}
		}
	}
	if nFaults >= 10 {
		ec.Class("fault-positions>=10")
	}
	if nt {
		ec.NonTrivial()
	}
}

// checkCase is the whole oracle for one drawn case.
func checkCase(t fataler, g *evid.Group, c caseSpec) {
	ec := g.Begin()
	defer ec.End()
	ec.Logf("%s", c.String())
	h, err := newHarness(&c, ec)
	if err != nil {
		t.Fatalf("INCONCLUSIVE: %v", err)
	}
	defer h.close()
	fail := func() {
		if h.viol != "" {
			t.Fatalf("C19 VIOLATED: %s\ncase:\n%s", h.viol, ec.Text())
		}
	}

	h.checkFunctions()
	fail()

	if err := h.reset(); err != nil {
		t.Fatalf("INCONCLUSIVE: reset: %v", err)
	}
	m0 := initialModel(&c)
	d0 := h.dump("initial state")
	if d := dbmodel.Diff(m0, d0); d != "" {
		t.Fatalf("INCONCLUSIVE: initial state differs from its model:\n%s", d)
	}

	// 1. without a fault
	wantOK := h.expectFrom(fault{})
	res := h.upgrade(fault{})
	h.compare("fault-free upgrade", res, wantOK)
	fail()
	dref := h.dump("after the fault-free upgrade")
	var mref *dbmodel.Bucket
	if wantOK.err == nil {
		mref = expectedAfter(&c, len(c.Mgrs))
	} else {
		mref = m0 // refused (ErrReversion): the enclosing transaction rolled back
	}
	if d := dbmodel.Diff(mref, dref); d != "" {
		if wantOK.err != nil {
			h.failf("upgrade refused with %v but the database was modified:\n%s", wantOK.err, d)
		} else {
			h.failf("state after the fault-free upgrade is not: initial data + each pending migration once, ascending + latest version:\n%s", d)
		}
	}
	fail()

	// 2. once more on the upgraded state: nothing is pending any more
	if wantOK.err == nil {
		res2 := h.upgrade(fault{})
		if res2.err != nil || len(res2.trace) != 0 {
			h.failf("second upgrade of an up-to-date database: err=%v, migrations run %s (want none: each migration runs once)", res2.err, traceStr(res2.trace))
		}
		if d := dbmodel.Diff(dref, h.dump("after the second upgrade")); d != "" {
			h.failf("second upgrade of an up-to-date database changed it:\n%s", d)
		}
		fail()
	}

	// 3. a failure at every position in turn, each followed by a retry
	fs := h.faults()
	g.Count("fault-runs", int64(len(fs)))
	for _, f := range fs {
		if err := h.reset(); err != nil {
			t.Fatalf("INCONCLUSIVE: reset: %v", err)
		}
		what := "upgrade with fault [" + f.String() + "]"
		want := h.expectFrom(f)
		got := h.upgrade(f)
		h.compare(what, got, want)
		fail()
		if d := dbmodel.Diff(m0, h.dump("after "+what)); d != "" {
			h.failf("%s: returned %v, yet after the enclosing transaction the database differs from before:\n%s", what, got.err, d)
		}
		fail()
		switch f.Kind {
		case fCurrent:
			ec.Class("fault-at-CurrentVersion")
		case fSetVersion:
			ec.Class("fault-at-SetVersion")
		case fMigration:
			ec.Class("fault-at-migration")
		}
		// retry without the fault
		got2 := h.upgrade(fault{})
		h.compare("retry after "+what, got2, wantOK)
		fail()
		if d := dbmodel.Diff(dref, h.dump("after the retry")); d != "" {
			h.failf("retry after %s ends in a different state than the fault-free upgrade:\n%s", what, d)
		}
		fail()
	}
	classify(ec, &c, len(fs))
}

func TestC19UpgradeTables(t *testing.T) {
	g := evid.G("TestC19UpgradeTables")
	rapid.Check(t, func(t *rapid.T) {
		c := drawCase(rapidSrc{t})
		checkCase(t, g, c)
	})
}

// FuzzC19 decodes a case from raw bytes (one byte per choice) and applies the
// same oracle.
func FuzzC19(f *testing.F) {
	f.Add([]byte{})
	for i := 0; i < 16; i++ {
		r := &recSrc{in: &lcgSrc{x: uint64(i)*104729 + 3}}
		drawCase(r)
		f.Add(r.out)
	}
	g := evid.G("FuzzC19")
	f.Fuzz(func(t *testing.T, data []byte) {
		if len(data) > 1024 {
			data = data[:1024]
		}
		checkCase(t, g, drawCase(&byteSrc{data: data}))
	})
}

// TestC19RegressSeedCorpus runs the fuzz seed corpus through the byte decoder.
func TestC19RegressSeedCorpus(t *testing.T) {
	g := evid.G("TestC19RegressSeedCorpus")
	for i := 0; i < 16; i++ {
		r := &recSrc{in: &lcgSrc{x: uint64(i)*104729 + 3}}
		c1 := drawCase(r)
		c2 := drawCase(&byteSrc{data: r.out})
		if c1.String() != c2.String() {
			t.Fatalf("INCONCLUSIVE: byte encoding does not round-trip:\n%s\nvs\n%s", c1.String(), c2.String())
		}
		checkCase(t, g, c2)
	}
}

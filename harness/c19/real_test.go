package c19

// Part (b): the real wtxmgr / waddrmgr namespaces of a real wallet file.
//
// A template wallet (wallet.Create with a fixed seed, fast scrypt parameters, a
// confirmed and an unconfirmed transaction with credits in the transaction
// store) is built once; every case works on a copy of the file.  The stored
// version marker of one or both namespaces is forced (through the managers'
// own SetVersion) above / at / below the latest version, and a drawn sequence
// of entry points is tried:
//
//	wtxmgr.Open and waddrmgr.Open in a read transaction,
//	migration.Upgrade with the real managers inside walletdb.Update,
//	wallet.Open,
//	migration.Upgrade with the real managers wrapped so that SetVersion fails
//	after writing, or the real migration runs and then reports failure.
//
// Oracle: a newer-than-known version is refused by every entry point (the
// documented error codes / migration.ErrReversion) and a recursive dump of
// the whole file is identical before and after; an older version is refused
// by the two Open functions without modification, upgraded by Upgrade /
// wallet.Open to exactly the latest version, and a failure injected after the
// real migrations ran leaves the file unchanged once the transaction has
// rolled back, with a retry ending in the same state as an undisturbed
// upgrade.

import (
	"errors"
	"fmt"
	"io"
	"math"
	"os"
	"path/filepath"
	"testing"
	"time"

	"github.com/btcsuite/btcd/btcutil/hdkeychain"
	"github.com/btcsuite/btcd/chaincfg"
	"github.com/btcsuite/btcd/chaincfg/chainhash"
	"github.com/btcsuite/btcd/wire"
	"github.com/btcsuite/btcwallet/snacl"
	"github.com/btcsuite/btcwallet/waddrmgr"
	"github.com/btcsuite/btcwallet/wallet"
	"github.com/btcsuite/btcwallet/walletdb"
	"github.com/btcsuite/btcwallet/walletdb/migration"
	"github.com/btcsuite/btcwallet/wtxmgr"
	"pgregory.net/rapid"

	"verifharness/internal/dbmodel"
	"verifharness/internal/evid"
)

var (
	nsAddr  = []byte("waddrmgr") // wallet.waddrmgrNamespaceKey
	nsTx    = []byte("wtxmgr")   // wallet.wtxmgrNamespaceKey
	pubPass = []byte("public")
	prvPass = []byte("private")
	params  = &chaincfg.RegressionNetParams
)

func buildTemplate(path string) error {
	// scrypt with N=16 instead of 262144: a wallet is created in milliseconds
	waddrmgr.SetSecretKeyGen(func(p *[]byte, _ *waddrmgr.ScryptOptions) (*snacl.SecretKey, error) {
		return snacl.NewSecretKey(p, 16, 8, 1)
	})
	db, err := walletdb.Create("bdb", path, true, 10*time.Second, false)
	if err != nil {
		return err
	}
	defer db.Close()
	seed := make([]byte, 32)
	for i := range seed {
		seed[i] = byte(i*7 + 1)
	}
	root, err := hdkeychain.NewMaster(seed, params)
	if err != nil {
		return err
	}
	if err := wallet.Create(db, pubPass, prvPass, root, params, time.Unix(1600000000, 0)); err != nil {
		return err
	}
	// some history for the transaction store
	return walletdb.Update(db, func(tx walletdb.ReadWriteTx) error {
		ns := tx.ReadWriteBucket(nsTx)
		s, err := wtxmgr.Open(ns, params)
		if err != nil {
			return err
		}
		mk := func(tag byte) *wire.MsgTx {
			m := wire.NewMsgTx(2)
			var h chainhash.Hash
			h[0], h[31] = tag, 0xc1
			m.AddTxIn(wire.NewTxIn(&wire.OutPoint{Hash: h, Index: 0}, nil, nil))
			m.AddTxOut(wire.NewTxOut(50000+int64(tag), []byte{0x51}))
			m.AddTxOut(wire.NewTxOut(7000, []byte{0x51, 0x51}))
			return m
		}
		var bh chainhash.Hash
		bh[0] = 0xb1
		block := &wtxmgr.BlockMeta{Block: wtxmgr.Block{Hash: bh, Height: 100}, Time: time.Unix(1600000100, 0)}
		rec1, err := wtxmgr.NewTxRecordFromMsgTx(mk(1), time.Unix(1600000050, 0))
		if err != nil {
			return err
		}
		if err := s.InsertTx(ns, rec1, block); err != nil {
			return err
		}
		if err := s.AddCredit(ns, rec1, block, 0, false); err != nil {
			return err
		}
		rec2, err := wtxmgr.NewTxRecordFromMsgTx(mk(2), time.Unix(1600000200, 0))
		if err != nil {
			return err
		}
		if err := s.InsertTx(ns, rec2, nil); err != nil {
			return err
		}
		return s.AddCredit(ns, rec2, nil, 1, true)
	})
}

func copyFile(dst, src string) error {
	in, err := os.Open(src)
	if err != nil {
		return err
	}
	defer in.Close()
	out, err := os.Create(dst)
	if err != nil {
		return err
	}
	if _, err := io.Copy(out, in); err != nil {
		out.Close()
		return err
	}
	return out.Close()
}

// faultMgr wraps a real manager: SetVersion writes and then fails, or the
// real migration runs and then reports failure.
type faultMgr struct {
	migration.Manager
	failSet       bool
	failMigration bool
	ran           *[]uint32
}

func (f *faultMgr) SetVersion(ns walletdb.ReadWriteBucket, v uint32) error {
	err := f.Manager.SetVersion(ns, v)
	if f.failSet {
		return errInjected
	}
	return err
}

func (f *faultMgr) Versions() []migration.Version {
	in := f.Manager.Versions()
	out := make([]migration.Version, len(in))
	for i, v := range in {
		out[i].Number = v.Number
		if v.Migration == nil {
			continue
		}
		real, n := v.Migration, v.Number
		out[i].Migration = func(ns walletdb.ReadWriteBucket) error {
			*f.ran = append(*f.ran, n)
			if err := real(ns); err != nil {
				return err
			}
			if f.failMigration {
				return errInjected
			}
			return nil
		}
	}
	return out
}

const (
	eTxOpen = iota
	eAddrOpen
	eUpgrade
	eWalletOpen
	eUpgradeFailSet
	eUpgradeFailMigration
	nEntries
)

var entryNames = []string{"wtxmgr.Open", "waddrmgr.Open", "migration.Upgrade(real managers)", "wallet.Open",
	"migration.Upgrade with SetVersion failing after its write", "migration.Upgrade with the real migration failing after it ran"}

type realCase struct {
	ForceTx, ForceAddr bool
	VTx, VAddr         uint32
	Entries            []int
}

func latestOf(vs []migration.Version) uint32 {
	var l uint32
	for _, v := range vs {
		if v.Number > l {
			l = v.Number
		}
	}
	return l
}

func drawForced(s src, latest uint32, below []uint32, label string) (uint32, string) {
	switch weighted(s, label, 22, 14, 10, 14, 40) {
	case 0:
		return latest + 1, "above"
	case 1:
		return latest + 2 + uint32(s.Intn(1000, label+"-by")), "above"
	case 2:
		return math.MaxUint32, "above"
	case 3:
		return latest, "at"
	default:
		return below[s.Intn(len(below), label+"-below")], "below"
	}
}

func TestC19RealManagers(t *testing.T) {
	g := evid.G("TestC19RealManagers")
	dir, err := os.MkdirTemp("/dev/shm", "verif-c19r-")
	if err != nil {
		t.Fatalf("INCONCLUSIVE: %v", err)
	}
	defer os.RemoveAll(dir)
	tmpl := filepath.Join(dir, "template.db")
	if err := buildTemplate(tmpl); err != nil {
		t.Fatalf("INCONCLUSIVE: building the template wallet: %v", err)
	}
	n := 0
	rapid.Check(t, func(t *rapid.T) {
		n++
		checkReal(t, g, rapidSrc{t}, tmpl, filepath.Join(dir, fmt.Sprintf("case-%d.db", n)))
	})
}

func checkReal(t fataler, g *evid.Group, s src, tmpl, path string) {
	// latest versions as the managers declare them (read from copies: the
	// package-level tables are not touched)
	var latestTx, latestAddr uint32
	var rc realCase
	ec := g.Begin()
	defer ec.End()

	if err := copyFile(path, tmpl); err != nil {
		t.Fatalf("INCONCLUSIVE: %v", err)
	}
	defer os.Remove(path)
	db, err := walletdb.Open("bdb", path, true, 10*time.Second, false)
	if err != nil {
		t.Fatalf("INCONCLUSIVE: %v", err)
	}
	defer db.Close()

	err = walletdb.View(db, func(tx walletdb.ReadTx) error {
		rw := tx.(walletdb.ReadWriteTx)
		latestTx = latestOf(wtxmgr.NewMigrationManager(rw.ReadWriteBucket(nsTx)).Versions())
		latestAddr = latestOf(waddrmgr.NewMigrationManager(rw.ReadWriteBucket(nsAddr)).Versions())
		return nil
	})
	if err != nil || latestTx == 0 || latestAddr == 0 {
		t.Fatalf("INCONCLUSIVE: cannot determine the latest versions: %v", err)
	}

	// scenario
	var kindTx, kindAddr = "at", "at"
	rc.VTx, rc.VAddr = latestTx, latestAddr
	switch weighted(s, "target", 35, 35, 30) {
	case 0:
		rc.ForceTx = true
	case 1:
		rc.ForceAddr = true
	default:
		rc.ForceTx, rc.ForceAddr = true, true
	}
	if rc.ForceTx {
		rc.VTx, kindTx = drawForced(s, latestTx, []uint32{0, 1}, "vtx")
	}
	if rc.ForceAddr {
		// from version 7 only storeMaxReorgDepth is pending, which works on any wallet
		rc.VAddr, kindAddr = drawForced(s, latestAddr, []uint32{latestAddr - 1}, "vaddr")
	}
	ne := 1 + s.Intn(3, "nentries")
	for i := 0; i < ne; i++ {
		rc.Entries = append(rc.Entries, s.Intn(nEntries, "entry"))
	}
	ec.Logf("wtxmgr version forced=%v to %d (latest %d, %s); waddrmgr forced=%v to %d (latest %d, %s)",
		rc.ForceTx, rc.VTx, latestTx, kindTx, rc.ForceAddr, rc.VAddr, latestAddr, kindAddr)
	for _, e := range rc.Entries {
		ec.Logf("  try %s", entryNames[e])
	}
	ec.Class("wtxmgr-" + kindTx)
	ec.Class("waddrmgr-" + kindAddr)
	if kindTx == "above" || kindAddr == "above" {
		ec.NonTrivial()
	}

	fail := func(format string, a ...interface{}) {
		t.Fatalf("C19 VIOLATED: %s\ncase:\n%s", fmt.Sprintf(format, a...), ec.Text())
	}

	// force the markers through the managers' own SetVersion and read them back
	err = walletdb.Update(db, func(tx walletdb.ReadWriteTx) error {
		tm := wtxmgr.NewMigrationManager(tx.ReadWriteBucket(nsTx))
		am := waddrmgr.NewMigrationManager(tx.ReadWriteBucket(nsAddr))
		if rc.ForceTx {
			if err := tm.SetVersion(nil, rc.VTx); err != nil {
				return err
			}
		}
		if rc.ForceAddr {
			if err := am.SetVersion(nil, rc.VAddr); err != nil {
				return err
			}
		}
		vt, err := tm.CurrentVersion(nil)
		if err != nil || vt != rc.VTx {
			return fmt.Errorf("wtxmgr version reads back %d, %v", vt, err)
		}
		va, err := am.CurrentVersion(nil)
		if err != nil || va != rc.VAddr {
			return fmt.Errorf("waddrmgr version reads back %d, %v", va, err)
		}
		return nil
	})
	if err != nil {
		t.Fatalf("INCONCLUSIVE: forcing the version markers: %v", err)
	}

	versions := func() (vt, va uint32) {
		err := walletdb.View(db, func(tx walletdb.ReadTx) error {
			rw := tx.(walletdb.ReadWriteTx)
			var err error
			if vt, err = wtxmgr.NewMigrationManager(rw.ReadWriteBucket(nsTx)).CurrentVersion(nil); err != nil {
				return err
			}
			va, err = waddrmgr.NewMigrationManager(rw.ReadWriteBucket(nsAddr)).CurrentVersion(nil)
			return err
		})
		if err != nil {
			fail("cannot read the stored versions any more: %v", err)
		}
		return
	}
	dump := func() *dbmodel.Bucket {
		d, err := dbmodel.DumpDB(db)
		if err != nil {
			t.Fatalf("INCONCLUSIVE: dump: %v", err)
		}
		return d
	}

	// reference: what an undisturbed upgrade of this file produces (on a second copy)
	var upgraded *dbmodel.Bucket
	reference := func() *dbmodel.Bucket {
		if upgraded != nil {
			return upgraded
		}
		p2 := path + ".ref"
		// the copy is taken through bbolt itself so that it is consistent
		f, err := os.Create(p2)
		if err != nil {
			t.Fatalf("INCONCLUSIVE: %v", err)
		}
		err = db.Copy(f)
		f.Close()
		defer os.Remove(p2)
		if err != nil {
			t.Fatalf("INCONCLUSIVE: %v", err)
		}
		db2, err := walletdb.Open("bdb", p2, true, 10*time.Second, false)
		if err != nil {
			t.Fatalf("INCONCLUSIVE: %v", err)
		}
		defer db2.Close()
		err = walletdb.Update(db2, func(tx walletdb.ReadWriteTx) error {
			return migration.Upgrade(wtxmgr.NewMigrationManager(tx.ReadWriteBucket(nsTx)),
				waddrmgr.NewMigrationManager(tx.ReadWriteBucket(nsAddr)))
		})
		if err != nil {
			fail("undisturbed upgrade of a copy failed: %v", err)
		}
		upgraded, err = dbmodel.DumpDB(db2)
		if err != nil {
			t.Fatalf("INCONCLUSIVE: %v", err)
		}
		return upgraded
	}

	for _, e := range rc.Entries {
		vt, va := versions()
		before := dump()
		aboveTx, aboveAddr := vt > latestTx, va > latestAddr
		belowTx, belowAddr := vt < latestTx, va < latestAddr
		name := entryNames[e]
		unchanged := func(why string) {
			if d := dbmodel.Diff(before, dump()); d != "" {
				fail("%s (wtxmgr version %d/latest %d, waddrmgr version %d/latest %d): %s, but the database was modified:\n%s",
					name, vt, latestTx, va, latestAddr, why, d)
			}
		}
		switch e {
		case eTxOpen:
			var oerr error
			_ = walletdb.View(db, func(tx walletdb.ReadTx) error {
				_, oerr = wtxmgr.Open(tx.ReadBucket(nsTx), params)
				return nil
			})
			var se wtxmgr.Error
			switch {
			case aboveTx:
				if oerr == nil || !errors.As(oerr, &se) || se.Code != wtxmgr.ErrUnknownVersion {
					fail("wtxmgr.Open on version %d (latest known %d) returned %v, want an error with code ErrUnknownVersion", vt, latestTx, oerr)
				}
				ec.Class("refused:wtxmgr.Open")
			case belowTx:
				if oerr == nil || !errors.As(oerr, &se) || se.Code != wtxmgr.ErrNeedsUpgrade {
					fail("wtxmgr.Open on version %d (latest known %d) returned %v, want an error with code ErrNeedsUpgrade", vt, latestTx, oerr)
				}
			default:
				if oerr != nil {
					fail("wtxmgr.Open on the latest version failed: %v", oerr)
				}
			}
			unchanged("a read-only open")
		case eAddrOpen:
			var oerr error
			_ = walletdb.View(db, func(tx walletdb.ReadTx) error {
				m, err := waddrmgr.Open(tx.ReadBucket(nsAddr), pubPass, params)
				if err == nil {
					m.Close()
				}
				oerr = err
				return nil
			})
			if aboveAddr || belowAddr {
				if !waddrmgr.IsError(oerr, waddrmgr.ErrUpgrade) {
					fail("waddrmgr.Open on version %d (latest known %d) returned %v, want a ManagerError with code ErrUpgrade", va, latestAddr, oerr)
				}
				if aboveAddr {
					ec.Class("refused:waddrmgr.Open")
				}
			} else if oerr != nil {
				fail("waddrmgr.Open on the latest version failed: %v", oerr)
			}
			unchanged("a read-only open")
		case eUpgrade, eWalletOpen:
			var uerr error
			var ref *dbmodel.Bucket
			if (belowTx || belowAddr) && !aboveTx && !aboveAddr && e == eUpgrade {
				ref = reference() // an undisturbed upgrade of a copy taken now
			}
			if e == eUpgrade {
				uerr = walletdb.Update(db, func(tx walletdb.ReadWriteTx) error {
					return migration.Upgrade(wtxmgr.NewMigrationManager(tx.ReadWriteBucket(nsTx)),
						waddrmgr.NewMigrationManager(tx.ReadWriteBucket(nsAddr)))
				})
			} else {
				_, uerr = wallet.Open(db, pubPass, nil, params, 10)
			}
			switch {
			case aboveTx || aboveAddr:
				// migration.Upgrade documents ErrReversion; for wallet.Open the
				// statement only demands a refusal (it may equally come from
				// one of the two Open calls behind the upgrade)
				if uerr == nil || (e == eUpgrade && !errors.Is(uerr, migration.ErrReversion)) {
					fail("%s with a stored version above the latest (wtxmgr %d/%d, waddrmgr %d/%d) returned %v, want a refusal (migration.ErrReversion)",
						name, vt, latestTx, va, latestAddr, uerr)
				}
				unchanged("the newer database was refused")
				ec.Class("refused:" + name)
				if belowTx && aboveAddr {
					ec.Class("refused-after-the-other-namespace-was-migrated-in-the-same-tx")
				}
			default:
				if uerr != nil {
					fail("%s (wtxmgr %d/%d, waddrmgr %d/%d) failed: %v", name, vt, latestTx, va, latestAddr, uerr)
				}
				nt, na := versions()
				if nt != latestTx || na != latestAddr {
					fail("after %s the stored versions are wtxmgr %d, waddrmgr %d; want the latest %d and %d", name, nt, na, latestTx, latestAddr)
				}
				if !belowTx && !belowAddr {
					if e == eUpgrade {
						unchanged("nothing was pending")
					}
				} else {
					ec.Class("upgraded:" + name)
					if ref != nil {
						if d := dbmodel.Diff(ref, dump()); d != "" {
							fail("%s: result differs from the upgrade of a copy of the same file:\n%s", name, d)
						}
					}
				}
			}
		case eUpgradeFailSet, eUpgradeFailMigration:
			var ran []uint32
			// reference state of an undisturbed upgrade (taken before the attempt)
			var ref *dbmodel.Bucket
			if (belowTx || belowAddr) && !aboveTx && !aboveAddr {
				ref = reference()
			}
			uerr := walletdb.Update(db, func(tx walletdb.ReadWriteTx) error {
				tm := &faultMgr{Manager: wtxmgr.NewMigrationManager(tx.ReadWriteBucket(nsTx)), ran: &ran,
					failSet: e == eUpgradeFailSet, failMigration: e == eUpgradeFailMigration}
				am := &faultMgr{Manager: waddrmgr.NewMigrationManager(tx.ReadWriteBucket(nsAddr)), ran: &ran,
					failSet: e == eUpgradeFailSet, failMigration: e == eUpgradeFailMigration}
				return migration.Upgrade(tm, am)
			})
			// what must happen, manager by manager (transaction store first)
			var want error
			switch {
			case aboveTx:
				want = migration.ErrReversion
			case belowTx:
				want = errInjected
			case aboveAddr:
				want = migration.ErrReversion
			case belowAddr:
				want = errInjected
			}
			if want == nil {
				if uerr != nil {
					fail("%s: nothing was pending, yet it returned %v", name, uerr)
				}
				unchanged("nothing was pending")
				break
			}
			if !errors.Is(uerr, want) {
				fail("%s (wtxmgr %d/%d, waddrmgr %d/%d) returned %v, want %v", name, vt, latestTx, va, latestAddr, uerr, want)
			}
			unchanged(fmt.Sprintf("the upgrade failed with %v and its transaction rolled back (real migrations that ran before: %v)", uerr, ran))
			if want == errInjected {
				ec.Class("real-migration-ran-then-rolled-back")
				ec.NonTrivial()
			}
			if ref != nil {
				// retry without the fault: same state as the undisturbed upgrade
				err := walletdb.Update(db, func(tx walletdb.ReadWriteTx) error {
					return migration.Upgrade(wtxmgr.NewMigrationManager(tx.ReadWriteBucket(nsTx)),
						waddrmgr.NewMigrationManager(tx.ReadWriteBucket(nsAddr)))
				})
				if err != nil {
					fail("retry after %s failed: %v", name, err)
				}
				if d := dbmodel.Diff(ref, dump()); d != "" {
					fail("retry after %s ends in a different state than an undisturbed upgrade:\n%s", name, d)
				}
				ec.Class("retry-equals-undisturbed-upgrade")
			}
		}
		// a later entry works on a different state: forget the reference
		upgraded = nil
	}
}

package c17

import (
	"bytes"
	"crypto/sha256"
	"errors"
	"testing"

	"github.com/btcsuite/btcwallet/snacl"

	"verifharness/internal/evid"
)

// applyEdits interprets script as a list of 4-byte edit instructions
// (op, position hi, position lo, value) over a copy of ct.
func applyEdits(ct []byte, script []byte) (out []byte, ops []string) {
	out = append([]byte(nil), ct...)
	for len(script) >= 4 && len(ops) < 64 {
		op, pos, val := script[0]%7, int(script[1])<<8|int(script[2]), script[3]
		script = script[4:]
		if len(out) > 0 {
			pos %= len(out) + 1
		} else {
			pos = 0
		}
		switch op {
		case 0: // xor a byte (val 0 = identity)
			if pos < len(out) {
				out[pos] ^= val
				ops = append(ops, "xor")
			}
		case 1: // set a byte (may be the identity)
			if pos < len(out) {
				out[pos] = val
				ops = append(ops, "set")
			}
		case 2: // truncate
			out = out[:pos]
			ops = append(ops, "truncate")
		case 3: // insert a byte
			out = append(out[:pos:pos], append([]byte{val}, out[pos:]...)...)
			ops = append(ops, "insert")
		case 4: // delete a byte
			if pos < len(out) {
				out = append(out[:pos:pos], out[pos+1:]...)
				ops = append(ops, "delete")
			}
		case 5: // append
			out = append(out, val)
			ops = append(ops, "append")
		case 6: // drop a prefix
			out = out[pos:]
			ops = append(ops, "dropprefix")
		}
		if len(out) > 4096 {
			out = out[:4096]
		}
	}
	return out, ops
}

// FuzzC17Decrypt: a real ciphertext of the fuzzed plaintext under a key derived
// from the input is edited by the fuzzed script. Decrypt must succeed (with the
// plaintext) exactly when the edits amount to the identity; in addition the raw
// script bytes themselves are offered as a ciphertext and must be refused.
func FuzzC17Decrypt(f *testing.F) {
	f.Add([]byte{}, []byte{}, byte(0))
	f.Add([]byte("hello"), []byte{0, 0, 5, 1}, byte(1))
	f.Add([]byte("hello"), []byte{0, 0, 5, 0}, byte(2))
	f.Add([]byte("a longer plaintext spanning more than one 16 byte block"), []byte{2, 0, 40, 0}, byte(3))
	f.Add([]byte{1, 2, 3}, []byte{3, 0, 0, 9, 4, 0, 0, 0}, byte(4)) // insert then delete: identity
	f.Add([]byte{}, []byte{5, 0, 0, 0}, byte(5))
	f.Add([]byte{7}, bytes.Repeat([]byte{0xff}, 64), byte(6))
	g := evid.G("FuzzC17Decrypt")
	f.Fuzz(func(t *testing.T, pt []byte, script []byte, keySel byte) {
		c := g.Begin()
		defer c.End()
		if len(pt) > 1024 {
			pt = pt[:1024]
		}
		var key snacl.CryptoKey
		if keySel != 0 {
			key = snacl.CryptoKey(sha256.Sum256([]byte{keySel}))
		}
		ct, err := key.Encrypt(pt)
		if err != nil {
			t.Fatalf("C17 VIOLATED: Encrypt failed: %v", err)
		}
		mod, ops := applyEdits(ct, script)
		identity := bytes.Equal(mod, ct)
		c.Logf("ptlen=%d key=%d ops=%v identity=%v", len(pt), keySel, ops, identity)
		out, err := key.Decrypt(mod)
		if identity {
			c.Class("identity")
			if err != nil || !bytes.Equal(out, pt) {
				t.Fatalf("C17 VIOLATED: untouched ciphertext does not open: err=%v got=%x want=%x key=%x ct=%x", err, out, pt, key[:], ct)
			}
		} else {
			c.Class("edited")
			if len(ops) > 0 {
				c.Class("last-" + ops[len(ops)-1])
			}
			if len(pt) > 0 {
				c.NonTrivial()
			}
			if err == nil || len(out) != 0 {
				t.Fatalf("C17 VIOLATED: edited ciphertext (%v) accepted: err=%v data=%x key=%x ct=%x edited=%x", ops, err, out, key[:], ct, mod)
			}
		}
		// arbitrary bytes are never a valid ciphertext (they were not produced by Encrypt)
		if out, err := key.Decrypt(script); err == nil || len(out) != 0 {
			t.Fatalf("C17 VIOLATED: arbitrary bytes %x accepted by Decrypt under key %x: err=%v data=%x", script, key[:], err, out)
		}
	})
}

// FuzzC17Unmarshal: arbitrary bytes into SecretKey.Unmarshal: either
// ErrMalformed, or parameters whose Marshal gives the input back. (DeriveKey is
// not called: arbitrary N/r/p only measure memory.)
func FuzzC17Unmarshal(f *testing.F) {
	f.Add([]byte{})
	f.Add(make([]byte, mLen))
	f.Add(make([]byte, mLen-1))
	f.Add(make([]byte, mLen+1))
	f.Add(bytes.Repeat([]byte{0xff}, mLen))
	pw := []byte("pw")
	if sk, err := snacl.NewSecretKey(&pw, 16, 8, 1); err == nil {
		f.Add(sk.Marshal())
	}
	g := evid.G("FuzzC17Unmarshal")
	f.Fuzz(func(t *testing.T, data []byte) {
		c := g.Begin()
		defer c.End()
		c.Logf("len=%d %x", len(data), data)
		in := append([]byte(nil), data...)
		var sk snacl.SecretKey
		err := sk.Unmarshal(data)
		if !bytes.Equal(in, data) {
			t.Fatalf("C17 VIOLATED: Unmarshal modified its input")
		}
		if err != nil {
			c.Class("rejected")
			if !errors.Is(err, snacl.ErrMalformed) {
				t.Fatalf("C17 VIOLATED: Unmarshal of %d bytes failed with %q, not ErrMalformed", len(data), err)
			}
			// an encoding produced by Marshal has mLen bytes; those must not be refused
			if len(data) == mLen {
				t.Fatalf("C17 VIOLATED: Unmarshal refused an encoding of the right length %d: %x", mLen, data)
			}
			return
		}
		c.Class("accepted")
		c.NonTrivial()
		if len(data) != mLen {
			t.Fatalf("C17 VIOLATED: Unmarshal accepted an encoding of %d bytes (Marshal produces %d): %x", len(data), mLen, data)
		}
		if back := sk.Marshal(); !bytes.Equal(back, data) {
			t.Fatalf("C17 VIOLATED: Marshal(Unmarshal(x)) != x: x=%x back=%x", data, back)
		}
		var sk2 snacl.SecretKey
		if err := sk2.Unmarshal(sk.Marshal()); err != nil || sk2.Parameters != sk.Parameters {
			t.Fatalf("C17 VIOLATED: parameters do not round-trip: %+v vs %+v (err=%v)", sk.Parameters, sk2.Parameters, err)
		}
	})
}

package c17

import (
	"bytes"
	"fmt"
	"sync"
	"sync/atomic"
	"testing"

	"github.com/btcsuite/btcwallet/waddrmgr"
	"github.com/btcsuite/btcwallet/walletdb"

	"pgregory.net/rapid"

	"verifharness/internal/evid"
)

// TestC17SealWhileLocking: the round trip "what was encrypted under a key
// decrypts under that key" also holds for ciphertexts produced while another
// goroutine locks and unlocks the manager. An Encrypt call that races with Lock
// may fail with a locked error, but a ciphertext it returns was sealed under
// the manager's private crypto key, not under a key that was being wiped.
//
// The schedule is sampled (1-4 sealing goroutines against 40-200 lock/unlock
// cycles per case), not enumerated; the oracle does not depend on it.
func TestC17SealWhileLocking(t *testing.T) {
	g := evid.G("TestC17SealWhileLocking")
	mgrOnce.Do(setupManager)
	if mgrErr != nil {
		t.Fatalf("INCONCLUSIVE: cannot create the address manager: %v", mgrErr)
	}
	rapid.Check(t, func(t *rapid.T) {
		c := g.Begin()
		defer c.End()
		unlock := func() error {
			return walletdb.View(mgrDB, func(tx walletdb.ReadTx) error {
				return mgr.Unlock(tx.ReadBucket(nsKey), privPass)
			})
		}
		if err := unlock(); err != nil {
			t.Fatalf("C17 VIOLATED: Unlock with the private passphrase failed: %v", err)
		}
		sealers := rapid.IntRange(1, 4).Draw(t, "sealers")
		cycles := rapid.IntRange(40, 200).Draw(t, "cycles")
		size := rapid.SampledFrom([]int{0, 1, 32, 200, 4000}).Draw(t, "plaintextSize")
		c.Logf("%d sealing goroutines, %d lock/unlock cycles, plaintexts of %d bytes", sealers, cycles, size)
		maxIter := 20000
		if size > 32 {
			maxIter = 2000 // bounds the memory held by the recorded ciphertexts
		}
		type pair struct{ pt, ct []byte }
		out := make([][]pair, sealers)
		var stop int32
		var refused int64
		var wg sync.WaitGroup
		for s := 0; s < sealers; s++ {
			wg.Add(1)
			go func(s int) {
				defer wg.Done()
				for i := 0; atomic.LoadInt32(&stop) == 0 && i < maxIter; i++ {
					pt := bytes.Repeat([]byte{byte(s), byte(i), byte(i >> 8)}, size/3+1)[:size]
					ct, err := mgr.Encrypt(waddrmgr.CKTPrivate, pt)
					if err != nil {
						atomic.AddInt64(&refused, 1)
						continue
					}
					out[s] = append(out[s], pair{pt, ct})
				}
			}(s)
		}
		var lockErr error
		for i := 0; i < cycles && lockErr == nil; i++ {
			if err := mgr.Lock(); err != nil {
				lockErr = fmt.Errorf("Lock: %v", err)
				break
			}
			if err := unlock(); err != nil {
				lockErr = fmt.Errorf("Unlock: %v", err)
			}
		}
		atomic.StoreInt32(&stop, 1)
		wg.Wait()
		if lockErr != nil {
			t.Fatalf("C17 VIOLATED: %v while other goroutines encrypt\ncase:\n%s", lockErr, c.Text())
		}
		if mgr.IsLocked() {
			if err := unlock(); err != nil {
				t.Fatalf("C17 VIOLATED: Unlock with the private passphrase failed: %v", err)
			}
		}
		total := 0
		for s := range out {
			for i, p := range out[s] {
				total++
				got, err := mgr.Decrypt(waddrmgr.CKTPrivate, p.ct)
				if err != nil {
					t.Fatalf("C17 VIOLATED: ciphertext #%d returned by Encrypt(private) of goroutine %d while another goroutine was locking does not decrypt under the private key: %v\ncase:\n%s", i, s, err, c.Text())
				}
				if !bytes.Equal(got, p.pt) {
					t.Fatalf("C17 VIOLATED: ciphertext #%d of goroutine %d decrypts to other bytes than were encrypted\ncase:\n%s", i, s, c.Text())
				}
			}
		}
		c.Logf("%d ciphertexts returned and checked, %d Encrypt calls refused (locked)", total, refused)
		if total > 0 && refused > 0 {
			c.Class("sealed-and-refused-in-one-run")
			c.NonTrivial()
		}
		if refused == 0 {
			c.Class("no-call-met-the-locked-state")
		}
	})
}

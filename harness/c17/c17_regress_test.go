package c17

import (
	"testing"

	"github.com/btcsuite/btcwallet/snacl"
	"github.com/btcsuite/btcwallet/walletdb"

	"verifharness/internal/evid"
	"verifharness/internal/known"
)

// TestC17RegressF8 shows finding F8 on its smallest input: a key created from
// the passphrase "a" accepts "a\x00" (scrypt -> PBKDF2 -> HMAC-SHA256 pads its
// key with zero bytes), at the snacl level and through Manager.Unlock. It
// fails with "C17 VIOLATED" iff the defect is present and F8 is not listed as
// an open known finding; when listed it logs and passes.
func TestC17RegressF8(t *testing.T) {
	g := evid.G("TestC17RegressF8")
	c := g.Begin()
	defer c.End()
	c.NonTrivial()

	var present []string

	// snacl: NewSecretKey("a") -> Marshal -> Unmarshal -> DeriveKey("a\x00")
	pass := []byte("a")
	sk, err := snacl.NewSecretKey(&pass, 2, 1, 1)
	if err != nil {
		t.Fatalf("INCONCLUSIVE: NewSecretKey: %v", err)
	}
	var sk2 snacl.SecretKey
	if err := sk2.Unmarshal(sk.Marshal()); err != nil {
		t.Fatalf("C17 VIOLATED: Unmarshal(Marshal()) failed: %v", err)
	}
	other := []byte("a\x00")
	err = sk2.DeriveKey(&other)
	c.Logf("snacl: key created from %q, DeriveKey(%q) -> %v", pass, other, err)
	if err == nil {
		present = append(present, `snacl.SecretKey created from "a" (N=2,r=1,p=1): after Marshal->Unmarshal DeriveKey("a\x00") returns nil and re-derives the same key`)
		if *sk2.Key != *sk.Key {
			t.Fatalf("C17 VIOLATED: DeriveKey accepted %q but derived a different key", other)
		}
	}
	// control: a non-equivalent added byte is rejected
	ctl := []byte("a\x01")
	if err := sk2.DeriveKey(&ctl); err != snacl.ErrInvalidPassword {
		t.Fatalf("C17 VIOLATED: DeriveKey(%q) for a key created from %q returned %v, not ErrInvalidPassword", ctl, pass, err)
	}

	// manager: locked Unlock(private passphrase || 0x00)
	mgrOnce.Do(setupManager)
	if mgrViolation != "" {
		t.Fatalf("C17 VIOLATED: %s", mgrViolation)
	}
	if mgrErr != nil {
		t.Fatalf("INCONCLUSIVE: cannot create the address manager: %v", mgrErr)
	}
	if !mgr.IsLocked() {
		if err := mgr.Lock(); err != nil {
			t.Fatalf("INCONCLUSIVE: Lock: %v", err)
		}
	}
	padded := append(append([]byte(nil), privPass...), 0)
	err = walletdb.View(mgrDB, func(tx walletdb.ReadTx) error {
		return mgr.Unlock(tx.ReadBucket(nsKey), padded)
	})
	c.Logf("manager: private passphrase %q, locked Unlock(%q) -> %v", privPass, padded, err)
	if err == nil {
		present = append(present, `waddrmgr.Manager created with private passphrase "c17-private-passphrase": Unlock(ns, "c17-private-passphrase\x00") on the locked manager returns nil and unlocks it`)
		if mgr.IsLocked() {
			t.Fatalf("C17 VIOLATED: Unlock returned nil but the manager is locked")
		}
		_ = mgr.Lock()
	}

	switch {
	case len(present) == 0:
		t.Logf("F8 not present: passphrases differing by a trailing 0x00 are rejected")
	case known.Open(findingHMAC):
		g.KnownHit(findingHMAC)
		c.Class("F8-present")
		for _, p := range present {
			t.Logf("KNOWN-FINDING: property=C17 id=F8 %s", p)
		}
	default:
		t.Fatalf("C17 VIOLATED: a passphrase-derived key accepts a passphrase other than the one it was created from (HMAC zero padding of the scrypt/PBKDF2 password, F8):\n  %s\n  %s",
			present[0], func() string {
				if len(present) > 1 {
					return present[1]
				}
				return ""
			}())
	}
}

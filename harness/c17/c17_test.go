// C17 - stored ciphertexts are authenticated and bound to the right passphrase.
//
// TestC17CryptoKey: snacl.CryptoKey.Encrypt/Decrypt. For every generated
// (plaintext, key) the ciphertext is attacked exhaustively: every single bit
// flip and every truncation length (from the end and from the front), plus
// drawn multi-byte overwrites, deletions, insertions and extensions; every
// attacked form must be refused with an error and without data. Round trip,
// "other key fails" and "two encryptions differ" are checked on the way.
//
// TestC17SecretKey: snacl.SecretKey (scrypt with small parameters):
// NewSecretKey -> Marshal -> Unmarshal -> DeriveKey with the creating
// passphrase re-derives the same key; every near-miss passphrase, every bit
// flip inside the stored salt or digest and every other (small, valid) value
// of N/r/p makes DeriveKey answer ErrInvalidPassword; every wrong length of
// the encoding is ErrMalformed.
//
// The randomness of the code under test (nonce, salt, GenerateCryptoKey) comes
// from crypto/rand inside snacl and cannot be seeded; failure messages therefore
// carry key, plaintext and ciphertext in hex.
package c17

import (
	"bytes"
	"encoding/hex"
	"fmt"
	"os"
	"testing"

	"github.com/btcsuite/btcwallet/snacl"
	"pgregory.net/rapid"

	"verifharness/internal/evid"
)

var thorough = os.Getenv("VERIF_TIER") == "thorough"

// Layout of a CryptoKey ciphertext (snacl.go Encrypt): nonce | poly1305 tag |
// body. Only used to classify tamper positions, never by an oracle.
const (
	offTag  = snacl.NonceSize
	offBody = snacl.NonceSize + snacl.Overhead
)

func region(pos int) string {
	switch {
	case pos < offTag:
		return "nonce"
	case pos < offBody:
		return "tag"
	default:
		return "body"
	}
}

// drawPos draws a byte position of a ciphertext of length n: first the region
// (nonce, tag, body when there is one), then the offset inside it.
func drawPos(t *rapid.T, n int, label string) int {
	if n < offBody {
		// not the layout of this tree (only reachable when the code was changed)
		return rapid.IntRange(0, max(n-1, 0)).Draw(t, label)
	}
	regions := []string{"nonce", "tag"}
	if n > offBody {
		regions = append(regions, "body", "body")
	}
	switch rapid.SampledFrom(regions).Draw(t, label+"region") {
	case "nonce":
		return rapid.IntRange(0, offTag-1).Draw(t, label)
	case "tag":
		return rapid.IntRange(offTag, offBody-1).Draw(t, label)
	default:
		return rapid.IntRange(offBody, n-1).Draw(t, label)
	}
}

func hx(b []byte) string {
	if len(b) == 0 {
		return "(empty)"
	}
	return hex.EncodeToString(b)
}

func drawPlaintext(t *rapid.T, label string) ([]byte, string) {
	kind := rapid.SampledFrom([]string{"empty", "one", "short", "edge", "long"}).Draw(t, label+"kind")
	var n int
	switch kind {
	case "empty":
		n = 0
	case "one":
		n = 1
	case "short":
		n = rapid.IntRange(2, 14).Draw(t, label+"len")
	case "edge":
		// around the 16-byte poly1305 and 64-byte salsa20 block sizes
		n = rapid.SampledFrom([]int{15, 16, 17, 31, 32, 33, 63, 64, 65, 127, 128, 129}).Draw(t, label+"len")
	default:
		n = rapid.IntRange(66, 300).Draw(t, label+"len")
	}
	fill := rapid.SampledFrom([]string{"random", "zero", "ff"}).Draw(t, label+"fill")
	var pt []byte
	switch fill {
	case "random":
		pt = rapid.SliceOfN(rapid.Byte(), n, n).Draw(t, label+"bytes")
	case "zero":
		pt = make([]byte, n)
	default:
		pt = bytes.Repeat([]byte{0xff}, n)
	}
	return pt, kind
}

// drawKey returns a key and how it was made.
func drawKey(t *rapid.T, label string) (*snacl.CryptoKey, string) {
	src := rapid.SampledFrom([]string{"generated", "generated", "drawn", "zero", "ff", "onebit"}).Draw(t, label+"src")
	var k snacl.CryptoKey
	switch src {
	case "generated":
		g, err := snacl.GenerateCryptoKey()
		if err != nil {
			t.Fatalf("INCONCLUSIVE: GenerateCryptoKey: %v", err)
		}
		// a generated key of all zero bytes means the generator did nothing
		if *g == (snacl.CryptoKey{}) {
			t.Fatalf("C17 VIOLATED: GenerateCryptoKey returned the all-zero key")
		}
		return g, src
	case "drawn":
		b := rapid.SliceOfN(rapid.Byte(), snacl.KeySize, snacl.KeySize).Draw(t, label+"bytes")
		copy(k[:], b)
	case "zero":
	case "ff":
		for i := range k {
			k[i] = 0xff
		}
	case "onebit":
		bit := rapid.IntRange(0, snacl.KeySize*8-1).Draw(t, label+"bit")
		k[bit/8] = 1 << (bit % 8)
	}
	return &k, src
}

// refused checks that Decrypt answered with an error and no data.
func refused(out []byte, err error) string {
	if err == nil {
		return fmt.Sprintf("Decrypt returned no error (data %s)", hx(out))
	}
	if len(out) != 0 {
		return fmt.Sprintf("Decrypt returned error %q together with data %s", err, hx(out))
	}
	return ""
}

func TestC17CryptoKey(t *testing.T) {
	g := evid.G("TestC17CryptoKey")
	rapid.Check(t, func(t *rapid.T) {
		c := g.Begin()
		defer c.End()

		pt, ptKind := drawPlaintext(t, "pt")
		k1, src1 := drawKey(t, "k1")
		// a distinct second key: independent, or k1 with a single bit changed
		var k2 *snacl.CryptoKey
		k2src := rapid.SampledFrom([]string{"independent", "onebit-off", "onebit-off"}).Draw(t, "k2src")
		if k2src == "independent" {
			k2, _ = drawKey(t, "k2")
			if *k2 == *k1 {
				k2[0] ^= 1
			}
		} else {
			kk := *k1
			bit := rapid.IntRange(0, snacl.KeySize*8-1).Draw(t, "k2bit")
			kk[bit/8] ^= 1 << (bit % 8)
			k2 = &kk
		}
		c.Logf("plaintext kind=%s len=%d %s", ptKind, len(pt), hx(pt))
		c.Logf("k1 src=%s k2=%s", src1, k2src)
		if src1 != "generated" {
			c.Logf("k1=%x", k1[:])
		}
		c.Class("pt-" + ptKind)
		c.Class("k1-" + src1)
		c.Class("k2-" + k2src)

		ptCopy := append([]byte(nil), pt...)
		ct, err := k1.Encrypt(pt)
		if err != nil {
			t.Fatalf("C17 VIOLATED: Encrypt failed: %v, case:\n%s", err, c.Text())
		}
		if !bytes.Equal(pt, ptCopy) {
			t.Fatalf("C17 VIOLATED: Encrypt modified its input, case:\n%s", c.Text())
		}
		ctx := func() string {
			return fmt.Sprintf("key=%x\nk2=%x\nplaintext=%s\nciphertext=%s\ncase:\n%s", k1[:], k2[:], hx(pt), hx(ct), c.Text())
		}

		// round trip
		out, err := k1.Decrypt(ct)
		if err != nil {
			t.Fatalf("C17 VIOLATED: Decrypt of an untouched ciphertext under the same key failed: %v\n%s", err, ctx())
		}
		if !bytes.Equal(out, pt) {
			t.Fatalf("C17 VIOLATED: round trip returned %s instead of the plaintext\n%s", hx(out), ctx())
		}
		// the plaintext is not visible in the ciphertext
		if len(pt) >= 8 && bytes.Contains(ct, pt) {
			t.Fatalf("C17 VIOLATED: ciphertext contains the plaintext\n%s", ctx())
		}

		// two encryptions of equal plaintext differ (and both open)
		nrep := 3
		seen := map[string]bool{string(ct): true}
		for i := 0; i < nrep; i++ {
			ct2, err := k1.Encrypt(pt)
			if err != nil {
				t.Fatalf("C17 VIOLATED: second Encrypt failed: %v\n%s", err, ctx())
			}
			if seen[string(ct2)] {
				t.Fatalf("C17 VIOLATED: two encryptions of the same plaintext under the same key are equal: %s\n%s", hx(ct2), ctx())
			}
			seen[string(ct2)] = true
			o2, err := k1.Decrypt(ct2)
			if err != nil || !bytes.Equal(o2, pt) {
				t.Fatalf("C17 VIOLATED: repeated encryption does not open (err=%v, got %s)\n%s", err, hx(o2), ctx())
			}
		}

		// another key
		if msg := refused(k2.Decrypt(ct)); msg != "" {
			t.Fatalf("C17 VIOLATED: decryption under a different key: %s\n%s", msg, ctx())
		}
		// ... and the other way round
		ctB, err := k2.Encrypt(pt)
		if err != nil {
			t.Fatalf("C17 VIOLATED: Encrypt under k2 failed: %v\n%s", err, ctx())
		}
		if msg := refused(k1.Decrypt(ctB)); msg != "" {
			t.Fatalf("C17 VIOLATED: decryption of k2's ciphertext %s under k1: %s\n%s", hx(ctB), msg, ctx())
		}

		// every single bit flip
		work := append([]byte(nil), ct...)
		var nNonce, nTag, nBody int64
		for pos := 0; pos < len(work); pos++ {
			for bit := uint(0); bit < 8; bit++ {
				work[pos] ^= 1 << bit
				if msg := refused(k1.Decrypt(work)); msg != "" {
					t.Fatalf("C17 VIOLATED: bit %d of byte %d (%s) flipped: %s\ntampered=%s\n%s", bit, pos, region(pos), msg, hx(work), ctx())
				}
				work[pos] ^= 1 << bit
			}
			switch region(pos) {
			case "nonce":
				nNonce += 8
			case "tag":
				nTag += 8
			default:
				nBody += 8
			}
		}
		if !bytes.Equal(work, ct) {
			t.Fatalf("C17 VIOLATED: Decrypt modified its input\n%s", ctx())
		}
		g.Count("bitflips-nonce", nNonce)
		g.Count("bitflips-tag", nTag)
		g.Count("bitflips-body", nBody)

		// every truncation length, from the end and from the front
		for n := 0; n < len(ct); n++ {
			if msg := refused(k1.Decrypt(ct[:n])); msg != "" {
				t.Fatalf("C17 VIOLATED: ciphertext truncated to its first %d of %d bytes: %s\n%s", n, len(ct), msg, ctx())
			}
			if n > 0 {
				if msg := refused(k1.Decrypt(ct[n:])); msg != "" {
					t.Fatalf("C17 VIOLATED: ciphertext with its first %d of %d bytes removed: %s\n%s", n, len(ct), msg, ctx())
				}
			}
		}
		g.Count("truncations", int64(2*len(ct)-1))

		// drawn multi-byte edits and extensions
		if len(ct) == 0 {
			t.Fatalf("C17 VIOLATED: empty ciphertext\n%s", ctx())
		}
		nEdits := rapid.IntRange(4, 12).Draw(t, "nedits")
		for e := 0; e < nEdits; e++ {
			kind := rapid.SampledFrom([]string{"overwrite", "delete", "insert", "append", "prepend", "swap", "splice"}).Draw(t, "edit")
			var mod []byte
			desc := kind
			switch kind {
			case "overwrite":
				pos := drawPos(t, len(ct), "pos")
				n := rapid.IntRange(1, min(16, len(ct)-pos)).Draw(t, "n")
				repl := rapid.SliceOfN(rapid.Byte(), n, n).Draw(t, "repl")
				mod = append([]byte(nil), ct...)
				copy(mod[pos:], repl)
				desc = fmt.Sprintf("overwrite %d bytes at %d (%s)", n, pos, region(pos))
				c.Class("edit-overwrite-" + region(pos))
			case "delete":
				pos := drawPos(t, len(ct), "pos")
				n := rapid.IntRange(1, min(16, len(ct)-pos)).Draw(t, "n")
				mod = append(append([]byte(nil), ct[:pos]...), ct[pos+n:]...)
				desc = fmt.Sprintf("delete %d bytes at %d (%s)", n, pos, region(pos))
				c.Class("edit-delete-" + region(pos))
			case "insert":
				pos := rapid.IntRange(0, len(ct)).Draw(t, "pos")
				ins := rapid.SliceOfN(rapid.Byte(), 1, 16).Draw(t, "ins")
				mod = append(append(append([]byte(nil), ct[:pos]...), ins...), ct[pos:]...)
				desc = fmt.Sprintf("insert %d bytes at %d", len(ins), pos)
				c.Class("edit-insert")
			case "append":
				ins := rapid.SliceOfN(rapid.Byte(), 1, 40).Draw(t, "ins")
				mod = append(append([]byte(nil), ct...), ins...)
				desc = fmt.Sprintf("append %d bytes", len(ins))
				c.Class("edit-append")
			case "prepend":
				ins := rapid.SliceOfN(rapid.Byte(), 1, 40).Draw(t, "ins")
				mod = append(append([]byte(nil), ins...), ct...)
				desc = fmt.Sprintf("prepend %d bytes", len(ins))
				c.Class("edit-prepend")
			case "swap":
				// exchange two bytes of the ciphertext
				i := rapid.IntRange(0, len(ct)-1).Draw(t, "i")
				j := rapid.IntRange(0, len(ct)-1).Draw(t, "j")
				mod = append([]byte(nil), ct...)
				mod[i], mod[j] = mod[j], mod[i]
				desc = fmt.Sprintf("swap bytes %d and %d", i, j)
				c.Class("edit-swap")
			case "splice":
				// nonce+tag of one ciphertext with the body of another of the same plaintext
				other, err := k1.Encrypt(pt)
				if err != nil {
					t.Fatalf("C17 VIOLATED: Encrypt failed: %v\n%s", err, ctx())
				}
				cut := rapid.SampledFrom([]int{offTag, offBody}).Draw(t, "cut")
				mod = append(append([]byte(nil), ct[:cut]...), other[cut:]...)
				desc = fmt.Sprintf("head (%d bytes) of this ciphertext, rest of another encryption of the same plaintext", cut)
				c.Class("edit-splice")
			}
			if bytes.Equal(mod, ct) {
				c.Class("edit-was-identity")
				continue
			}
			c.Logf("edit: %s", desc)
			if msg := refused(k1.Decrypt(mod)); msg != "" {
				t.Fatalf("C17 VIOLATED: %s: %s\ntampered=%s\n%s", desc, msg, hx(mod), ctx())
			}
		}
		g.Count("cases-ciphertext-bytes", int64(len(ct)))

		// non-trivial: plaintext non-empty, so that nonce, tag and body each had a tamper position
		if len(pt) > 0 && nNonce > 0 && nTag > 0 && nBody > 0 {
			c.NonTrivial()
		}
	})
}

// ---- passphrase-derived keys ---------------------------------------------------

// Layout of SecretKey.Marshal (snacl.go): salt(32) | digest(32) | N(8) | R(8) | P(8), little endian.
const (
	mSalt   = 0
	mDigest = snacl.KeySize
	mN      = snacl.KeySize + 32
	mR      = mN + 8
	mP      = mR + 8
	mLen    = mP + 8
)

func drawPassphrase(t *rapid.T) ([]byte, string) {
	kind := rapid.SampledFrom([]string{"empty", "one", "ascii", "ascii", "binary", "max", "utf8"}).Draw(t, "passkind")
	switch kind {
	case "empty":
		return []byte{}, kind
	case "one":
		return []byte{rapid.Byte().Draw(t, "b")}, kind
	case "ascii":
		s := rapid.StringOfN(rapid.RuneFrom(asciiRunes), 2, 64, 64).Draw(t, "pass")
		return []byte(s), kind
	case "binary":
		return rapid.SliceOfN(rapid.Byte(), 2, 64).Draw(t, "pass"), kind
	case "max":
		return rapid.SliceOfN(rapid.Byte(), 64, 64).Draw(t, "pass"), kind
	default:
		s := rapid.StringOfN(rapid.Rune(), 1, 16, 64).Draw(t, "pass")
		return []byte(s), kind
	}
}

var asciiRunes = func() []rune {
	var r []rune
	for c := rune(0x20); c < 0x7f; c++ {
		r = append(r, c)
	}
	return r
}()

package c17

import (
	"testing"

	"verifharness/internal/evid"
)

func TestMain(m *testing.M) {
	evid.Main(func() int {
		code := m.Run()
		closeManager()
		return code
	})
}

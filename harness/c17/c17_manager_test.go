package c17

import (
	"bytes"
	"fmt"
	"os"
	"path/filepath"
	"sync"
	"testing"
	"time"

	"github.com/btcsuite/btcd/btcutil/hdkeychain"
	"github.com/btcsuite/btcd/chaincfg"
	"github.com/btcsuite/btcwallet/snacl"
	"github.com/btcsuite/btcwallet/waddrmgr"
	"github.com/btcsuite/btcwallet/walletdb"
	_ "github.com/btcsuite/btcwallet/walletdb/bdb"
	"pgregory.net/rapid"

	"verifharness/internal/evid"
	"verifharness/internal/known"
)

// One address manager per test process (creation costs several scrypt runs and
// a database file); every case brings it into the lock state it draws.
var (
	mgrOnce      sync.Once
	mgrErr       error
	mgrViolation string
	mgrDir       string
	mgrDB        walletdb.DB
	mgr          *waddrmgr.Manager
	nsKey        = []byte("waddrmgr")
	pubPass      = []byte("c17-public-passphrase")
	privPass     = []byte("c17-private-passphrase")
)

func setupManager() {
	waddrmgr.SetSecretKeyGen(func(passphrase *[]byte, _ *waddrmgr.ScryptOptions) (*snacl.SecretKey, error) {
		return snacl.NewSecretKey(passphrase, 16, 8, 1)
	})
	mgrDir, mgrErr = os.MkdirTemp("/dev/shm", "verif-c17-")
	if mgrErr != nil {
		return
	}
	mgrDB, mgrErr = walletdb.Create("bdb", filepath.Join(mgrDir, "mgr.db"), true, 10*time.Second, false)
	if mgrErr != nil {
		return
	}
	seed := bytes.Repeat([]byte{0x17}, 32)
	root, err := hdkeychain.NewMaster(seed, &chaincfg.MainNetParams)
	if err != nil {
		mgrErr = err
		return
	}
	mgrErr = walletdb.Update(mgrDB, func(tx walletdb.ReadWriteTx) error {
		ns, err := tx.CreateTopLevelBucket(nsKey)
		if err != nil {
			return err
		}
		err = waddrmgr.Create(ns, root, pubPass, privPass, &chaincfg.MainNetParams, &waddrmgr.FastScryptOptions, time.Time{})
		if err != nil {
			return err
		}
		mgr, err = waddrmgr.Open(ns, pubPass, &chaincfg.MainNetParams)
		if waddrmgr.IsError(err, waddrmgr.ErrWrongPassphrase) || waddrmgr.IsError(err, waddrmgr.ErrCrypto) {
			// the stored parameters of the public master key did not
			// re-derive the key they were created with
			mgrViolation = fmt.Sprintf("waddrmgr.Open with the public passphrase %q right after Create with the same passphrase failed: %v", pubPass, err)
		}
		return err
	})
}

func closeManager() {
	if mgr != nil {
		mgr.Close()
	}
	if mgrDB != nil {
		mgrDB.Close()
	}
	if mgrDir != "" {
		os.RemoveAll(mgrDir)
	}
}

func ktName(k waddrmgr.CryptoKeyType) string {
	switch k {
	case waddrmgr.CKTPublic:
		return "public"
	case waddrmgr.CKTPrivate:
		return "private"
	case waddrmgr.CKTScript:
		return "script"
	}
	return fmt.Sprintf("type%d", k)
}

func needsUnlock(k waddrmgr.CryptoKeyType) bool {
	return k == waddrmgr.CKTPrivate || k == waddrmgr.CKTScript
}

type sealed struct {
	kt   waddrmgr.CryptoKeyType
	pt   []byte
	ct   []byte
	born int // number of lock/reopen events before it was made
}

func TestC17Manager(t *testing.T) {
	g := evid.G("TestC17Manager")
	mgrOnce.Do(setupManager)
	if mgrViolation != "" {
		t.Fatalf("C17 VIOLATED: %s", mgrViolation)
	}
	if mgrErr != nil {
		t.Fatalf("INCONCLUSIVE: cannot create the address manager: %v", mgrErr)
	}
	keyTypes := []waddrmgr.CryptoKeyType{waddrmgr.CKTPublic, waddrmgr.CKTPrivate, waddrmgr.CKTScript}

	rapid.Check(t, func(t *rapid.T) {
		c := g.Begin()
		defer c.End()

		unlock := func(pass []byte) error {
			return walletdb.View(mgrDB, func(tx walletdb.ReadTx) error {
				return mgr.Unlock(tx.ReadBucket(nsKey), pass)
			})
		}
		fail := func(format string, a ...interface{}) {
			t.Fatalf("C17 VIOLATED: %s, case:\n%s", fmt.Sprintf(format, a...), c.Text())
		}
		// model of the lock state
		locked := mgr.IsLocked()
		epoch := 0
		doUnlock := func() {
			if err := unlock(privPass); err != nil {
				fail("Unlock with the private passphrase failed: %v", err)
			}
			locked = false
			if mgr.IsLocked() {
				fail("manager reports locked after a successful Unlock")
			}
		}
		doLock := func() {
			if locked {
				return
			}
			if err := mgr.Lock(); err != nil {
				fail("Lock of an unlocked manager failed: %v", err)
			}
			locked = true
			epoch++
		}

		var store []sealed
		encrypt := func(kt waddrmgr.CryptoKeyType, pt []byte) {
			ct, err := mgr.Encrypt(kt, pt)
			c.Logf("encrypt %s len=%d locked=%v -> err=%v", ktName(kt), len(pt), locked, err)
			if needsUnlock(kt) && locked {
				c.Class("locked-refusal")
				if err == nil || len(ct) != 0 {
					fail("Encrypt(%s) while locked returned err=%v and %d bytes", ktName(kt), err, len(ct))
				}
				if !waddrmgr.IsError(err, waddrmgr.ErrLocked) {
					fail("Encrypt(%s) while locked failed with %v, not ErrLocked", ktName(kt), err)
				}
				return
			}
			if err != nil {
				fail("Encrypt(%s, %s) failed: %v", ktName(kt), hx(pt), err)
			}
			store = append(store, sealed{kt, pt, ct, epoch})
		}

		// prologue: one ciphertext under each key type
		if locked {
			doUnlock()
		}
		for _, kt := range keyTypes {
			pt, _ := drawPlaintext(t, "pro")
			encrypt(kt, pt)
		}
		// observation (recorded, never a failure): what key seals CKTScript data?
		var zeroKey snacl.CryptoKey
		if out, err := zeroKey.Decrypt(store[2].ct); err == nil && bytes.Equal(out, store[2].pt) {
			g.Note("observation: Manager.Encrypt(CKTScript) output opens under the all-zero snacl.CryptoKey while the manager is unlocked (cryptoKeyScript is not loaded by Unlock on this tree)")
			c.Class("script-key-is-zero")
		}

		nOps := rapid.IntRange(8, 24).Draw(t, "nops")
		for i := 0; i < nOps; i++ {
			op := rapid.SampledFrom([]string{"enc", "dec", "dec", "dec", "dec", "tamper", "tamper", "lock", "unlock", "unlock", "unlock-wrong", "reopen", "change-pub", "change-priv", "unlock-with-public"}).Draw(t, "op")
			switch op {
			case "enc":
				kt := rapid.SampledFrom(keyTypes).Draw(t, "kt")
				pt, _ := drawPlaintext(t, "pt")
				encrypt(kt, pt)

			case "dec", "tamper":
				s := store[rapid.IntRange(0, len(store)-1).Draw(t, "which")]
				kt := rapid.SampledFrom(keyTypes).Draw(t, "kt")
				in := s.ct
				desc := "untouched"
				if op == "tamper" {
					in = append([]byte(nil), s.ct...)
					switch rapid.SampledFrom([]string{"bit", "truncate", "append"}).Draw(t, "how") {
					case "bit":
						b := drawPos(t, len(in), "byte")*8 + rapid.IntRange(0, 7).Draw(t, "bit")
						in[b/8] ^= 1 << uint(b%8)
						desc = fmt.Sprintf("bit %d of byte %d (%s) flipped", b%8, b/8, region(b/8))
						c.Class("tamper-" + region(b/8))
					case "truncate":
						n := rapid.IntRange(0, len(in)-1).Draw(t, "n")
						in = in[:n]
						desc = fmt.Sprintf("truncated to %d bytes", n)
						c.Class("tamper-truncate")
					default:
						in = append(in, rapid.SliceOfN(rapid.Byte(), 1, 8).Draw(t, "ext")...)
						desc = "extended"
						c.Class("tamper-extend")
					}
				}
				out, err := mgr.Decrypt(kt, in)
				c.Logf("decrypt %s of a %s ciphertext (%s, len=%d, made %d lock events ago) locked=%v -> err=%v",
					ktName(kt), ktName(s.kt), desc, len(s.pt), epoch-s.born, locked, err)
				switch {
				case needsUnlock(kt) && locked:
					c.Class("locked-refusal")
					if err == nil || len(out) != 0 {
						fail("Decrypt(%s) while locked returned err=%v and data %s", ktName(kt), err, hx(out))
					}
					if !waddrmgr.IsError(err, waddrmgr.ErrLocked) {
						fail("Decrypt(%s) while locked failed with %v, not ErrLocked", ktName(kt), err)
					}
				case op == "tamper":
					if err == nil || len(out) != 0 {
						fail("Decrypt(%s) of a %s ciphertext, %s: err=%v data=%s\nciphertext=%s\ntampered=%s",
							ktName(kt), ktName(s.kt), desc, err, hx(out), hx(s.ct), hx(in))
					}
				case kt == s.kt:
					c.Class("roundtrip-" + ktName(kt))
					if epoch > s.born {
						c.Class("roundtrip-after-relock-" + ktName(kt))
					}
					if err != nil || !bytes.Equal(out, s.pt) {
						fail("Decrypt(%s, Encrypt(%s, x)) gave err=%v data=%s, x=%s ciphertext=%s (sealed %d lock/reopen events earlier)",
							ktName(kt), ktName(kt), err, hx(out), hx(s.pt), hx(s.ct), epoch-s.born)
					}
				case kt != waddrmgr.CKTScript && s.kt != waddrmgr.CKTScript:
					c.Class("cross-public-private")
					if err == nil || len(out) != 0 {
						fail("Decrypt(%s, Encrypt(%s, x)) did not fail: err=%v data=%s, x=%s ciphertext=%s",
							ktName(kt), ktName(s.kt), err, hx(out), hx(s.pt), hx(s.ct))
					}
				default:
					// one side is the script key: its state on this tree is an
					// observation of its own, see the note above; record only.
					c.Class("cross-with-script")
					if err == nil {
						g.Note(fmt.Sprintf("observation: Decrypt(%s) opened a ciphertext made with Encrypt(%s)", ktName(kt), ktName(s.kt)))
						c.Class("cross-with-script-OPENED")
					}
				}

			case "change-pub", "change-priv":
				// the keys stay bound to the right passphrases across passphrase changes
				private := op == "change-priv"
				old := pubPass
				prefix := "pub-"
				if private {
					old, prefix = privPass, "priv-"
				}
				np := []byte(prefix + rapid.StringMatching(`[a-zA-Z0-9]{4,12}`).Draw(t, "newPass"))
				err := walletdb.Update(mgrDB, func(tx walletdb.ReadWriteTx) error {
					return mgr.ChangePassphrase(tx.ReadWriteBucket(nsKey), old, np, private, &waddrmgr.FastScryptOptions)
				})
				c.Logf("%s -> %q (locked=%v): %v", op, np, locked, err)
				if err != nil {
					fail("ChangePassphrase(private=%v) with the right old passphrase failed: %v", private, err)
				}
				if private {
					privPass = np
				} else {
					pubPass = np
				}
				if mgr.IsLocked() != locked {
					fail("ChangePassphrase changed the lock state to locked=%v", mgr.IsLocked())
				}
				c.Class("passphrase-changed")

			case "unlock-with-public":
				// the public passphrase is not the private one: it must never unlock
				err := unlock(pubPass)
				c.Logf("unlock with the PUBLIC passphrase (locked=%v) -> %v", locked, err)
				if err == nil {
					fail("Unlock accepted the public passphrase %q (private is %q)", pubPass, privPass)
				}
				if !mgr.IsLocked() {
					fail("manager is not locked after a failed Unlock")
				}
				if !locked {
					epoch++
				}
				locked = true
				c.Class("unlock-with-public-refused")

			case "lock":
				c.Logf("lock (locked=%v)", locked)
				doLock()

			case "unlock":
				c.Logf("unlock (locked=%v)", locked)
				doUnlock()

			case "unlock-wrong":
				nm := nearMisses(t, privPass)
				w := rapid.SampledFrom(nm).Draw(t, "wrong")
				if hmacEquivalent(w.pass, privPass) {
					c.Class("unlock-hmac-equivalent")
					if known.Open(findingHMAC) {
						g.KnownHit(findingHMAC)
						continue
					}
				}
				err := unlock(w.pass)
				c.Logf("unlock with near miss %s (locked=%v) -> %v", w.kind, locked, err)
				c.Class("unlock-near-miss")
				if err == nil {
					fail("Unlock accepted the near-miss passphrase (%s) %q", w.kind, w.pass)
				}
				if !waddrmgr.IsError(err, waddrmgr.ErrWrongPassphrase) {
					fail("Unlock with near-miss passphrase (%s) failed with %v, not ErrWrongPassphrase", w.kind, err)
				}
				// documented: any failure leaves the manager locked
				if !mgr.IsLocked() {
					fail("manager is not locked after a failed Unlock")
				}
				if !locked {
					epoch++
				}
				locked = true

			case "reopen":
				// restart: the keys are re-derived from the stored parameters
				c.Logf("reopen")
				c.Class("reopen")
				mgr.Close()
				err := walletdb.View(mgrDB, func(tx walletdb.ReadTx) error {
					// a near miss of the public passphrase must not open it
					nm := nearMisses(t, pubPass)
					w := rapid.SampledFrom(nm).Draw(t, "wrongpub")
					if hmacEquivalent(w.pass, pubPass) && known.Open(findingHMAC) {
						g.KnownHit(findingHMAC)
						w = nearMiss{"empty", []byte{}}
					}
					if m2, err := waddrmgr.Open(tx.ReadBucket(nsKey), w.pass, &chaincfg.MainNetParams); err == nil {
						m2.Close()
						return fmt.Errorf("Open accepted the near-miss public passphrase (%s) %q", w.kind, w.pass)
					} else if !waddrmgr.IsError(err, waddrmgr.ErrWrongPassphrase) {
						return fmt.Errorf("Open with a near-miss public passphrase (%s) failed with %v, not ErrWrongPassphrase", w.kind, err)
					}
					m2, err := waddrmgr.Open(tx.ReadBucket(nsKey), pubPass, &chaincfg.MainNetParams)
					if err != nil {
						return fmt.Errorf("Open with the public passphrase failed: %v", err)
					}
					mgr = m2
					return nil
				})
				if err != nil {
					// keep a usable manager for the following cases (shrinking goes on)
					if mgr2err := walletdb.View(mgrDB, func(tx walletdb.ReadTx) error {
						m2, e := waddrmgr.Open(tx.ReadBucket(nsKey), pubPass, &chaincfg.MainNetParams)
						if e == nil {
							mgr = m2
						}
						return e
					}); mgr2err != nil {
						t.Fatalf("INCONCLUSIVE: cannot reopen the address manager: %v (after: %v)", mgr2err, err)
					}
					fail("%v", err)
				}
				if !locked {
					epoch++
				}
				locked = true
				if !mgr.IsLocked() {
					fail("a freshly opened manager is not locked")
				}
			}
		}

		// epilogue: after a final unlock every stored ciphertext opens under its own type
		doUnlock()
		relock := false
		for _, s := range store {
			out, err := mgr.Decrypt(s.kt, s.ct)
			if err != nil || !bytes.Equal(out, s.pt) {
				fail("final Decrypt(%s) of its own ciphertext gave err=%v data=%s, x=%s ciphertext=%s (sealed %d lock/reopen events earlier)",
					ktName(s.kt), err, hx(out), hx(s.pt), hx(s.ct), epoch-s.born)
			}
			if epoch > s.born && s.kt != waddrmgr.CKTPublic {
				relock = true
			}
		}
		if relock {
			c.Class("private-ciphertext-survives-relock")
		}
		if c.Has("cross-public-private") && c.Has("locked-refusal") {
			c.NonTrivial()
		}
	})
}

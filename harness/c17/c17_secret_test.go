package c17

import (
	"bytes"
	"crypto/sha256"
	"encoding/binary"
	"errors"
	"fmt"
	"testing"
	"unicode"

	"github.com/btcsuite/btcwallet/snacl"
	"pgregory.net/rapid"

	"verifharness/internal/evid"
	"verifharness/internal/known"
)

// Finding F8 (see known_findings.json): scrypt feeds the passphrase to
// PBKDF2-HMAC-SHA256 as the HMAC key, and HMAC right-pads keys of up to 64
// bytes with zero bytes (longer keys are replaced by their SHA-256). Two
// different passphrases with the same padded key therefore derive the same
// key: P and P||0x00 are both accepted. hmacEquivalent is the exact predicate.
const findingHMAC = "F8"

func hmacKey(p []byte) (k [64]byte) {
	if len(p) > 64 {
		h := sha256.Sum256(p)
		copy(k[:], h[:])
	} else {
		copy(k[:], p)
	}
	return k
}

func hmacEquivalent(a, b []byte) bool { return !bytes.Equal(a, b) && hmacKey(a) == hmacKey(b) }

type nearMiss struct {
	kind string
	pass []byte
}

// nearMisses builds passphrases that differ minimally from pass.
func nearMisses(t *rapid.T, pass []byte) []nearMiss {
	var out []nearMiss
	add := func(kind string, p []byte) {
		if !bytes.Equal(p, pass) {
			out = append(out, nearMiss{kind, p})
		}
	}
	cp := func() []byte { return append([]byte(nil), pass...) }
	if len(pass) > 0 {
		// one bit flipped
		bit := rapid.IntRange(0, len(pass)*8-1).Draw(t, "nm-bit")
		p := cp()
		p[bit/8] ^= 1 << (bit % 8)
		add("bitflip", p)
		// one byte dropped (first, last, drawn)
		add("drop-last", cp()[:len(pass)-1])
		add("drop-first", cp()[1:])
		pos := rapid.IntRange(0, len(pass)-1).Draw(t, "nm-drop")
		add("drop-mid", append(cp()[:pos], pass[pos+1:]...))
		// empty
		add("empty", []byte{})
		// case change of one letter
		var letters []int
		for i, b := range pass {
			if b < 0x80 && unicode.IsLetter(rune(b)) {
				letters = append(letters, i)
			}
		}
		if len(letters) > 0 {
			i := rapid.SampledFrom(letters).Draw(t, "nm-case")
			p := cp()
			p[i] ^= 0x20
			add("case", p)
		}
		// two neighbouring bytes exchanged
		if len(pass) >= 2 {
			i := rapid.IntRange(0, len(pass)-2).Draw(t, "nm-swap")
			p := cp()
			p[i], p[i+1] = p[i+1], p[i]
			add("transpose", p)
		}
		// doubled
		add("doubled", append(cp(), pass...))
	}
	// one byte added (drawn position and value; trailing NUL, space, newline)
	pos := rapid.IntRange(0, len(pass)).Draw(t, "nm-addpos")
	b := rapid.Byte().Draw(t, "nm-addbyte")
	add("add-mid", append(append(cp()[:pos:pos], b), pass[pos:]...))
	add("add-nul", append(cp(), 0)) // HMAC-key-equivalent to pass when len(pass) < 64: finding F8
	add("add-nul-front", append([]byte{0}, pass...))
	add("add-nonzero", append(cp(), byte(rapid.IntRange(1, 255).Draw(t, "nm-nz"))))
	if len(pass) > 0 {
		mid := rapid.IntRange(0, len(pass)-1).Draw(t, "nm-nulpos")
		add("add-nul-mid", append(append(cp()[:mid:mid], 0), pass[mid:]...))
	}
	add("add-space", append(cp(), ' '))
	add("add-newline", append(cp(), '\n'))
	return out
}

func TestC17SecretKey(t *testing.T) {
	g := evid.G("TestC17SecretKey")
	rapid.Check(t, func(t *rapid.T) {
		c := g.Begin()
		defer c.End()

		pass, passKind := drawPassphrase(t)
		// N = 2..1024; the small ones twice as likely (cost, not coverage, grows with N)
		N := 1 << uint(rapid.SampledFrom([]int{1, 1, 2, 2, 3, 3, 4, 4, 5, 5, 6, 7, 8, 9, 10}).Draw(t, "logN"))
		r := rapid.IntRange(1, 8).Draw(t, "r")
		p := rapid.IntRange(1, 2).Draw(t, "p")
		pt, _ := drawPlaintext(t, "pt")
		exhaustEvery := 10
		if thorough {
			exhaustEvery = 5
		}
		exhaustive := rapid.IntRange(0, exhaustEvery-1).Draw(t, "exhaustive") == 0 && N*r*p <= 512
		c.Logf("passphrase kind=%s len=%d %s", passKind, len(pass), hx(pass))
		c.Logf("scrypt N=%d r=%d p=%d exhaustive=%v plaintext len=%d", N, r, p, exhaustive, len(pt))
		c.Class("pass-" + passKind)
		if N <= 16 {
			c.Class("N<=16")
		} else if N >= 512 {
			c.Class("N>=512")
		}

		passArg := append([]byte(nil), pass...)
		sk, err := snacl.NewSecretKey(&passArg, N, r, p)
		if err != nil {
			t.Fatalf("C17 VIOLATED: NewSecretKey(N=%d,r=%d,p=%d) failed: %v, case:\n%s", N, r, p, err, c.Text())
		}
		if !bytes.Equal(passArg, pass) {
			t.Fatalf("C17 VIOLATED: NewSecretKey modified the passphrase, case:\n%s", c.Text())
		}
		ct, err := sk.Encrypt(pt)
		if err != nil {
			t.Fatalf("C17 VIOLATED: SecretKey.Encrypt failed: %v, case:\n%s", err, c.Text())
		}
		m := sk.Marshal()
		origKey := *sk.Key
		ctx := func() string {
			return fmt.Sprintf("marshalled=%x\nciphertext=%s\ncase:\n%s", m, hx(ct), c.Text())
		}
		// the offsets used below must be the ones Marshal uses; otherwise the
		// harness (not the code) is out of date.
		if len(m) != mLen || !bytes.Equal(m[mSalt:mSalt+32], sk.Parameters.Salt[:]) ||
			!bytes.Equal(m[mDigest:mDigest+32], sk.Parameters.Digest[:]) ||
			binary.LittleEndian.Uint64(m[mN:]) != uint64(N) || binary.LittleEndian.Uint64(m[mR:]) != uint64(r) ||
			binary.LittleEndian.Uint64(m[mP:]) != uint64(p) {
			// A Marshal that does not store what NewSecretKey produced cannot round-trip;
			// decide that by the round trip below instead of by layout.
			var probe snacl.SecretKey
			if err := probe.Unmarshal(m); err == nil && probe.Parameters == sk.Parameters {
				t.Fatalf("INCONCLUSIVE: Marshal layout differs from salt|digest|N|R|P, harness offsets are stale\n%s", ctx())
			}
			t.Fatalf("C17 VIOLATED: stored parameters do not round-trip (Marshal/Unmarshal disagree with the key's parameters)\n%s", ctx())
		}

		// "restart": a fresh SecretKey from the stored form
		load := func(enc []byte) *snacl.SecretKey {
			var s snacl.SecretKey
			if err := s.Unmarshal(enc); err != nil {
				t.Fatalf("C17 VIOLATED: Unmarshal of a %d-byte encoding failed: %v\nencoding=%x\n%s", len(enc), err, enc, ctx())
			}
			return &s
		}
		derive := func(s *snacl.SecretKey, pw []byte) error {
			arg := append([]byte(nil), pw...)
			err := s.DeriveKey(&arg)
			if !bytes.Equal(arg, pw) {
				t.Fatalf("C17 VIOLATED: DeriveKey modified the passphrase\n%s", ctx())
			}
			return err
		}
		sk2 := load(m)
		if sk2.Parameters != sk.Parameters {
			t.Fatalf("C17 VIOLATED: parameters after Marshal->Unmarshal differ: %+v vs %+v\n%s", sk2.Parameters, sk.Parameters, ctx())
		}
		if err := derive(sk2, pass); err != nil {
			t.Fatalf("C17 VIOLATED: DeriveKey with the creating passphrase after Marshal->Unmarshal failed: %v\n%s", err, ctx())
		}
		if *sk2.Key != origKey {
			t.Fatalf("C17 VIOLATED: the re-derived key differs from the original key\n%s", ctx())
		}
		out, err := sk2.Decrypt(ct)
		if err != nil || !bytes.Equal(out, pt) {
			t.Fatalf("C17 VIOLATED: re-derived key does not open a ciphertext of the original (err=%v, got %s)\n%s", err, hx(out), ctx())
		}
		ct2, err := sk2.Encrypt(pt)
		if err != nil {
			t.Fatalf("C17 VIOLATED: Encrypt with the re-derived key failed: %v\n%s", err, ctx())
		}
		if out, err := sk.Decrypt(ct2); err != nil || !bytes.Equal(out, pt) {
			t.Fatalf("C17 VIOLATED: original key does not open a ciphertext of the re-derived key (err=%v)\n%s", err, ctx())
		}
		if !bytes.Equal(sk2.Marshal(), m) {
			t.Fatalf("C17 VIOLATED: Marshal after Unmarshal+DeriveKey differs from the stored form: %x\n%s", sk2.Marshal(), ctx())
		}
		// Zero, then derive again (the documented use of DeriveKey)
		sk2.Zero()
		if err := derive(sk2, pass); err != nil || *sk2.Key != origKey {
			t.Fatalf("C17 VIOLATED: DeriveKey after Zero failed or gave another key (err=%v)\n%s", err, ctx())
		}

		// a fresh key that is wiped before it was ever stored: the creating
		// passphrase brings the key back, and what is stored after that accepts
		// the passphrase too (the order of Zero and the first Marshal is the caller's)
		if rapid.IntRange(0, 2).Draw(t, "freshKeyZeroedFirst") == 0 {
			c.Class("fresh-key-zeroed-before-first-marshal")
			arg := append([]byte(nil), pass...)
			skF, err := snacl.NewSecretKey(&arg, N, r, p)
			if err != nil {
				t.Fatalf("C17 VIOLATED: second NewSecretKey failed: %v\n%s", err, ctx())
			}
			fresh := *skF.Key
			skF.Zero()
			if rapid.Bool().Draw(t, "marshalWhileZeroed") {
				skF = load(skF.Marshal())
			}
			if err := derive(skF, pass); err != nil || *skF.Key != fresh {
				t.Fatalf("C17 VIOLATED: a new key wiped before its first Marshal does not come back with the creating passphrase (err=%v)\n%s", err, ctx())
			}
			if err := derive(load(skF.Marshal()), pass); err != nil {
				t.Fatalf("C17 VIOLATED: the stored form of a key that was wiped and re-derived rejects the creating passphrase: %v\n%s", err, ctx())
			}
		}

		// near misses are rejected, the right passphrase still accepted afterwards
		sk3 := load(m)
		nms := nearMisses(t, pass)
		for _, nm := range nms {
			c.Class("nm-" + nm.kind)
			c.Logf("near miss %s: %s", nm.kind, hx(nm.pass))
			if hmacEquivalent(nm.pass, pass) {
				c.Class("nm-hmac-equivalent")
				if known.Open(findingHMAC) {
					g.KnownHit(findingHMAC)
					continue
				}
			}
			err := derive(sk3, nm.pass)
			if err == nil {
				t.Fatalf("C17 VIOLATED: DeriveKey accepted near-miss passphrase (%s) %s\n%s", nm.kind, hx(nm.pass), ctx())
			}
			if !errors.Is(err, snacl.ErrInvalidPassword) {
				t.Fatalf("C17 VIOLATED: DeriveKey with near-miss passphrase (%s) %s failed with %q, not ErrInvalidPassword\n%s", nm.kind, hx(nm.pass), err, ctx())
			}
		}
		g.Count("near-misses", int64(len(nms)))
		if err := derive(sk3, pass); err != nil {
			t.Fatalf("C17 VIOLATED: DeriveKey rejected the creating passphrase after rejected attempts: %v\n%s", err, ctx())
		}

		// bit flips inside the stored salt and digest: the right passphrase must be rejected
		var positions []int
		if exhaustive {
			c.Class("flips-exhaustive")
			for b := 0; b < 64*8; b++ {
				positions = append(positions, b)
			}
		} else {
			c.Class("flips-sampled")
			ns := 8
			for i := 0; i < ns; i++ {
				positions = append(positions, rapid.IntRange(0, 32*8-1).Draw(t, "saltbit"))
				positions = append(positions, 32*8+rapid.IntRange(0, 32*8-1).Draw(t, "digestbit"))
			}
			// first and last bit of the digest, always
			positions = append(positions, 32*8, 64*8-1, 63*8)
		}
		mod := append([]byte(nil), m...)
		var nSalt, nDigest int64
		for _, b := range positions {
			mod[b/8] ^= 1 << uint(b%8)
			s := load(mod)
			err := derive(s, pass)
			where := "salt"
			if b/8 >= mDigest {
				where = "digest"
				nDigest++
			} else {
				nSalt++
			}
			if err == nil {
				t.Fatalf("C17 VIOLATED: bit %d of byte %d (%s) of the stored parameters flipped, DeriveKey still accepts the passphrase\ntampered=%x\n%s",
					b%8, b/8, where, mod, ctx())
			}
			if !errors.Is(err, snacl.ErrInvalidPassword) {
				t.Fatalf("C17 VIOLATED: bit %d of byte %d (%s) flipped: DeriveKey failed with %q, not ErrInvalidPassword\n%s", b%8, b/8, where, err, ctx())
			}
			mod[b/8] ^= 1 << uint(b%8)
		}
		g.Count("paramflips-salt", nSalt)
		g.Count("paramflips-digest", nDigest)

		// another (small, valid) N, r or p in the stored form: a different key, so rejected
		for _, f := range []struct {
			name string
			off  int
			cur  int
			alt  []int
		}{
			{"N", mN, N, []int{2, 4, 8, 16, 32, 64, 128, 256, 512, 1024}},
			{"r", mR, r, []int{1, 2, 3, 4, 5, 6, 7, 8}},
			{"p", mP, p, []int{1, 2}},
		} {
			v := rapid.SampledFrom(f.alt).Draw(t, "alt"+f.name)
			if v == f.cur {
				continue
			}
			mod := append([]byte(nil), m...)
			binary.LittleEndian.PutUint64(mod[f.off:], uint64(v))
			s := load(mod)
			err := derive(s, pass)
			c.Class("param-swap-" + f.name)
			if err == nil {
				t.Fatalf("C17 VIOLATED: stored %s changed from %d to %d, DeriveKey still accepts the passphrase\n%s", f.name, f.cur, v, ctx())
			}
			if !errors.Is(err, snacl.ErrInvalidPassword) {
				t.Fatalf("C17 VIOLATED: stored %s changed from %d to %d: DeriveKey failed with %q, not ErrInvalidPassword\n%s", f.name, f.cur, v, err, ctx())
			}
		}

		// every wrong length of the encoding
		var nLen int64
		tryLen := func(enc []byte) {
			var s snacl.SecretKey
			err := s.Unmarshal(enc)
			nLen++
			if err == nil {
				t.Fatalf("C17 VIOLATED: Unmarshal accepted an encoding of %d bytes (right length %d)\n%s", len(enc), mLen, ctx())
			}
			if !errors.Is(err, snacl.ErrMalformed) {
				t.Fatalf("C17 VIOLATED: Unmarshal of %d bytes failed with %q, not ErrMalformed\n%s", len(enc), err, ctx())
			}
		}
		for n := 0; n < len(m); n++ {
			tryLen(m[:n])
			if n > 0 {
				tryLen(m[n:])
			}
		}
		tryLen(nil)
		ext := rapid.SliceOfN(rapid.Byte(), 1, 100).Draw(t, "ext")
		for n := 1; n <= len(ext); n++ {
			tryLen(append(append([]byte(nil), m...), ext[:n]...))
		}
		tryLen(append(append([]byte(nil), m...), m...))
		g.Count("wrong-lengths", nLen)

		if len(nms) > 0 {
			c.NonTrivial()
		}
	})
}

// C12 - a leased output stays out of reach until released or expired.
package c12

import (
	"os"
	"testing"

	"github.com/btcsuite/btcwallet/walletdb"
	"pgregory.net/rapid"

	"verifharness/internal/evid"
	"verifharness/internal/known"
	"verifharness/internal/txsim"
)

func cfg() txsim.Config {
	max, maxTx := 40, 10
	if os.Getenv("VERIF_TIER") == "thorough" {
		max, maxTx = 100, 14
	}
	return txsim.Config{
		Prop: "C12",
		Weights: map[string]int{"announce": 5, "mine": 5, "advance": 1, "rollback": 2, "abandon": 1,
			"redeliver": 1, "reopen": 2, "lease": 6, "release": 3, "clock": 4, "sweep": 2},
		MinSteps: 6, MaxSteps: max,
		Universe: txsim.UniverseOpts{MinTx: 3, MaxTx: maxTx},
		Leases:   true,
		KnownF4:  known.Open("F4"),
	}
}

func TestC12Leases(t *testing.T) {
	g := evid.G("TestC12Leases")
	rapid.Check(t, func(t *rapid.T) {
		c := g.Begin()
		defer c.End()
		s := txsim.NewSim(t, cfg(), c)
		defer s.Close()
		extra := map[string]func(*rapid.T) bool{
			"lease": s.ActLease, "release": s.ActRelease, "clock": s.ActClock, "sweep": s.ActSweep,
		}
		confirmsWithLease, rollbacksWithLease := 0, 0
		lastConfirm, lastRollback := 0, 0
		s.Run(t, extra, func() {
			em := int32(rapid.IntRange(0, 120).Draw(t, "minconf"))
			s.View(func(ns walletdb.ReadBucket) {
				s.CheckC12(ns, "read-tx")
				// exclusion from balance and spendable set is the C01 oracle with leases
				s.CheckC01(ns, "read-tx", em, 5)
			})
			active := 0
			for _, l := range s.L.Leases {
				if s.Clock.Now().Before(l.Expiry) {
					active++
				}
			}
			if active > 0 && s.NConfirm > lastConfirm {
				confirmsWithLease++
			}
			if active > 0 && s.NRollback > lastRollback {
				rollbacksWithLease++
			}
			lastConfirm, lastRollback = s.NConfirm, s.NRollback
		})
		if confirmsWithLease > 0 {
			c.Class("confirmation-while-leased")
		}
		if rollbacksWithLease > 0 {
			c.Class("reorg-while-leased")
		}
		if s.NReopen > 0 && s.NLease > 0 {
			c.Class("reopen-with-leases")
		}
		if c.Has("lease-coexists-with-unconfirmed-spend") || confirmsWithLease > 0 || rollbacksWithLease > 0 || c.Has("clock-crossed-expiry") {
			c.NonTrivial()
		}
	})
}

// C10 - a failed database write never leaves a half-applied or silently lost
// change: fault enumeration over every mutating call of one operation.
package c10

import (
	"fmt"
	"os"
	"testing"
	"verifharness/internal/watchdog"

	"pgregory.net/rapid"

	"verifharness/internal/evid"
	"verifharness/internal/known"
	"verifharness/internal/mgrsim"
	"verifharness/internal/txsim"
)

func thorough() bool { return os.Getenv("VERIF_TIER") == "thorough" }

func kBucket(k int) string {
	switch {
	case k <= 12:
		return fmt.Sprintf("%02d", k)
	case k <= 20:
		return "13-20"
	case k <= 40:
		return "21-40"
	default:
		return "41+"
	}
}

func storeCfg() txsim.Config {
	max, maxTx := 30, 10
	if thorough() {
		max, maxTx = 60, 14
	}
	return txsim.Config{
		Prop: "C10",
		Weights: map[string]int{"announce": 6, "mine": 6, "advance": 2, "rollback": 3, "abandon": 1,
			"redeliver": 1, "reopen": 1, "lease": 3, "release": 1, "clock": 2, "sweep": 1},
		MinSteps: 3, MaxSteps: max,
		Universe: txsim.UniverseOpts{MinTx: 4, MaxTx: maxTx},
		Leases:   true,
		KnownF4:  known.Open("F4"),
	}
}

// TestC10StoreFaults: at 1-3 points of a C01-like history one enabled mutating
// store operation is drawn and every one of its database writes is failed in
// turn on a fresh copy of the database file.
func TestC10StoreFaults(t *testing.T) {
	g := evid.G("TestC10StoreFaults")
	rapid.Check(t, func(t *rapid.T) {
		var c *evid.Case
		watchdog.Guard(t, "C10", func() string { return caseText(c) }, func() {
			c = g.Begin()
			defer c.End()
			s := txsim.NewSim(t, storeCfg(), c)
			defer s.Close()
			extra := map[string]func(*rapid.T) bool{
				"lease": s.ActLease, "release": s.ActRelease, "clock": s.ActClock, "sweep": s.ActSweep,
			}
			enums, multi := 0, 0
			enumerate := func() {
				// up to three draws to find an operation that writes in this state
				for try := 0; try < 3; try++ {
					op := s.DrawStoreFaultOp(t)
					if op == nil {
						g.Count("draw:kind-without-instance", 1)
						continue
					}
					r := s.EnumerateStoreFaults(op)
					if r.RefErr != nil {
						c.Logf("fault-enum %s [%s]: not enabled (%v)", op.Desc, op.Class, r.RefErr)
						g.Count("reference-run-failed:"+op.Kind, 1)
						continue
					}
					c.Logf("fault-enum %s [%s]: N=%d %v full-effect-successes=%d", op.Desc, op.Class, r.N, r.Log, r.FullEffect)
					if r.N == 0 {
						g.Count("no-writes:"+op.Kind, 1)
						continue
					}
					enums++
					if r.N >= 2 {
						multi++
					}
					g.Count("enumerations", 1)
					g.Count("enumerations:"+op.Kind, 1)
					g.Count("fault-positions", int64(r.Positions))
					g.Count("fault-positions:"+op.Kind, int64(r.Positions))
					g.Count(fmt.Sprintf("N=%02d", r.N), 1)
					g.Count("success-with-failed-write-but-full-effect", int64(r.FullEffect))
					g.Count("fault-not-reached", int64(r.NotReached))
					c.Class("op:" + op.Kind)
					for k := 1; k <= r.N; k++ {
						c.Class(fmt.Sprintf("pos:%s/%s/k=%s", op.Kind, op.Class, kBucket(k)))
					}
					return
				}
			}
			s.Run(t, extra, func() {
				if enums < 2 && rapid.IntRange(0, 9).Draw(t, "enumerateHere") == 0 {
					enumerate()
				}
			})
			enumerate() // always at the end
			if s.L.F4Hits > 0 {
				g.KnownHit("F4")
			}
			if multi > 0 {
				c.NonTrivial()
			}
		})
	})
}

// c10KnownIndexSwallow: putAddrAccountIndex returns nil when its first Put
// fails (success with a partial effect). Tolerated only while listed as open.
const c10KnownIndexSwallow = "F13"

var mgrWeights = map[string]int{
	"next": 8, "extend": 2, "lookup": 3, "derivePath": 1, "markUsed": 2, "lock": 1, "unlock": 5, "changePass": 1,
	"newAccount": 3, "newWOAcct": 3, "rename": 2, "importKey": 2, "importScript": 2, "setSynced": 2, "newScope": 1, "restart": 1,
}

// TestC10ManagerFaults: the same for the address manager; every fault position
// gets its own manager on its own copy of the database file.
func TestC10ManagerFaults(t *testing.T) {
	g := evid.G("TestC10ManagerFaults")
	maxSteps := 14
	if thorough() {
		maxSteps = 30
	}
	opts := mgrsim.FaultOpts{}
	if known.Open(c10KnownIndexSwallow) {
		opts.KnownIndexSwallow = c10KnownIndexSwallow
	}
	rapid.Check(t, func(t *rapid.T) {
		var c *evid.Case
		watchdog.Guard(t, "C10", func() string { return caseText(c) }, func() {
			c = g.Begin()
			defer c.End()
			m := mgrsim.New(t, "C10", c)
			defer m.Close()
			if rapid.Bool().Draw(t, "startUnlocked") {
				m.OpUnlock(t) // half of the histories do not start locked
			}
			// some blocks are connected already in most histories, so that
			// moving the sync point back has hashes to forget
			m.AdvanceSync(rapid.IntRange(0, 4).Draw(t, "blocksConnected"))
			enums, multi := 0, 0
			enumerate := func() {
				for try := 0; try < 3; try++ {
					op := m.DrawFaultOp(t)
					if op == nil {
						g.Count("draw:kind-without-instance", 1)
						continue
					}
					r := m.EnumerateFaults(t, op, opts)
					if r.RefErr != nil {
						c.Logf("fault-enum %s [%s]: reference run failed (%v)", op.Desc, op.Class, r.RefErr)
						g.Count("reference-run-failed:"+op.Kind, 1)
						continue
					}
					c.Logf("fault-enum %s [%s]: N=%d %v full-effect-successes=%d", op.Desc, op.Class, r.N, r.Log, r.FullEffect)
					if r.N == 0 {
						g.Count("no-writes:"+op.Kind, 1)
						continue
					}
					enums++
					if r.N >= 2 {
						multi++
					}
					g.Count("enumerations", 1)
					g.Count("enumerations:"+op.Kind, 1)
					g.Count("fault-positions", int64(r.Positions))
					g.Count("fault-positions:"+op.Kind, int64(r.Positions))
					g.Count(fmt.Sprintf("N=%02d", r.N), 1)
					g.Count("success-with-failed-write-but-full-effect", int64(r.FullEffect))
					g.Count("fault-not-reached", int64(r.NotReached))
					g.Count("unissued-cache-residue-ignored", int64(r.ResidueIgnored))
					for id, n := range r.KnownHits {
						for i := 0; i < n; i++ {
							g.KnownHit(id)
						}
					}
					c.Class("op:" + op.Kind)
					for k := 1; k <= r.N; k++ {
						c.Class(fmt.Sprintf("pos:%s/%s/k=%s", op.Kind, op.Class, kBucket(k)))
					}
					return
				}
			}
			m.Run(t, mgrWeights, 2, maxSteps, 0, func(op string) {
				if enums < 2 && op != "init" && rapid.IntRange(0, 7).Draw(t, "enumerateHere") == 0 {
					enumerate()
				}
			})
			enumerate()
			if multi > 0 {
				c.NonTrivial()
			}
		})
	})
}

// caseText is the history of a case so far (empty before it began).
func caseText(c *evid.Case) string {
	if c == nil {
		return ""
	}
	return c.Text()
}

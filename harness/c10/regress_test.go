package c10

import (
	"os"
	"path/filepath"
	"testing"
	"time"

	"github.com/btcsuite/btcd/btcutil/hdkeychain"
	"github.com/btcsuite/btcd/chaincfg"
	"github.com/btcsuite/btcwallet/waddrmgr"
	"github.com/btcsuite/btcwallet/walletdb"
	_ "github.com/btcsuite/btcwallet/walletdb/bdb"

	"verifharness/internal/mgrsim"
	"verifharness/internal/proxydb"
	"verifharness/internal/txsim"
)

// TestC10RegressF13 replays the minimal case of finding F13: a freshly created
// manager, NextExternalAddresses(account 0, n=1) makes five mutating calls
// (address row, address-to-account index, index bucket, index entry, account
// row); putAddrAccountIndex used to return nil when its first Put (call 2)
// failed, so the request reported success and committed an address that
// AddrAccount and ForEachAccountAddress did not know.
func TestC10RegressF13(t *testing.T) {
	mgrsim.FastScrypt()
	dir, err := os.MkdirTemp(txsim.ScratchDir(), "verif-c10r-")
	if err != nil {
		t.Fatalf("INCONCLUSIVE: mkdtemp: %v", err)
	}
	defer os.RemoveAll(dir)
	params := &chaincfg.RegressionNetParams
	seed := make([]byte, 32)
	seed[0], seed[31] = 0x13, 0xf1
	root, err := hdkeychain.NewMaster(seed, params)
	if err != nil {
		t.Fatalf("INCONCLUSIVE: master key: %v", err)
	}
	nsKey := mgrsim.NSKey
	pub, priv := []byte("pub"), []byte("priv")
	scope := waddrmgr.KeyScopeBIP0044
	for k := 1; k <= 5; k++ {
		raw, err := walletdb.Create("bdb", filepath.Join(dir, "w.db"), true, 10*time.Second, false)
		if err != nil {
			t.Fatalf("INCONCLUSIVE: create db: %v", err)
		}
		db := proxydb.New(raw)
		var mgr *waddrmgr.Manager
		err = walletdb.Update(db, func(tx walletdb.ReadWriteTx) error {
			ns, err := tx.CreateTopLevelBucket(nsKey)
			if err != nil {
				return err
			}
			if err := waddrmgr.Create(ns, root, pub, priv, params, nil, time.Unix(1_600_000_000, 0)); err != nil {
				return err
			}
			mgr, err = waddrmgr.Open(ns, pub, params)
			return err
		})
		if err != nil {
			t.Fatalf("INCONCLUSIVE: create manager: %v", err)
		}
		sm, err := mgr.FetchScopedKeyManager(scope)
		if err != nil {
			t.Fatalf("INCONCLUSIVE: scope: %v", err)
		}
		db.FailAt = k
		var got []waddrmgr.ManagedAddress
		err = walletdb.Update(db, func(tx walletdb.ReadWriteTx) error {
			var err error
			got, err = sm.NextExternalAddresses(tx.ReadWriteBucket(nsKey), 0, 1)
			return err
		})
		db.FailAt = 0
		if db.Injected != 1 {
			t.Fatalf("INCONCLUSIVE: NextExternalAddresses made only %d mutating calls %v, write %d was not reached", db.Mutations, db.MutationLog, k)
		}
		if err == nil {
			// success with a failed write: the address must at least be fully recorded
			verr := walletdb.View(db, func(tx walletdb.ReadTx) error {
				_, _, err := mgr.AddrAccount(tx.ReadBucket(nsKey), got[0].Address())
				return err
			})
			t.Fatalf("C10 VIOLATED: NextExternalAddresses(scope %v, account 0, n=1) on a fresh manager reported success (%v) although its mutating call %d of %v failed; "+
				"AddrAccount of the returned address afterwards: %v", scope, got[0].Address(), k, db.MutationLog, verr)
		}
		// the retried request succeeds and the address is fully recorded
		err = walletdb.Update(db, func(tx walletdb.ReadWriteTx) error {
			ns := tx.ReadWriteBucket(nsKey)
			got, err := sm.NextExternalAddresses(ns, 0, 1)
			if err != nil {
				return err
			}
			_, acct, err := mgr.AddrAccount(ns, got[0].Address())
			if err != nil || acct != 0 {
				t.Fatalf("C10 VIOLATED: after the retry AddrAccount(%v) = %d, %v", got[0].Address(), acct, err)
			}
			return nil
		})
		if err != nil {
			t.Fatalf("C10 VIOLATED: retrying NextExternalAddresses after failed write %d failed: %v", k, err)
		}
		mgr.Close()
		raw.Close()
		os.Remove(filepath.Join(dir, "w.db"))
	}
}

// C05 - locked or wrong passphrase means no private-key access, and memory is wiped.
package c05

import (
	"os"
	"testing"
	"verifharness/internal/watchdog"

	"pgregory.net/rapid"

	"verifharness/internal/evid"
	"verifharness/internal/mgrsim"
)

var weights = map[string]int{
	"next": 5, "extend": 2, "lookup": 3, "derivePath": 4, "deriveBurst": 4, "markUsed": 1, "lock": 6, "unlock": 8, "changePass": 3, "changePassFault": 2,
	"newAccount": 2, "newWOAcct": 1, "invalidate": 1, "importKey": 2, "importScript": 2, "importPubKey": 1, "newScope": 1, "restart": 2,
}

func TestC05LockState(t *testing.T) {
	g := evid.G("TestC05LockState")
	maxSteps := 30
	if os.Getenv("VERIF_TIER") == "thorough" {
		maxSteps = 60
	}
	rapid.Check(t, func(t *rapid.T) {
		watchdog.Case(t, "C05", g, func(c *evid.Case) {
			m := mgrsim.New(t, "C05", c)
			defer m.Close()
			m.CheckWipe = true
			maxPopulated := 0
			m.Run(t, weights, 5, maxSteps, 12, func(op string) {
				m.CheckAllIssued("after " + op)
				m.CheckAccessors("after " + op)
				if !m.Locked && !m.WatchOnly {
					if n := m.CountPopulated(); n > maxPopulated {
						maxPopulated = n
					}
				}
			})
			g.Count("max-populated-cleartext-buffers-sum", int64(maxPopulated))
			for _, k := range []string{"lock", "unlock", "wrong-unlock", "wrong-unlock-while-unlocked", "passphrase-change", "restart", "lock-after-privkey-access",
				"privkey-ok", "privkey-refused", "derive-cache-ok", "derive-cache-refused", "import-refused-locked", "new-account-refused-locked",
				"new-scope-refused-locked", "wipe-checked", "imported-account", "import-key", "import-script"} {
				if m.N[k] > 0 {
					c.Class(k)
				}
			}
			if maxPopulated >= 4 {
				c.Class("wipe-check-saw-populated-buffers")
			}
			if m.N["lock-after-privkey-access"] > 0 && m.N["wrong-unlock"] > 0 && (m.N["passphrase-change"] > 0 || m.N["restart"] > 0) {
				c.NonTrivial()
			}
		})
	})
}

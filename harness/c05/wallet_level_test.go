package c05

import (
	"bytes"
	"fmt"
	"sort"
	"testing"
	"time"

	"github.com/btcsuite/btcd/btcec/v2"
	"github.com/btcsuite/btcd/btcutil"
	"github.com/btcsuite/btcd/btcutil/hdkeychain"
	"github.com/btcsuite/btcd/chaincfg"
	"github.com/btcsuite/btcwallet/waddrmgr"

	"pgregory.net/rapid"

	"verifharness/internal/bip32ref"
	"verifharness/internal/evid"
	"verifharness/internal/walletsim"
	"verifharness/internal/watchdog"
)

// TestC05WalletLevel drives the same statement through the wallet's own
// entry points: while the wallet is locked every call that reveals or uses
// private material (private-key export of one address or of all, derivation by
// path, key import, account creation) fails and returns nothing; while it is
// unlocked the keys returned are the seed's; a wrong passphrase never unlocks
// and the current one always does, also after a passphrase change and after a
// restart. Oracle for the keys: internal/bip32ref from the seed.
func TestC05WalletLevel(t *testing.T) {
	g := evid.G("TestC05WalletLevel")
	rapid.Check(t, func(t *rapid.T) {
		watchdog.Case(t, "C05", g, func(c *evid.Case) { walletLevelCase(t, c, g) })
	})
}

func walletLevelCase(t *rapid.T, c *evid.Case, g *evid.Group) {
	{
		params := &chaincfg.RegressionNetParams
		var seed []byte
		var master *bip32ref.Key
		for {
			seed = rapid.SliceOfN(rapid.Byte(), 32, 32).Draw(t, "seed")
			if mk, err := bip32ref.Master(seed); err == nil {
				master = mk
				break
			}
		}
		f := walletsim.New(t, "C05", params, seed, time.Unix(1_700_000_000, 0), 0)
		defer f.Close()
		f.Text = c.Text
		f.Chain.Extend(nil, time.Unix(1_700_000_000, 0).Add(-50*time.Hour), nil, 0)
		f.Open()
		f.Connect()

		type issued struct {
			addr   btcutil.Address
			scope  waddrmgr.KeyScope
			branch uint32
			index  uint32
			priv   []byte
		}
		acctKey := map[waddrmgr.KeyScope]*bip32ref.Key{}
		kind := map[waddrmgr.KeyScope][2]bip32ref.AddrKind{
			waddrmgr.KeyScopeBIP0044:     {bip32ref.P2PKH, bip32ref.P2PKH},
			waddrmgr.KeyScopeBIP0049Plus: {bip32ref.NestedP2WPKH, bip32ref.P2WPKH},
			waddrmgr.KeyScopeBIP0084:     {bip32ref.P2WPKH, bip32ref.P2WPKH},
			waddrmgr.KeyScopeBIP0086:     {bip32ref.P2TR, bip32ref.P2TR},
		}
		for _, sc := range waddrmgr.DefaultKeyScopes {
			sk, err := bip32ref.DeriveScope(master, bip32ref.Scope{Purpose: sc.Purpose, Coin: sc.Coin})
			if err != nil {
				t.Fatalf("INCONCLUSIVE: oracle: invalid child")
			}
			k0, err := sk.AccountAtCreation(0)
			if err != nil {
				t.Fatalf("INCONCLUSIVE: oracle: invalid child")
			}
			acctKey[sc] = k0.Stored()
		}
		next := map[waddrmgr.KeyScope]*[2]uint32{}
		var all []*issued
		locked := true
		privPass := append([]byte(nil), f.PrivPass...)
		fail := func(format string, a ...interface{}) {
			f.Violation(format, a...)
		}
		isLockedErr := func(err error) bool {
			return err != nil && (waddrmgr.IsError(err, waddrmgr.ErrLocked) || bytes.Contains([]byte(err.Error()), []byte("locked")))
		}
		pad := func(b []byte) []byte {
			out := make([]byte, 32)
			copy(out[32-len(b):], b)
			return out
		}
		// every private-material entry point, in the current lock state
		accessors := func(where string) {
			if len(all) == 0 {
				return
			}
			is := all[rapid.IntRange(0, len(all)-1).Draw(t, "which")]
			want := pad(is.priv)
			// single export
			wif, err := f.W.DumpWIFPrivateKey(is.addr)
			pk, err2 := f.W.PrivKeyForAddress(is.addr)
			path := waddrmgr.DerivationPath{InternalAccount: 0, Account: hdkeychain.HardenedKeyStart, Branch: is.branch, Index: is.index}
			imported := is.branch == ^uint32(0)
			if imported {
				// imported keys have no derivation path: ask for an issued one instead
				path.Branch, path.Index = 0, 0
			}
			dk, err3 := f.W.DeriveFromKeyPath(is.scope, path)
			if locked {
				if err == nil || wif != "" {
					fail("[%s] DumpWIFPrivateKey(%s) on a locked wallet returned %q, %v", where, is.addr, wif, err)
				}
				if err2 == nil || pk != nil {
					fail("[%s] PrivKeyForAddress(%s) on a locked wallet returned a key (err=%v)", where, is.addr, err2)
				}
				if err3 == nil || dk != nil {
					fail("[%s] DeriveFromKeyPath(%v %d/%d) on a locked wallet returned a key (err=%v)", where, is.scope, is.branch, is.index, err3)
				}
				if !isLockedErr(err) || !isLockedErr(err2) {
					fail("[%s] private-key export on a locked wallet failed with %v / %v, expected a locked error", where, err, err2)
				}
				if keys, err := f.W.DumpPrivKeys(); err == nil || len(keys) != 0 {
					fail("[%s] DumpPrivKeys on a locked wallet returned %d keys, %v", where, len(keys), err)
				}
				c.Class("accessors-while-locked")
				return
			}
			if err != nil || err2 != nil || err3 != nil {
				fail("[%s] private-key access on an unlocked wallet failed for %s: DumpWIFPrivateKey %v, PrivKeyForAddress %v, DeriveFromKeyPath %v", where, is.addr, err, err2, err3)
			}
			w, derr := btcutil.DecodeWIF(wif)
			if derr != nil {
				fail("[%s] DumpWIFPrivateKey(%s) returned an undecodable string: %v", where, is.addr, derr)
			}
			for name, got := range map[string][]byte{"DumpWIFPrivateKey": w.PrivKey.Serialize(), "PrivKeyForAddress": pk.Serialize(), "DeriveFromKeyPath": dk.Serialize()} {
				if imported && name == "DeriveFromKeyPath" {
					continue
				}
				if !bytes.Equal(got, want) {
					fail("[%s] %s for %s (%v %d/%d) is not the seed's private key", where, name, is.addr, is.scope, is.branch, is.index)
				}
			}
			keys, err := f.W.DumpPrivKeys()
			if err != nil {
				fail("[%s] DumpPrivKeys on an unlocked wallet failed: %v", where, err)
			}
			var gotAll, wantAll []string
			for _, k := range keys {
				w, derr := btcutil.DecodeWIF(k)
				if derr != nil {
					fail("[%s] DumpPrivKeys returned an undecodable string: %v", where, derr)
				}
				gotAll = append(gotAll, fmt.Sprintf("%x", w.PrivKey.Serialize()))
			}
			for _, x := range all {
				wantAll = append(wantAll, fmt.Sprintf("%x", pad(x.priv)))
			}
			sort.Strings(gotAll)
			sort.Strings(wantAll)
			if fmt.Sprint(gotAll) != fmt.Sprint(wantAll) {
				fail("[%s] DumpPrivKeys returned %d keys that are not exactly the keys of the %d issued addresses", where, len(gotAll), len(wantAll))
			}
			c.Class("accessors-while-unlocked")
		}

		steps := rapid.IntRange(4, 16).Draw(t, "steps")
		nWrong, nChange := 0, 0
		for i := 0; i < steps; i++ {
			op := rapid.SampledFrom([]string{"unlock", "unlock", "unlock-wrong", "lock", "address", "address", "address", "account", "import", "change-pass", "restart"}).Draw(t, "op")
			switch op {
			case "unlock":
				err := f.W.Unlock(append([]byte(nil), privPass...), nil)
				c.Logf("Unlock(current passphrase) -> %v", err)
				if err != nil {
					fail("Unlock with the current private passphrase %q failed: %v", privPass, err)
				}
				locked = false
			case "unlock-wrong":
				wrong := append(append([]byte(nil), privPass...), byte(rapid.IntRange(1, 255).Draw(t, "extra")))
				if rapid.Bool().Draw(t, "truncated") && len(privPass) > 1 {
					wrong = append([]byte(nil), privPass[:len(privPass)-1]...)
				}
				err := f.W.Unlock(wrong, nil)
				c.Logf("Unlock(%q) -> %v", wrong, err)
				if err == nil {
					fail("Unlock accepted %q, the private passphrase is %q", wrong, privPass)
				}
				// a failed attempt locks the manager
				locked = true
				if !f.W.Locked() {
					fail("the wallet is unlocked after a failed Unlock")
				}
				nWrong++
			case "lock":
				f.W.Lock()
				if !f.W.Locked() {
					fail("the wallet is not locked after Lock")
				}
				c.Logf("Lock")
				locked = true
			case "address":
				sc := waddrmgr.DefaultKeyScopes[rapid.IntRange(0, 3).Draw(t, "scope")]
				br := uint32(rapid.IntRange(0, 1).Draw(t, "branch"))
				var addr btcutil.Address
				var err error
				if br == 0 {
					addr, err = f.W.NewAddress(0, sc)
				} else {
					addr, err = f.W.NewChangeAddress(0, sc)
				}
				if err != nil {
					fail("issuing an address (scope %v branch %d, locked=%v) failed: %v", sc, br, locked, err)
				}
				if next[sc] == nil {
					next[sc] = &[2]uint32{}
				}
				idx := next[sc][br]
				k, kerr := bip32ref.AddrKey(acctKey[sc], br, idx)
				if kerr != nil {
					t.Fatalf("INCONCLUSIVE: oracle: invalid child")
				}
				want, aerr := bip32ref.Address(k.Pub, kind[sc][br], params)
				if aerr != nil {
					t.Fatalf("INCONCLUSIVE: oracle address: %v", aerr)
				}
				if want.EncodeAddress() != addr.EncodeAddress() {
					fail("address %d/%d of scope %v is %s, the seed's child is %s", br, idx, sc, addr, want)
				}
				next[sc][br]++
				all = append(all, &issued{addr: addr, scope: sc, branch: br, index: idx, priv: k.Priv})
				c.Logf("address %v %d/%d locked=%v -> %s", sc, br, idx, locked, addr)
			case "account":
				sc := waddrmgr.DefaultKeyScopes[rapid.IntRange(0, 3).Draw(t, "scope")]
				_, err := f.W.NextAccount(sc, fmt.Sprintf("acct%d", i))
				c.Logf("NextAccount(%v) locked=%v -> %v", sc, locked, err)
				if locked && err == nil {
					fail("NextAccount succeeded on a locked wallet")
				}
				if !locked && err != nil {
					fail("NextAccount on an unlocked wallet failed: %v", err)
				}
				if locked && !isLockedErr(err) {
					fail("NextAccount on a locked wallet failed with %v, expected a locked error", err)
				}
			case "import":
				raw := bytes.Repeat([]byte{byte(i + 1)}, 32)
				raw[0] = 0x21
				priv, _ := btcutilPriv(raw)
				wif, _ := btcutil.NewWIF(priv, params, true)
				sc := waddrmgr.KeyScopeBIP0084
				_, err := f.W.ImportPrivateKey(sc, wif, nil, false)
				c.Logf("ImportPrivateKey locked=%v -> %v", locked, err)
				if locked && err == nil {
					fail("ImportPrivateKey succeeded on a locked wallet")
				}
				if locked && !isLockedErr(err) {
					fail("ImportPrivateKey on a locked wallet failed with %v, expected a locked error", err)
				}
				if !locked {
					if err != nil {
						fail("ImportPrivateKey on an unlocked wallet failed: %v", err)
					}
					a, _ := btcutil.NewAddressWitnessPubKeyHash(btcutil.Hash160(wif.SerializePubKey()), params)
					all = append(all, &issued{addr: a, scope: sc, branch: 0, index: 0, priv: raw})
					// imported keys are exported like any other but cannot be derived by path
					all[len(all)-1].branch = ^uint32(0)
				}
			case "change-pass":
				np := []byte(fmt.Sprintf("new-%d-%s", i, rapid.StringMatching(`[a-z]{1,5}`).Draw(t, "newPass")))
				err := f.W.ChangePrivatePassphrase(append([]byte(nil), privPass...), append([]byte(nil), np...))
				c.Logf("ChangePrivatePassphrase(%q -> %q) locked=%v -> %v", privPass, np, locked, err)
				if err != nil {
					fail("ChangePrivatePassphrase with the current passphrase failed: %v", err)
				}
				old := privPass
				privPass = np
				f.PrivPass = np
				if f.W.Locked() != locked {
					fail("ChangePrivatePassphrase changed the lock state (was locked=%v)", locked)
				}
				if err := f.W.Unlock(append([]byte(nil), old...), nil); err == nil {
					fail("the old private passphrase %q still unlocks after the change", old)
				}
				locked = true
				nChange++
			case "restart":
				f.Stop()
				f.Open()
				f.Connect()
				locked = true
				c.Logf("restart")
				c.Class("restart")
			}
			accessors("after " + op)
		}
		if nWrong > 0 {
			c.Class("wrong-passphrase-attempt")
		}
		if nChange > 0 {
			c.Class("passphrase-change")
		}
		if len(all) > 0 && (nWrong > 0 || nChange > 0) {
			c.NonTrivial()
		}
	}
}

func btcutilPriv(raw []byte) (*btcec.PrivateKey, *btcec.PublicKey) {
	return btcec.PrivKeyFromBytes(raw)
}

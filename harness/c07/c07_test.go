// C07 - authored transactions conserve value and pay at least the requested
// fee rate.
//
// Generator: direct calls of txauthor.NewUnsignedTransaction followed by
// AuthoredTx.AddAllInputScripts with real compressed secp256k1 keys: 0-400
// requested outputs of every standard script type (counts biased to
// 0,1,2,251..254), fee rates 1000..10^6 sat/kvB (biased to rates whose product
// with the estimate sits on a truncation boundary), 0-40 coins of mixed
// P2PKH/P2WPKH/nested-P2WPKH/P2TR whose amounts are aimed at
// outputs + fee +- dust, delivered by copies of the wallet's two input sources,
// and all four change script types.
//
// Oracle: see runCase in oracle_test.go.  The "required fee" of the
// insufficient-funds clause is read as the code base's own requirement (rate x
// worst-case estimate for the delivered input mix, which always includes a
// change output): the weakest reading of the statement, so that the check
// stays silent where the statement is ambiguous.  Coins that would cover the
// fee of the change-less transaction only are counted as an observation class.
package c07

import (
	"os"
	"testing"

	"github.com/btcsuite/btcd/btcutil"
	"github.com/btcsuite/btcd/wire"
	"pgregory.net/rapid"

	"verifharness/internal/evid"
	"verifharness/internal/known"
)

func thorough() bool { return os.Getenv("VERIF_TIER") == "thorough" }

func TestC07Author(t *testing.T) {
	g := evid.G("TestC07Author")
	th := thorough()
	rapid.Check(t, func(t *rapid.T) {
		tc := genCase(rapidChooser{t}, th)
		c := g.Begin()
		defer c.End()
		runCase(t, tc, c, g)
	})
}

// ---- regression inputs of the two confirmed findings --------------------------

func singleCoin(typ int, amt int64) []coin {
	pool()
	var op wire.OutPoint
	copy(op.Hash[:], hashN("coin", 0, 32))
	return []coin{{typ: typ, key: 0, amt: amt, op: op, script: coinKeys[0].scripts[typ]}}
}

func uniformOutputs(kind, n int, value int64) ([]*wire.TxOut, []int) {
	var outs []*wire.TxOut
	var kinds []int
	for i := 0; i < n; i++ {
		outs = append(outs, wire.NewTxOut(value, outScript(kind, i, 0)))
		kinds = append(kinds, kind)
	}
	return outs, kinds
}

// caseF3: one P2TR input, 252 P2TR outputs, P2TR change, 1000 sat/kvB.
func caseF3() *tcase {
	outs, kinds := uniformOutputs(oP2TR, 252, 1000)
	return &tcase{outputs: outs, outKinds: kinds, rate: btcutil.Amount(1000),
		coins: singleCoin(tP2TR, 252*1000+10948+100000), changeType: tP2TR}
}

// caseF6: one 50000-sat P2TR output, 10 sat/vB, P2TR change, a single P2TR coin.
func caseF6(coinValue int64, constant bool) *tcase {
	outs, kinds := uniformOutputs(oP2TR, 1, 50000)
	return &tcase{outputs: outs, outKinds: kinds, rate: btcutil.Amount(10000),
		coins: singleCoin(tP2TR, coinValue), changeType: tP2TR, constant: constant}
}

func TestC07RegressF3(t *testing.T) {
	g := evid.G("TestC07RegressF3")
	c := g.Begin()
	defer c.End()
	oc := runCase(t, caseF3(), c, g)
	if !oc.success {
		t.Fatalf("INCONCLUSIVE: the F3 regression input was not authored successfully:\n%s", c.Text())
	}
	if oc.knownF3 {
		t.Logf("KNOWN-FINDING: property=C07 F3 still present (listed as open): fee %d < required for the real %d vB (estimate %d vB)",
			oc.fee, oc.realVsize, oc.est)
		return
	}
	t.Logf("F3 input: fee %d, estimate %d vB, real %d vB: no shortfall", oc.fee, oc.est, oc.realVsize)
}

func TestC07RegressF6(t *testing.T) {
	g := evid.G("TestC07RegressF6")
	for _, constant := range []bool{false, true} {
		// 51550 = output 50000 + 10 sat/vB x 155 vB (one P2TR input, one P2TR
		// output, P2TR change): the coin covers its own required fee.
		c := g.Begin()
		oc := runCase(t, caseF6(51550, constant), c, g)
		c.End()
		if oc.knownF6 {
			t.Logf("KNOWN-FINDING: property=C07 F6 still present (listed as open): single P2TR coin 51550 reported insufficient (constant source: %v)", constant)
		} else if !oc.success {
			t.Fatalf("INCONCLUSIVE: F6 input neither succeeded nor was flagged:\n%s", c.Text())
		}
		// sanity of the input: one satoshi less is a justified insufficiency,
		// and the value the first guess demands succeeds.
		c = g.Begin()
		oc = runCase(t, caseF6(51549, constant), c, g)
		c.End()
		if !oc.insufficient {
			t.Fatalf("INCONCLUSIVE: a coin of 51549 was expected to be (justifiably) insufficient:\n%s", c.Text())
		}
		c = g.Begin()
		oc = runCase(t, caseF6(51650, constant), c, g)
		c.End()
		if !oc.success {
			t.Fatalf("INCONCLUSIVE: a coin of 51650 was expected to succeed:\n%s", c.Text())
		}
	}
}

// ---- native fuzz target ---------------------------------------------------------

// seedChoices are prefixes of the generator's choice sequence (see genCase):
// change type, constant?, nsel, omode, okind, xsel, x..., csel, tmode, ctype,
// ckey, [ksel], rsel, tune, scen, base, dsel, delta...
func seedChoices() [][]int64 {
	var seeds [][]int64
	for _, nsel := range []int64{0, 1, 2, 3, 4, 5, 6} { // 1,2,252,253,251,254,0 outputs
		for _, ctype := range []int64{tP2TR, tP2WPKH, tP2PKH, tNested} {
			// uniform P2TR outputs at the dust threshold, one coin of the
			// type, incremental source, 1000 sat/kvB, boundary scenario:
			// base = required fee incl. change + dust (change just not dust),
			// delta 0.
			seeds = append(seeds, []int64{tP2TR, 0, nsel, 0, oP2TR, 0, 0, 0, ctype, 0, 0, 0, 0, 0, 1, 0})
			// same with a large surplus (change present)
			seeds = append(seeds, []int64{ctype, 0, nsel, 0, oP2WPKH, 0, 0, 0, ctype, 0, 0, 0, 0, 0, 0, 11, 123456789})
		}
	}
	// mixed inputs, constant source, 252 outputs
	// (3 coins p2pkh/p2wpkh/np2wpkh, 1999 sat/kvB, total = outputs + required fee + 5000)
	seeds = append(seeds, []int64{tP2WPKH, 1, 2, 0, oP2PKH, 2, 777, 2, 1, 0, 0, 1, 1, 2, 2, 3, 3, 0, 0, 0, 5, 5000})
	// F6 neighbourhood: one 50000-ish output, 10 sat/vB, single P2TR coin at the loop's first guess - 1
	seeds = append(seeds, []int64{tP2TR, 0, 0, 0, oP2TR, 2, 10000, 0, 0, tP2TR, 0, 0, 1, 0, 0, 3, 2})
	return seeds
}

func FuzzC07(f *testing.F) {
	pool()
	for _, s := range seedChoices() {
		r := &recorder{want: s}
		genCase(r, false)
		f.Add(r.out)
	}
	f.Add([]byte{})
	g := evid.G("FuzzC07")
	f.Fuzz(func(t *testing.T, data []byte) {
		if len(data) > 4096 {
			return
		}
		tc := genCase(&byteChooser{data: data}, false)
		c := g.Begin()
		defer c.End()
		runCase(t, tc, c, g)
	})
}

// TestC07RegressSeedCorpus checks that the fuzz seed corpus really sits at the
// compact-size boundaries (a harness self-check, not a property check).
func TestC07RegressSeedCorpus(t *testing.T) {
	seen := map[int]bool{}
	for _, s := range seedChoices() {
		r := &recorder{want: s}
		a := genCase(r, false)
		b := genCase(&byteChooser{data: r.out}, false)
		if render(a) != render(b) {
			t.Fatalf("INCONCLUSIVE: seed does not decode to the case it was recorded from:\n%s\n---\n%s", render(a), render(b))
		}
		seen[len(b.outputs)] = true
	}
	for _, n := range []int{0, 1, 2, 251, 252, 253, 254} {
		if !seen[n] {
			t.Fatalf("INCONCLUSIVE: no seed with %d outputs", n)
		}
	}
	_ = known.Open
}

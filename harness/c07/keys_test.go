package c07

import (
	"crypto/sha256"
	"fmt"
	"sync"

	"github.com/btcsuite/btcd/btcec/v2"
	"github.com/btcsuite/btcd/btcec/v2/schnorr"
	"github.com/btcsuite/btcd/btcutil"
	"github.com/btcsuite/btcd/chaincfg"
	"github.com/btcsuite/btcd/txscript"
	"github.com/btcsuite/btcwallet/wallet/txsizes"
)

// Input (coin) and change script types.  The order is the one the property
// statement lists them in.
const (
	tP2PKH = iota
	tP2WPKH
	tNested
	tP2TR
	nTypes
)

var typeNames = [nTypes]string{"p2pkh", "p2wpkh", "np2wpkh", "p2tr"}

// scriptSizes are the ChangeSource.ScriptSize values the wallet uses for the
// four address types (wallet/createtx.go addrMgrWithChangeSource).
var scriptSizes = [nTypes]int{
	tP2PKH:  txsizes.P2PKHPkScriptSize,
	tP2WPKH: txsizes.P2WPKHPkScriptSize,
	tNested: txsizes.NestedP2WPKHPkScriptSize,
	tP2TR:   txsizes.P2TRPkScriptSize,
}

const (
	nCoinKeys   = 48 // keys coins can be locked to
	nChangeKeys = 4  // keys change scripts are derived from
)

var chainParams = &chaincfg.MainNetParams

type keyEntry struct {
	priv    *btcec.PrivateKey
	scripts [nTypes][]byte
}

// secrets implements txauthor.SecretsSource the way wallet.secretSource does:
// private keys (always compressed) looked up by the address of the previous
// output script, redeem scripts by P2SH address.
type secrets struct {
	keys    map[string]*btcec.PrivateKey
	scripts map[string][]byte
}

func (s *secrets) GetKey(a btcutil.Address) (*btcec.PrivateKey, bool, error) {
	k, ok := s.keys[a.EncodeAddress()]
	if !ok {
		return nil, false, fmt.Errorf("harness: no key for address %v", a)
	}
	return k, true, nil
}

func (s *secrets) GetScript(a btcutil.Address) ([]byte, error) {
	sc, ok := s.scripts[a.EncodeAddress()]
	if !ok {
		return nil, fmt.Errorf("harness: no script for address %v", a)
	}
	return sc, nil
}

func (s *secrets) ChainParams() *chaincfg.Params { return chainParams }

var (
	poolOnce   sync.Once
	coinKeys   []keyEntry
	changeKeys []keyEntry
	theSecrets *secrets
	poolErr    error
)

func mustScript(a btcutil.Address, err error) []byte {
	if err != nil {
		panic(err)
	}
	s, err := txscript.PayToAddrScript(a)
	if err != nil {
		panic(err)
	}
	return s
}

func makeKey(label string, i int, sec *secrets) keyEntry {
	h := sha256.Sum256([]byte(fmt.Sprintf("verif-c07-%s-%d", label, i)))
	priv, pub := btcec.PrivKeyFromBytes(h[:])
	var e keyEntry
	e.priv = priv
	pkh := btcutil.Hash160(pub.SerializeCompressed())

	p2pkh, err := btcutil.NewAddressPubKeyHash(pkh, chainParams)
	e.scripts[tP2PKH] = mustScript(p2pkh, err)

	p2wpkh, err := btcutil.NewAddressWitnessPubKeyHash(pkh, chainParams)
	e.scripts[tP2WPKH] = mustScript(p2wpkh, err)

	// nested: P2SH of the P2WPKH witness program.
	nested, err := btcutil.NewAddressScriptHash(e.scripts[tP2WPKH], chainParams)
	e.scripts[tNested] = mustScript(nested, err)

	// BIP86 key-spend-only taproot output.
	outKey := txscript.ComputeTaprootKeyNoScript(pub)
	p2tr, err := btcutil.NewAddressTaproot(schnorr.SerializePubKey(outKey), chainParams)
	e.scripts[tP2TR] = mustScript(p2tr, err)

	if sec != nil {
		for _, a := range []btcutil.Address{p2pkh, p2wpkh, nested, p2tr} {
			sec.keys[a.EncodeAddress()] = priv
		}
		sec.scripts[nested.EncodeAddress()] = e.scripts[tP2WPKH]
	}
	return e
}

// pool creates the deterministic key pool once per process.
func pool() {
	poolOnce.Do(func() {
		defer func() {
			if r := recover(); r != nil {
				poolErr = fmt.Errorf("%v", r)
			}
		}()
		theSecrets = &secrets{keys: map[string]*btcec.PrivateKey{}, scripts: map[string][]byte{}}
		for i := 0; i < nCoinKeys; i++ {
			coinKeys = append(coinKeys, makeKey("coin", i, theSecrets))
		}
		for i := 0; i < nChangeKeys; i++ {
			changeKeys = append(changeKeys, makeKey("change", i, nil))
		}
		for ty := 0; ty < nTypes; ty++ {
			if len(changeKeys[0].scripts[ty]) != scriptSizes[ty] {
				panic(fmt.Sprintf("script size of %s is %d, want %d", typeNames[ty],
					len(changeKeys[0].scripts[ty]), scriptSizes[ty]))
			}
		}
	})
}

package c07

import (
	"bytes"
	"errors"
	"fmt"

	"github.com/btcsuite/btcd/btcutil"
	"github.com/btcsuite/btcd/mempool"
	"github.com/btcsuite/btcd/txscript"
	"github.com/btcsuite/btcd/wire"
	"github.com/btcsuite/btcwallet/wallet/txauthor"
	"github.com/btcsuite/btcwallet/wallet/txrules"

	"verifharness/internal/evid"
	"verifharness/internal/known"
)

var errNoProgress = errors.New("harness: input source called again and again")

type failer interface {
	Fatalf(format string, args ...interface{})
}

// outcome is what runCase observed (for the regression tests and statistics).
type outcome struct {
	success      bool
	insufficient bool
	knownF3      bool // F3 shape met and excluded because it is listed as open
	knownF6      bool
	fee          int64
	est          int // code base's estimate for the final mix incl. change
	realVsize    int64
	nInputs      int
	change       int64 // value of the change output, -1 if none
}

// ---- shapes of the known findings --------------------------------------------

// isF3: the fee is short of rate x real size, a change output is present, the
// output count including the change output needs a longer compact-size
// encoding than the count of the requested outputs alone (252 -> 253), the fee
// is exactly the rate applied to the code base's estimate, and the real size
// exceeds that estimate by no more than the growth of the count encoding.
func isF3(nRequested int, changePresent bool, fee int64, rate btcutil.Amount, est int, realVsize int64) bool {
	if !changePresent {
		return false
	}
	growth := wire.VarIntSerializeSize(uint64(nRequested+1)) - wire.VarIntSerializeSize(uint64(nRequested))
	if growth <= 0 {
		return false
	}
	return fee == feeFor(rate, est) && fee < feeFor(rate, int(realVsize)) &&
		realVsize > int64(est) && realVsize <= int64(est+growth)
}

// prefixFacts describes the prefixes of the offered coin sequence the input
// source can deliver.
type prefixFacts struct {
	feasible   []int // prefix lengths k with sum(k) >= outputs + fee(estimate(mix(k), with change))
	feasibleNC []int // same with the estimate without a change output (observation only)
	sums       []int64
	reqs       []int64
}

func (tc *tcase) prefixes() prefixFacts {
	A := sumOutputs(tc.outputs)
	changeSize := scriptSizes[tc.changeType]
	var pf prefixFacts
	var m mix
	var s int64
	for i, c := range tc.coins {
		m.add(c.typ)
		s += c.amt
		k := i + 1
		if tc.constant && k != len(tc.coins) {
			continue // the constant source only ever offers all coins
		}
		req := feeFor(tc.rate, m.est(tc.outputs, changeSize))
		pf.sums = append(pf.sums, s)
		pf.reqs = append(pf.reqs, req)
		if s >= A+req {
			pf.feasible = append(pf.feasible, k)
		}
		if s >= A+feeFor(tc.rate, m.est(tc.outputs, 0)) {
			pf.feasibleNC = append(pf.feasibleNC, k)
		}
	}
	return pf
}

// isF6: insufficient funds although a deliverable prefix covers outputs plus
// its own required fee, where that prefix is the single first coin, the coin
// is P2TR (the only input shape whose estimate is below the loop's first guess
// of one P2WPKH input) and its value is below outputs + that first guess, so
// the loop rejected or skipped it on the strength of the guess alone.
func (tc *tcase) isF6(pf prefixFacts) bool {
	if len(pf.feasible) != 1 || pf.feasible[0] != 1 || len(tc.coins) == 0 {
		return false
	}
	first := tc.coins[0]
	A := sumOutputs(tc.outputs)
	f0 := feeFor(tc.rate, mix{p2wpkh: 1}.est(tc.outputs, scriptSizes[tc.changeType]))
	fOwn := feeFor(tc.rate, mix{p2tr: 1}.est(tc.outputs, scriptSizes[tc.changeType]))
	return first.typ == tP2TR && first.amt >= A+fOwn && first.amt < A+f0
}

// ---- the oracle ----------------------------------------------------------------

func copyOutputs(outs []*wire.TxOut) []*wire.TxOut {
	cp := make([]*wire.TxOut, len(outs))
	for i, o := range outs {
		cp[i] = &wire.TxOut{Value: o.Value, PkScript: append([]byte(nil), o.PkScript...)}
	}
	return cp
}

func sameOut(a, b *wire.TxOut) bool {
	return a != nil && b != nil && a.Value == b.Value && bytes.Equal(a.PkScript, b.PkScript)
}

func runCase(t failer, tc *tcase, c *evid.Case, g *evid.Group) outcome {
	pool()
	if poolErr != nil {
		t.Fatalf("INCONCLUSIVE: key pool: %v", poolErr)
	}
	var oc outcome
	oc.change = -1
	c.Logf("%s", render(tc))
	violated := func(format string, a ...interface{}) {
		t.Fatalf("C07 VIOLATED: %s\ncase:\n%s", fmt.Sprintf(format, a...), c.Text())
	}

	// The caller's slice may have spare capacity behind the requested outputs
	// (0-2 slots here, decided by the request itself): the authored transaction
	// must not come to share that array with the caller.
	if spare := len(tc.outputs) % 3; spare > 0 {
		housed := make([]*wire.TxOut, len(tc.outputs), len(tc.outputs)+spare)
		copy(housed, tc.outputs)
		tc.outputs = housed
		c.Class("caller-slice-with-spare-capacity")
	}
	A := sumOutputs(tc.outputs)
	changeSize := scriptSizes[tc.changeType]
	snapshot := copyOutputs(tc.outputs)
	handed := append([]*wire.TxOut(nil), tc.outputs...) // the pointers handed in

	// classes of the input
	c.Class("change-type:" + typeNames[tc.changeType])
	if tc.constant {
		c.Class("source:constant")
	} else {
		c.Class("source:incremental")
	}
	switch n := len(tc.outputs); {
	case n == 0:
		c.Class("outputs:0")
	case n == 252:
		c.Class("outputs:252")
	case n == 253:
		c.Class("outputs:253")
	case n >= 252:
		c.Class("outputs:>=252")
	}
	if len(tc.outputs) >= 252 {
		c.Class("outputs>=252(any)")
	}
	for _, k := range tc.outKinds {
		c.Class("outkind:" + outKindNames[k])
	}
	if int64(tc.rate)%1000 != 0 {
		c.Class("rate-not-multiple-of-1000")
	}
	if len(tc.coins) == 0 {
		c.Class("coins:0")
	}
	if len(tc.coins) >= 253 {
		c.Class("coins:>=253")
	}

	// the call
	changeCalls := 0
	var changeScript []byte
	cs := &txauthor.ChangeSource{
		ScriptSize: changeSize,
		NewScript: func() ([]byte, error) {
			s := changeKeys[changeCalls%nChangeKeys].scripts[tc.changeType]
			changeCalls++
			changeScript = append([]byte(nil), s...)
			return append([]byte(nil), s...), nil
		},
	}
	var src txauthor.InputSource
	if tc.constant {
		src = constantSource(tc.coins)
	} else {
		src = incrementalSource(tc.coins)
	}
	// Guard against a fee loop that never ends: on every iteration the loop
	// either returns or raises its target so that the incremental source
	// hands out at least one more coin (or has none left, which ends the loop
	// on the next call), so more than len(coins)+2 calls cannot happen.
	calls := 0
	inner := src
	src = func(target btcutil.Amount) (btcutil.Amount, []*wire.TxIn, []btcutil.Amount, [][]byte, error) {
		calls++
		if calls > len(tc.coins)+8 {
			return 0, nil, nil, nil, errNoProgress
		}
		return inner(target)
	}
	atx, err := txauthor.NewUnsignedTransaction(tc.outputs, tc.rate, src, cs)
	if errors.Is(err, errNoProgress) {
		violated("NewUnsignedTransaction called the input source %d times for %d coins without returning (neither a transaction nor insufficient funds)", calls, len(tc.coins))
	}

	// requested outputs as the caller holds them are untouched in every case
	if len(tc.outputs) != len(snapshot) {
		violated("caller's output slice changed length")
	}
	for i := range snapshot {
		if tc.outputs[i] != handed[i] || !sameOut(tc.outputs[i], snapshot[i]) {
			violated("requested output %d was modified in the caller's slice", i)
		}
	}
	if changeCalls > 1 {
		violated("ChangeSource.NewScript called %d times (documented: zero or one times)", changeCalls)
	}

	dust := dustThreshold(changeKeys[0].scripts[tc.changeType])

	if err != nil {
		c.Logf("result: error %v", err)
		var ise txauthor.InputSourceError
		if !errors.As(err, &ise) {
			violated("the input source and change source never fail, yet the call failed with an error that is not an InputSourceError: %v", err)
		}
		oc.insufficient = true
		c.Class("insufficient")
		pf := tc.prefixes()
		var total int64
		for _, x := range tc.coins {
			total += x.amt
		}
		// boundary for the NT rule: the required fee of all coins
		var mAll mix
		for _, x := range tc.coins {
			mAll.add(x.typ)
		}
		reqAll := feeFor(tc.rate, mAll.est(tc.outputs, changeSize))
		short := A + reqAll - total
		near := short <= 2*reqAll && short >= -2*reqAll
		c.Logf("offered total=%d outputs=%d required fee of all coins=%d feasible prefixes=%v", total, A, reqAll, pf.feasible)
		if len(pf.feasible) == 0 {
			c.Class("insufficient:justified")
			if near {
				c.Class("insufficient:justified-within-2x-fee")
				c.NonTrivial()
			}
			if len(pf.feasibleNC) > 0 {
				// Observation, not asserted: the coins would cover the fee of
				// the transaction without a change output, but not the fee of
				// the estimate the code base always uses (with change).
				c.Class("insufficient:inside-change-fee-window(observation)")
			}
			return oc
		}
		c.Class("insufficient:unjustified")
		c.NonTrivial()
		k := pf.feasible[0]
		what := fmt.Sprintf("insufficient funds reported although the first %d offered coin(s) total %d >= outputs %d + required fee %d (rate x worst-case estimate for that input mix incl. change)",
			k, pf.sums[idxOf(tc, k)], A, pf.reqs[idxOf(tc, k)])
		if tc.isF6(pf) {
			if known.Open("F6") {
				g.KnownHit("F6")
				c.Class("known-F6-excluded")
				if len(tc.coins) > 1 {
					c.Class("known-F6-excluded:more-coins-follow")
				}
				oc.knownF6 = true
				return oc
			}
			violated("[shape F6: single leading P2TR coin between its own required fee and the one-P2WPKH-input first guess; not listed as open] %s", what)
		}
		violated("%s", what)
		return oc
	}

	// ---------------- success ----------------
	oc.success = true
	c.Class("success")
	if atx == nil || atx.Tx == nil {
		violated("nil result without error")
	}
	tx := atx.Tx
	n := len(snapshot)

	// requested outputs unchanged and in order, change (if any) at ChangeIndex
	ci := atx.ChangeIndex
	var changeOut *wire.TxOut
	if ci >= 0 {
		if ci >= len(tx.TxOut) {
			violated("ChangeIndex %d out of range (%d outputs)", ci, len(tx.TxOut))
		}
		changeOut = tx.TxOut[ci]
	}
	rest := make([]*wire.TxOut, 0, len(tx.TxOut))
	for i, o := range tx.TxOut {
		if i != ci || ci < 0 {
			rest = append(rest, o)
		}
	}
	if len(rest) != n {
		violated("transaction has %d non-change outputs, %d were requested (ChangeIndex %d)", len(rest), n, ci)
	}
	for i := range rest {
		if !sameOut(rest[i], snapshot[i]) {
			violated("requested output %d differs in the transaction: got (%d,%x) want (%d,%x)", i,
				rest[i].Value, rest[i].PkScript, snapshot[i].Value, snapshot[i].PkScript)
		}
	}

	// inputs: offered coins, each once, matching script and amount
	byOutpoint := make(map[wire.OutPoint]int, len(tc.coins))
	for i, x := range tc.coins {
		byOutpoint[x.op] = i
	}
	if len(atx.PrevScripts) != len(tx.TxIn) || len(atx.PrevInputValues) != len(tx.TxIn) {
		violated("%d inputs but %d previous scripts and %d previous values", len(tx.TxIn),
			len(atx.PrevScripts), len(atx.PrevInputValues))
	}
	used := map[int]bool{}
	var m mix
	var sumIn int64
	fetcher := txscript.NewMultiPrevOutFetcher(nil)
	for i, in := range tx.TxIn {
		ix, ok := byOutpoint[in.PreviousOutPoint]
		if !ok {
			violated("input %d spends %v which was not offered", i, in.PreviousOutPoint)
		}
		if used[ix] {
			violated("offered coin %d is spent twice", ix)
		}
		used[ix] = true
		x := tc.coins[ix]
		if !bytes.Equal(atx.PrevScripts[i], x.script) {
			violated("input %d: previous script does not match the coin", i)
		}
		if int64(atx.PrevInputValues[i]) != x.amt {
			violated("input %d: previous value %d, the coin is worth %d", i, int64(atx.PrevInputValues[i]), x.amt)
		}
		m.add(x.typ)
		c.Class("input-type:" + typeNames[x.typ])
		sumIn += x.amt
		fetcher.AddPrevOut(x.op, &wire.TxOut{Value: x.amt, PkScript: x.script})
	}
	if int64(atx.TotalInput) != sumIn {
		violated("TotalInput %d but the inputs are worth %d", int64(atx.TotalInput), sumIn)
	}
	oc.nInputs = len(tx.TxIn)

	// value conservation
	var sumOut int64
	for _, o := range tx.TxOut {
		sumOut += o.Value
	}
	fee := sumIn - sumOut
	oc.fee = fee
	if fee < 0 {
		violated("outputs %d exceed inputs %d", sumOut, sumIn)
	}
	if changeOut != nil {
		oc.change = changeOut.Value
		if sumIn != A+changeOut.Value+fee {
			violated("inputs %d != outputs %d + change %d + fee %d", sumIn, A, changeOut.Value, fee)
		}
	}

	// change output: the script the change source produced, neither zero nor dust
	if changeOut != nil {
		if changeCalls != 1 || !bytes.Equal(changeOut.PkScript, changeScript) {
			violated("change output script is not the one produced by the change source")
		}
		if changeOut.Value <= 0 {
			violated("change output with value %d", changeOut.Value)
		}
		if txrules.IsDustOutput(changeOut, txrules.DefaultRelayFeePerKb) ||
			mempool.IsDust(changeOut, txrules.DefaultRelayFeePerKb) {
			violated("dust change output: value %d (dust threshold of the script %d)", changeOut.Value, dust)
		}
	}

	// sign and measure
	if err := atx.AddAllInputScripts(theSecrets); err != nil {
		violated("signing the authored transaction failed: %v", err)
	}
	realVsize := mempool.GetTxVirtualSize(btcutil.NewTx(tx))
	oc.realVsize = realVsize
	est := m.est(snapshot, changeSize)
	oc.est = est
	needReal := feeFor(tc.rate, int(realVsize))
	maxFee := feeFor(tc.rate, est) + dust
	c.Logf("result: success inputs=%d mix=%v total-in=%d change=%d fee=%d estimate(incl. change)=%d vB real=%d vB required(real)=%d upper=%d",
		len(tx.TxIn), m, sumIn, oc.change, fee, est, realVsize, needReal, maxFee)

	if fee < needReal {
		what := fmt.Sprintf("fee %d is below the requested rate applied to the real signed virtual size: %d sat/kvB x %d vB = %d (estimate used: %d vB)",
			fee, int64(tc.rate), realVsize, needReal, est)
		if isF3(n, changeOut != nil, fee, tc.rate, est, realVsize) {
			if known.Open("F3") {
				g.KnownHit("F3")
				c.Class("known-F3-excluded")
				oc.knownF3 = true
			} else {
				violated("[shape F3: output-count compact size grows with the change output (%d requested + change); not listed as open] %s", n, what)
			}
		} else {
			violated("%s", what)
		}
	}
	if fee > maxFee {
		violated("fee %d is above rate x worst-case estimate + one dust threshold = %d + %d", fee, feeFor(tc.rate, est), dust)
	}

	// every input verifies
	sigHashes := txscript.NewTxSigHashes(tx, fetcher)
	for i, in := range tx.TxIn {
		x := tc.coins[byOutpoint[in.PreviousOutPoint]]
		vm, err := txscript.NewEngine(x.script, tx, i, txscript.StandardVerifyFlags, nil, sigHashes, x.amt, fetcher)
		if err != nil {
			violated("input %d (%s): cannot create script engine: %v", i, typeNames[x.typ], err)
		}
		if err := vm.Execute(); err != nil {
			violated("input %d (%s) does not verify under StandardVerifyFlags: %v", i, typeNames[x.typ], err)
		}
	}

	// classes of the result, non-trivial rule
	leftover := sumIn - A - feeFor(tc.rate, est) // what is left after the required fee
	switch {
	case changeOut != nil:
		c.Class("change:present")
	case leftover == 0:
		c.Class("change:absent-exact")
	default:
		c.Class("change:dropped-as-dust")
	}
	if m.types() >= 2 {
		c.Class("success:>=2-input-types")
		c.NonTrivial()
	}
	if n >= 252 {
		c.Class("success:>=252-outputs")
		c.NonTrivial()
	}
	if leftover >= 0 && leftover <= 2*dust {
		c.Class("success:within-dust-of-boundary")
		c.NonTrivial()
	}
	if changeOut != nil && changeOut.Value == dust {
		c.Class("success:change-exactly-at-threshold")
	}
	if changeOut == nil && leftover == dust-1 {
		c.Class("success:leftover-one-below-threshold")
	}
	if r := (int64(tc.rate) * int64(est)) % 1000; r == 0 || r == 1 || r == 999 {
		c.Class("rate-x-estimate-at-truncation-boundary")
	}
	if int64(est) == realVsize {
		c.Class("estimate==real")
	}
	if len(tx.TxIn) < len(tc.coins) {
		c.Class("success:proper-prefix-of-coins")
	}

	// What the wallet does next with the result - moving the change output to
	// a random position - must leave the request as the caller holds it alone.
	if ci >= 0 && n > 0 {
		for try := 0; try < 16 && atx.ChangeIndex == ci; try++ {
			atx.RandomizeChangePosition()
		}
		for i := range snapshot {
			if tc.outputs[i] != handed[i] || !sameOut(tc.outputs[i], snapshot[i]) {
				violated("requested output %d was replaced in the caller's slice when the change output of the authored transaction was moved (the transaction shares the caller's array)", i)
			}
		}
		if atx.ChangeIndex != ci {
			c.Class("change-position-moved-afterwards")
		}
	}
	return oc
}

// idxOf maps a prefix length to its index in prefixFacts.sums/reqs.
func idxOf(tc *tcase, k int) int {
	if tc.constant {
		return 0
	}
	return k - 1
}

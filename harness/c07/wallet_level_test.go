package c07

import (
	"fmt"
	"testing"

	"github.com/btcsuite/btcd/btcutil"
	"github.com/btcsuite/btcd/mempool"
	"github.com/btcsuite/btcd/txscript"
	"github.com/btcsuite/btcd/wire"
	"github.com/btcsuite/btcwallet/waddrmgr"
	"github.com/btcsuite/btcwallet/wallet"
	"github.com/btcsuite/btcwallet/wallet/txrules"
	"github.com/btcsuite/btcwallet/wallet/txsizes"
	"pgregory.net/rapid"

	"verifharness/internal/evid"
	"verifharness/internal/walletsim"
)

// TestC07WalletLevel checks the same arithmetic on transactions a complete
// wallet creates (Wallet.CreateSimpleTx, signed): this reaches the wallet's own
// input sources and coin arrangement (wallet/createtx.go), which the direct
// txauthor unit can only imitate.
func TestC07WalletLevel(t *testing.T) {
	g := evid.G("TestC07WalletLevel")
	rapid.Check(t, func(t *rapid.T) {
		c := g.Begin()
		defer c.End()
		s := walletsim.NewScenario(t, "C07", c, 4, 0)
		defer s.F.Close()
		// many coins of every type; values from tiny (negative yield at high rates) to large
		var fund []*wire.MsgTx
		for i := 0; i < rapid.IntRange(3, 8).Draw(t, "fundingTxs"); i++ {
			tx := wire.NewMsgTx(2)
			tx.AddTxIn(wire.NewTxIn(&wire.OutPoint{Hash: [32]byte{0xaa, byte(i), 7}, Index: uint32(i)}, nil, nil))
			for k := 0; k < rapid.IntRange(1, 5).Draw(t, "outs"); k++ {
				own := s.Book.List[rapid.IntRange(0, len(s.Book.List)-1).Draw(t, "payTo")]
				val := int64(rapid.SampledFrom([]int{600, 1000, 3000, 10_000, 50_000, 200_000, 1_000_000}).Draw(t, "coinValue"))
				val += int64(rapid.IntRange(0, 999).Draw(t, "coinJitter"))
				tx.AddTxOut(wire.NewTxOut(val, own.Script))
			}
			fund = append(fund, tx)
		}
		s.Mine(1, fund, nil)
		nReq := rapid.IntRange(1, 6).Draw(t, "requests")
		ok := 0
		for r := 0; r < nReq; r++ {
			var scope *waddrmgr.KeyScope
			if rapid.IntRange(0, 2).Draw(t, "anyScope") > 0 {
				sc := waddrmgr.DefaultKeyScopes[rapid.IntRange(0, 3).Draw(t, "scope")]
				scope = &sc
			}
			rate := btcutil.Amount(rapid.SampledFrom([]int{1000, 1001, 1999, 2500, 7777, 10_000, 33_333, 100_000}).Draw(t, "rate"))
			elig := s.Eligible(walletsim.EligibleQuery{Scope: scope, Account: 0, MinConf: 1})
			var total int64
			for _, co := range elig {
				total += co.Value
			}
			if total < 3000 {
				continue
			}
			nOut := rapid.IntRange(1, 4).Draw(t, "nOutputs")
			// aim at amounts that leave little or nothing for change
			var outputs []*wire.TxOut
			share := total / int64(nOut)
			for i := 0; i < nOut; i++ {
				frac := rapid.SampledFrom([]int{20, 50, 80, 95, 99}).Draw(t, "percent")
				v := share * int64(frac) / 100
				if v < 1000 {
					v = 1000
				}
				outputs = append(outputs, wire.NewTxOut(v, s.ExternalScript()))
			}
			var strategy wallet.CoinSelectionStrategy = wallet.CoinSelectionLargest
			if rapid.Bool().Draw(t, "random") {
				strategy = wallet.CoinSelectionRandom
			}
			// boundary mode: one output sized so that the largest coin covers it plus the
			// first fee guess but (perhaps) not the fee its own input type requires, which
			// sends the fee loop into a second round of input selection
			if rapid.IntRange(0, 2).Draw(t, "boundary") == 0 {
				var big int64
				for _, co := range elig {
					if co.Value > big {
						big = co.Value
					}
				}
				dest := s.ExternalScript()
				probe := []*wire.TxOut{wire.NewTxOut(1000, dest)}
				lo := int64(txrules.FeeForSerializeSize(rate, txsizes.EstimateVirtualSize(0, 1, 0, 0, probe, 22)))
				hi := int64(txrules.FeeForSerializeSize(rate, txsizes.EstimateVirtualSize(1, 0, 0, 0, probe, 34)))
				gap := rapid.Int64Range(lo-3, hi+3).Draw(t, "feeGap")
				if big-gap > 1000 {
					outputs = []*wire.TxOut{wire.NewTxOut(big-gap, dest)}
					nOut = 1
					strategy = wallet.CoinSelectionLargest
					c.Class("boundary-request")
				}
			}
			atx, err := s.F.W.CreateSimpleTx(scope, 0, outputs, 1, rate, strategy, false)
			c.Logf("CreateSimpleTx scope=%v rate=%d outputs=%d eligible=%d/%d sat -> %v", scope, rate, nOut, len(elig), total, err)
			if err != nil {
				c.Class("refused")
				continue
			}
			tx := atx.Tx
			var in, out int64
			counts := map[string]int{}
			seenIn := map[wire.OutPoint]bool{}
			for _, txin := range tx.TxIn {
				if seenIn[txin.PreviousOutPoint] {
					s.F.Violation("coin %v is counted twice among the inputs: the inputs' real total is lower than outputs plus fee", txin.PreviousOutPoint)
				}
				seenIn[txin.PreviousOutPoint] = true
				co, okc := elig[txin.PreviousOutPoint]
				if !okc {
					s.F.Violation("input %v is not an eligible coin of the ledger", txin.PreviousOutPoint)
				}
				in += co.Value
				switch {
				case txscript.IsPayToScriptHash(co.Own.Script):
					counts["nested"]++
				case txscript.IsPayToWitnessPubKeyHash(co.Own.Script):
					counts["p2wpkh"]++
				case txscript.IsPayToTaproot(co.Own.Script):
					counts["p2tr"]++
				default:
					counts["p2pkh"]++
				}
			}
			for _, o := range tx.TxOut {
				out += o.Value
			}
			fee := in - out
			if int64(atx.TotalInput) != in {
				s.F.Violation("TotalInput reports %d, the inputs are worth %d", atx.TotalInput, in)
			}
			// requested outputs unchanged (the wallet randomises the change position by
			// swapping it with another output, so they are compared as a multiset)
			want := map[string]int{}
			for _, o := range outputs {
				want[fmt.Sprintf("%d/%x", o.Value, o.PkScript)]++
			}
			var change *wire.TxOut
			for i, o := range tx.TxOut {
				if i == atx.ChangeIndex {
					change = o
					continue
				}
				k := fmt.Sprintf("%d/%x", o.Value, o.PkScript)
				if want[k] == 0 {
					s.F.Violation("output %d (%d sat) is neither requested nor the change output", i, o.Value)
				}
				want[k]--
			}
			for k, n := range want {
				if n != 0 {
					s.F.Violation("requested output %s is missing from the transaction", k)
				}
			}
			vsize := mempool.GetTxVirtualSize(btcutil.NewTx(tx))
			need := txrules.FeeForSerializeSize(rate, int(vsize))
			if btcutil.Amount(fee) < need {
				s.F.Violation("fee %d is below the requested rate %d sat/kvB applied to the real signed size %d vB (= %d); inputs %v outputs %d change=%v",
					fee, rate, vsize, need, counts, len(outputs), change != nil)
			}
			changeSize := 34 // largest change script the wallet produces (P2TR)
			dust := btcutil.Amount(546)
			if change != nil {
				changeSize = len(change.PkScript)
				if change.Value == 0 || txrules.IsDustOutput(change, txrules.DefaultRelayFeePerKb) {
					s.F.Violation("change output of %d sat is zero or dust", change.Value)
				}
				c.Class("with-change")
			} else {
				c.Class("without-change")
			}
			est := txsizes.EstimateVirtualSize(counts["p2pkh"], counts["p2tr"], counts["p2wpkh"], counts["nested"], outputs, changeSize)
			if max := txrules.FeeForSerializeSize(rate, est) + dust; btcutil.Amount(fee) > max {
				s.F.Violation("fee %d exceeds the rate applied to the worst-case estimate %d vB plus one dust threshold (= %d); inputs %v outputs %d change=%v",
					fee, est, max, counts, len(outputs), change != nil)
			}
			if len(counts) >= 2 {
				c.Class("mixed-input-types")
			}
			ok++
			c.Class(fmt.Sprintf("inputs:%d", min(len(tx.TxIn), 4)))
		}
		if ok > 0 {
			c.NonTrivial()
		}
	})
}

package c07

import (
	"errors"
	"fmt"
	"sort"
	"testing"

	"github.com/btcsuite/btcd/btcutil"
	"github.com/btcsuite/btcd/mempool"
	"github.com/btcsuite/btcd/txscript"
	"github.com/btcsuite/btcd/wire"
	"github.com/btcsuite/btcwallet/waddrmgr"
	"github.com/btcsuite/btcwallet/wallet"
	"github.com/btcsuite/btcwallet/wallet/txauthor"
	"github.com/btcsuite/btcwallet/wallet/txrules"
	"github.com/btcsuite/btcwallet/wallet/txsizes"
	"pgregory.net/rapid"

	"verifharness/internal/evid"
	"verifharness/internal/walletsim"
)

// TestC07WalletLevel checks the same arithmetic on transactions a complete
// wallet creates (Wallet.CreateSimpleTx, signed): this reaches the wallet's own
// input sources and coin arrangement (wallet/createtx.go), which the direct
// txauthor unit can only imitate.
func TestC07WalletLevel(t *testing.T) {
	g := evid.G("TestC07WalletLevel")
	rapid.Check(t, func(t *rapid.T) {
		c := g.Begin()
		defer c.End()
		s := walletsim.NewScenario(t, "C07", c, 4, 0)
		defer s.F.Close()
		// many coins of every type; values from tiny (negative yield at high rates) to large
		var fund []*wire.MsgTx
		for i := 0; i < rapid.IntRange(3, 8).Draw(t, "fundingTxs"); i++ {
			tx := wire.NewMsgTx(2)
			tx.AddTxIn(wire.NewTxIn(&wire.OutPoint{Hash: [32]byte{0xaa, byte(i), 7}, Index: uint32(i)}, nil, nil))
			for k := 0; k < rapid.IntRange(1, 5).Draw(t, "outs"); k++ {
				own := s.Book.List[rapid.IntRange(0, len(s.Book.List)-1).Draw(t, "payTo")]
				val := int64(rapid.SampledFrom([]int{600, 1000, 3000, 5000, 7000, 8000, 10_000, 15_000, 50_000, 200_000, 1_000_000}).Draw(t, "coinValue"))
				val += int64(rapid.IntRange(0, 999).Draw(t, "coinJitter"))
				tx.AddTxOut(wire.NewTxOut(val, own.Script))
			}
			fund = append(fund, tx)
		}
		s.Mine(1, fund, nil)
		nReq := rapid.IntRange(1, 6).Draw(t, "requests")
		ok := 0
		for r := 0; r < nReq; r++ {
			var scope *waddrmgr.KeyScope
			if rapid.IntRange(0, 2).Draw(t, "anyScope") > 0 {
				sc := waddrmgr.DefaultKeyScopes[rapid.IntRange(0, 3).Draw(t, "scope")]
				scope = &sc
			}
			rate := btcutil.Amount(rapid.SampledFrom([]int{1000, 1001, 1999, 2500, 7777, 10_000, 33_333, 100_000}).Draw(t, "rate"))
			elig := s.Eligible(walletsim.EligibleQuery{Scope: scope, Account: 0, MinConf: 1})
			var total int64
			for _, co := range elig {
				total += co.Value
			}
			if total < 3000 {
				continue
			}
			nOut := rapid.IntRange(1, 4).Draw(t, "nOutputs")
			// aim at amounts that leave little or nothing for change
			var outputs []*wire.TxOut
			share := total / int64(nOut)
			for i := 0; i < nOut; i++ {
				frac := rapid.SampledFrom([]int{20, 50, 80, 95, 99}).Draw(t, "percent")
				v := share * int64(frac) / 100
				if v < 1000 {
					v = 1000
				}
				outputs = append(outputs, wire.NewTxOut(v, s.ExternalScript()))
			}
			var strategy wallet.CoinSelectionStrategy = wallet.CoinSelectionLargest
			if rapid.Bool().Draw(t, "random") {
				strategy = wallet.CoinSelectionRandom
			}
			// boundary mode: one output sized so that the largest coin covers it plus the
			// first fee guess but (perhaps) not the fee its own input type requires, which
			// sends the fee loop into a second round of input selection
			if rapid.IntRange(0, 2).Draw(t, "boundary") == 0 {
				var big int64
				for _, co := range elig {
					if co.Value > big {
						big = co.Value
					}
				}
				dest := s.ExternalScript()
				probe := []*wire.TxOut{wire.NewTxOut(1000, dest)}
				lo := int64(txrules.FeeForSerializeSize(rate, txsizes.EstimateVirtualSize(0, 1, 0, 0, probe, 22)))
				hi := int64(txrules.FeeForSerializeSize(rate, txsizes.EstimateVirtualSize(1, 0, 0, 0, probe, 34)))
				gap := rapid.Int64Range(lo-3, hi+3).Draw(t, "feeGap")
				if big-gap > 1000 {
					outputs = []*wire.TxOut{wire.NewTxOut(big-gap, dest)}
					nOut = 1
					strategy = wallet.CoinSelectionLargest
					c.Class("boundary-request")
				}
			}
			// deep mode: one output sized just below the most that the coins, taken
			// largest first, can pay at this rate - the selection has to walk past
			// coins that do not pay for themselves to reach smaller, cheaper-to-spend
			// ones that do
			if rapid.IntRange(0, 3).Draw(t, "deep") == 0 {
				dest := s.ExternalScript()
				best := maxPayableLargest(elig, dest, rate)
				v := best - int64(rapid.IntRange(0, 3000).Draw(t, "deepSlack"))
				if v >= 1000 {
					outputs = []*wire.TxOut{wire.NewTxOut(v, dest)}
					nOut = 1
					strategy = wallet.CoinSelectionLargest
					c.Class("deep-request")
				}
			}
			atx, err := s.F.W.CreateSimpleTx(scope, 0, outputs, 1, rate, strategy, false)
			c.Logf("CreateSimpleTx scope=%v rate=%d outputs=%d eligible=%d/%d sat -> %v", scope, rate, nOut, len(elig), total, err)
			if err != nil {
				c.Class("refused")
				var ise txauthor.InputSourceError
				if errors.As(err, &ise) {
					c.Class("refused:insufficient")
					if why := refusalUnjustified(elig, outputs, rate, strategy); why != "" {
						s.F.Violation("CreateSimpleTx reports insufficient funds although the offered coins cover the outputs plus the required fee: %s", why)
					}
				}
				continue
			}
			tx := atx.Tx
			var in, out int64
			counts := map[string]int{}
			seenIn := map[wire.OutPoint]bool{}
			for _, txin := range tx.TxIn {
				if seenIn[txin.PreviousOutPoint] {
					s.F.Violation("coin %v is counted twice among the inputs: the inputs' real total is lower than outputs plus fee", txin.PreviousOutPoint)
				}
				seenIn[txin.PreviousOutPoint] = true
				co, okc := elig[txin.PreviousOutPoint]
				if !okc {
					s.F.Violation("input %v is not an eligible coin of the ledger", txin.PreviousOutPoint)
				}
				in += co.Value
				switch {
				case txscript.IsPayToScriptHash(co.Own.Script):
					counts["nested"]++
				case txscript.IsPayToWitnessPubKeyHash(co.Own.Script):
					counts["p2wpkh"]++
				case txscript.IsPayToTaproot(co.Own.Script):
					counts["p2tr"]++
				default:
					counts["p2pkh"]++
				}
			}
			for _, o := range tx.TxOut {
				out += o.Value
			}
			fee := in - out
			if int64(atx.TotalInput) != in {
				s.F.Violation("TotalInput reports %d, the inputs are worth %d", atx.TotalInput, in)
			}
			// requested outputs unchanged (the wallet randomises the change position by
			// swapping it with another output, so they are compared as a multiset)
			want := map[string]int{}
			for _, o := range outputs {
				want[fmt.Sprintf("%d/%x", o.Value, o.PkScript)]++
			}
			var change *wire.TxOut
			for i, o := range tx.TxOut {
				if i == atx.ChangeIndex {
					change = o
					continue
				}
				k := fmt.Sprintf("%d/%x", o.Value, o.PkScript)
				if want[k] == 0 {
					s.F.Violation("output %d (%d sat) is neither requested nor the change output", i, o.Value)
				}
				want[k]--
			}
			for k, n := range want {
				if n != 0 {
					s.F.Violation("requested output %s is missing from the transaction", k)
				}
			}
			vsize := mempool.GetTxVirtualSize(btcutil.NewTx(tx))
			need := txrules.FeeForSerializeSize(rate, int(vsize))
			if btcutil.Amount(fee) < need {
				s.F.Violation("fee %d is below the requested rate %d sat/kvB applied to the real signed size %d vB (= %d); inputs %v outputs %d change=%v",
					fee, rate, vsize, need, counts, len(outputs), change != nil)
			}
			changeSize := 34 // largest change script the wallet produces (P2TR)
			dust := btcutil.Amount(546)
			if change != nil {
				changeSize = len(change.PkScript)
				if change.Value == 0 || txrules.IsDustOutput(change, txrules.DefaultRelayFeePerKb) {
					s.F.Violation("change output of %d sat is zero or dust", change.Value)
				}
				c.Class("with-change")
			} else {
				c.Class("without-change")
			}
			est := txsizes.EstimateVirtualSize(counts["p2pkh"], counts["p2tr"], counts["p2wpkh"], counts["nested"], outputs, changeSize)
			if max := txrules.FeeForSerializeSize(rate, est) + dust; btcutil.Amount(fee) > max {
				s.F.Violation("fee %d exceeds the rate applied to the worst-case estimate %d vB plus one dust threshold (= %d); inputs %v outputs %d change=%v",
					fee, est, max, counts, len(outputs), change != nil)
			}
			if len(counts) >= 2 {
				c.Class("mixed-input-types")
			}
			ok++
			c.Class(fmt.Sprintf("inputs:%d", min(len(tx.TxIn), 4)))
		}
		if ok > 0 {
			c.NonTrivial()
		}
	})
}

// coinsLargestFirst lists value and input kind (0 p2pkh, 1 nested, 2 p2wpkh,
// 3 p2tr: dearest first) of the coins in descending value, ties with the
// dearest kind first.
func coinsLargestFirst(elig map[wire.OutPoint]*walletsim.Coin) [][2]int64 {
	var coins [][2]int64
	for _, co := range elig {
		k := int64(0)
		switch {
		case txscript.IsPayToScriptHash(co.Own.Script):
			k = 1
		case txscript.IsPayToWitnessPubKeyHash(co.Own.Script):
			k = 2
		case txscript.IsPayToTaproot(co.Own.Script):
			k = 3
		}
		coins = append(coins, [2]int64{co.Value, k})
	}
	sort.Slice(coins, func(i, j int) bool {
		if coins[i][0] != coins[j][0] {
			return coins[i][0] > coins[j][0]
		}
		return coins[i][1] < coins[j][1]
	})
	return coins
}

// maxPayableLargest is the largest single-output amount some largest-first
// prefix of the coins pays for, fee of the worst-case estimate included.
func maxPayableLargest(elig map[wire.OutPoint]*walletsim.Coin, dest []byte, rate btcutil.Amount) int64 {
	probe := []*wire.TxOut{wire.NewTxOut(1000, dest)}
	var n [4]int
	var sum, best int64
	for _, x := range coinsLargestFirst(elig) {
		n[x[1]]++
		sum += x[0]
		est := txsizes.EstimateVirtualSize(n[0], n[3], n[2], n[1], probe, 34)
		if v := sum - int64(txrules.FeeForSerializeSize(rate, est)); v > best {
			best = v
		}
	}
	return best
}

// refusalUnjustified decides, from the ledger's eligible coins alone, whether an
// "insufficient funds" answer contradicts the property. It is deliberately one
// sided: it names a set of coins the selection strategy is bound to arrive at
// (largest first: a prefix of the coins in descending value, ties counted with
// the dearest input type first; random: all coins that pay for themselves by a
// margin, in any order the loop ends with all of them) whose value covers the
// outputs plus the rate applied to the worst-case size estimate with the largest
// change script - the very test the author applies before giving up. Empty
// result: the refusal may be justified.
func refusalUnjustified(elig map[wire.OutPoint]*walletsim.Coin, outputs []*wire.TxOut, rate btcutil.Amount, strategy wallet.CoinSelectionStrategy) string {
	type cv struct {
		v    int64
		kind int // 0 p2pkh, 1 nested, 2 p2wpkh, 3 p2tr (dearest first)
	}
	upper := []int64{148, 92, 69, 58}
	var coins []cv
	for _, co := range elig {
		k := 0
		switch {
		case txscript.IsPayToScriptHash(co.Own.Script):
			k = 1
		case txscript.IsPayToWitnessPubKeyHash(co.Own.Script):
			k = 2
		case txscript.IsPayToTaproot(co.Own.Script):
			k = 3
		}
		coins = append(coins, cv{co.Value, k})
	}
	sort.Slice(coins, func(i, j int) bool {
		if coins[i].v != coins[j].v {
			return coins[i].v > coins[j].v
		}
		return coins[i].kind < coins[j].kind
	})
	var out int64
	for _, o := range outputs {
		out += o.Value
	}
	need := func(n [4]int) int64 {
		est := txsizes.EstimateVirtualSize(n[0], n[3], n[2], n[1], outputs, 34)
		return out + int64(txrules.FeeForSerializeSize(rate, est))
	}
	if strategy == wallet.CoinSelectionLargest {
		var n [4]int
		var sum int64
		for i, x := range coins {
			n[x.kind]++
			sum += x.v
			if sum >= need(n) {
				return fmt.Sprintf("the %d largest of %d eligible coins are worth %d, outputs plus the fee of the worst-case estimate for them come to %d (rate %d)", i+1, len(coins), sum, need(n), rate)
			}
		}
		return ""
	}
	var n [4]int
	var sum int64
	for _, x := range coins {
		if x.v > int64(rate)*upper[x.kind]/1000+1 {
			n[x.kind]++
			sum += x.v
		}
	}
	if sum >= need(n) {
		return fmt.Sprintf("the %d coins that pay for themselves are worth %d together, outputs plus the fee of the worst-case estimate for all of them come to %d (rate %d)", n[0]+n[1]+n[2]+n[3], sum, need(n), rate)
	}
	return ""
}

package c07

import (
	"crypto/sha256"
	"encoding/binary"
	"fmt"
	"strings"

	"github.com/btcsuite/btcd/btcutil"
	"github.com/btcsuite/btcd/txscript"
	"github.com/btcsuite/btcd/wire"
	"github.com/btcsuite/btcwallet/wallet/txauthor"
	"github.com/btcsuite/btcwallet/wallet/txrules"
	"github.com/btcsuite/btcwallet/wallet/txsizes"
	"pgregory.net/rapid"
)

// ---- the case ---------------------------------------------------------------

// Requested output kinds.
const (
	oP2WPKH = iota
	oP2PKH
	oP2SH
	oP2WSH
	oP2TR
	oOpReturn
	nOutKinds
)

var outKindNames = [nOutKinds]string{"p2wpkh", "p2pkh", "p2sh", "p2wsh", "p2tr", "opreturn"}

type coin struct {
	typ    int
	key    int
	amt    int64
	op     wire.OutPoint
	script []byte
}

type tcase struct {
	outputs    []*wire.TxOut
	outKinds   []int
	rate       btcutil.Amount
	coins      []coin // in the order the incremental source delivers them
	constant   bool   // constantInputSource (user-selected coins) instead of makeInputSource
	changeType int
}

// mix is the count of inputs by type, as author.go counts them.
type mix struct{ p2pkh, p2tr, p2wpkh, nested int }

func (m *mix) add(typ int) {
	switch typ {
	case tP2PKH:
		m.p2pkh++
	case tP2WPKH:
		m.p2wpkh++
	case tNested:
		m.nested++
	case tP2TR:
		m.p2tr++
	}
}

func (m mix) types() int {
	n := 0
	for _, v := range []int{m.p2pkh, m.p2tr, m.p2wpkh, m.nested} {
		if v > 0 {
			n++
		}
	}
	return n
}

// est is the code base's worst-case virtual size estimate for the input mix.
func (m mix) est(outs []*wire.TxOut, changeScriptSize int) int {
	return txsizes.EstimateVirtualSize(m.p2pkh, m.p2tr, m.p2wpkh, m.nested, outs, changeScriptSize)
}

func (m mix) String() string {
	return fmt.Sprintf("{p2pkh:%d p2wpkh:%d np2wpkh:%d p2tr:%d}", m.p2pkh, m.p2wpkh, m.nested, m.p2tr)
}

func feeFor(rate btcutil.Amount, size int) int64 {
	return int64(txrules.FeeForSerializeSize(rate, size))
}

func sumOutputs(outs []*wire.TxOut) int64 {
	var s int64
	for _, o := range outs {
		s += o.Value
	}
	return s
}

// dustThreshold is the smallest value that is not dust for the script under
// the relay fee author.go uses for its change decision.
func dustThreshold(script []byte) int64 {
	lo, hi := int64(0), int64(100000)
	for lo < hi {
		mid := (lo + hi) / 2
		if txrules.IsDustOutput(&wire.TxOut{Value: mid, PkScript: script}, txrules.DefaultRelayFeePerKb) {
			lo = mid + 1
		} else {
			hi = mid
		}
	}
	return lo
}

// ---- input sources: copies of wallet/createtx.go (unexported there) ---------

// incrementalSource replicates wallet.makeInputSource.
func incrementalSource(eligible []coin) txauthor.InputSource {
	currentTotal := btcutil.Amount(0)
	currentInputs := make([]*wire.TxIn, 0, len(eligible))
	currentScripts := make([][]byte, 0, len(eligible))
	currentInputValues := make([]btcutil.Amount, 0, len(eligible))

	return func(target btcutil.Amount) (btcutil.Amount, []*wire.TxIn,
		[]btcutil.Amount, [][]byte, error) {

		for currentTotal < target && len(eligible) != 0 {
			next := eligible[0]
			outpoint := next.op
			eligible = eligible[1:]

			nextInput := wire.NewTxIn(&outpoint, nil, nil)
			currentTotal += btcutil.Amount(next.amt)
			currentInputs = append(currentInputs, nextInput)
			currentScripts = append(currentScripts, next.script)
			currentInputValues = append(currentInputValues, btcutil.Amount(next.amt))
		}
		return currentTotal, currentInputs, currentInputValues, currentScripts, nil
	}
}

// constantSource replicates wallet.constantInputSource.
func constantSource(eligible []coin) txauthor.InputSource {
	currentTotal := btcutil.Amount(0)
	currentInputs := make([]*wire.TxIn, 0, len(eligible))
	currentScripts := make([][]byte, 0, len(eligible))
	currentInputValues := make([]btcutil.Amount, 0, len(eligible))
	for i := range eligible {
		op := eligible[i].op
		currentTotal += btcutil.Amount(eligible[i].amt)
		currentInputs = append(currentInputs, wire.NewTxIn(&op, nil, nil))
		currentScripts = append(currentScripts, eligible[i].script)
		currentInputValues = append(currentInputValues, btcutil.Amount(eligible[i].amt))
	}
	return func(target btcutil.Amount) (btcutil.Amount, []*wire.TxIn,
		[]btcutil.Amount, [][]byte, error) {

		return currentTotal, currentInputs, currentInputValues, currentScripts, nil
	}
}

// ---- choosers: one generator, driven by rapid or by fuzz bytes --------------

type chooser interface {
	// pick returns a value in [lo, hi] (lo when hi < lo).
	pick(label string, lo, hi int64) int64
}

type rapidChooser struct{ t *rapid.T }

func (r rapidChooser) pick(label string, lo, hi int64) int64 {
	if hi <= lo {
		return lo
	}
	return rapid.Int64Range(lo, hi).Draw(r.t, label)
}

func widthFor(span uint64) int {
	switch {
	case span <= 1<<8:
		return 1
	case span <= 1<<16:
		return 2
	case span <= 1<<32:
		return 4
	}
	return 8
}

// byteChooser decodes fuzz bytes; exhausted input yields lo.
type byteChooser struct {
	data []byte
	pos  int
}

func (b *byteChooser) pick(_ string, lo, hi int64) int64 {
	if hi <= lo {
		return lo
	}
	span := uint64(hi-lo) + 1
	var v uint64
	for i, w := 0, widthFor(span); i < w; i++ {
		v <<= 8
		if b.pos < len(b.data) {
			v |= uint64(b.data[b.pos])
			b.pos++
		}
	}
	return lo + int64(v%span)
}

// recorder produces fuzz bytes from a list of wanted choices (for the seed
// corpus): the i-th pick returns want[i] (clamped), later picks return lo.
type recorder struct {
	want []int64
	i    int
	out  []byte
}

func (r *recorder) pick(_ string, lo, hi int64) int64 {
	if hi <= lo {
		return lo
	}
	v := lo
	if r.i < len(r.want) {
		v = r.want[r.i]
		if v < lo {
			v = lo
		}
		if v > hi {
			v = hi
		}
	}
	r.i++
	span := uint64(hi-lo) + 1
	w := widthFor(span)
	var buf [8]byte
	binary.BigEndian.PutUint64(buf[:], uint64(v-lo))
	r.out = append(r.out, buf[8-w:]...)
	return v
}

// ---- generator ---------------------------------------------------------------

func hashN(tag string, i, n int) []byte {
	h := sha256.Sum256([]byte(fmt.Sprintf("verif-c07-%s-%d", tag, i)))
	return h[:n]
}

// outScript builds a requested output script of the kind; aux selects the
// script content (and the data length of an OP_RETURN).
func outScript(kind, idx int, aux int64) []byte {
	b := txscript.NewScriptBuilder()
	switch kind {
	case oP2WPKH:
		b.AddOp(txscript.OP_0).AddData(hashN("o", idx, 20))
	case oP2PKH:
		b.AddOp(txscript.OP_DUP).AddOp(txscript.OP_HASH160).AddData(hashN("o", idx, 20)).
			AddOp(txscript.OP_EQUALVERIFY).AddOp(txscript.OP_CHECKSIG)
	case oP2SH:
		b.AddOp(txscript.OP_HASH160).AddData(hashN("o", idx, 20)).AddOp(txscript.OP_EQUAL)
	case oP2WSH:
		b.AddOp(txscript.OP_0).AddData(hashN("o", idx, 32))
	case oP2TR:
		b.AddOp(txscript.OP_1).AddData(hashN("o", idx, 32))
	case oOpReturn:
		data := make([]byte, 0, 80)
		for len(data) < int(aux) {
			data = append(data, hashN("d", idx+len(data), 32)...)
		}
		s, err := txscript.NullDataScript(data[:aux])
		if err != nil {
			panic(err)
		}
		return s
	}
	s, err := b.Script()
	if err != nil {
		panic(err)
	}
	return s
}

var outDust [nOutKinds]int64 // smallest non-dust value per requested output kind

func initOutDust() {
	if outDust[oP2PKH] != 0 {
		return
	}
	for k := 0; k < oOpReturn; k++ {
		outDust[k] = dustThreshold(outScript(k, 0, 0))
	}
}

func pickExtra(ch chooser) int64 {
	switch ch.pick("xsel", 0, 4) {
	case 0:
		return 0
	case 1:
		return ch.pick("x", 0, 2)
	case 2:
		return ch.pick("x", 0, 10000)
	case 3:
		return ch.pick("x", 0, 10000000)
	}
	return ch.pick("x", 0, 100000000000)
}

func pickOpReturnValue(ch chooser) int64 {
	if ch.pick("orv", 0, 3) == 3 {
		return ch.pick("orx", 0, 1000)
	}
	return 0
}

var nOutTable = []int64{1, 2, 252, 253, 251, 254, 0}

func genOutputs(ch chooser, tc *tcase) {
	initOutDust()
	var n int
	switch s := ch.pick("nsel", 0, 11); {
	case s < 7:
		n = int(nOutTable[s])
	case s == 7:
		n = int(ch.pick("nout", 1, 6))
	case s == 8:
		n = int(ch.pick("nout", 3, 30))
	case s == 9:
		n = int(ch.pick("nout", 0, 400))
	case s == 10:
		n = int(ch.pick("nout", 245, 260))
	default:
		n = 1
	}
	omode := ch.pick("omode", 0, 2)
	var ukind int
	var uextra, uaux int64
	one := func() (int, int64, int64) {
		k := int(ch.pick("okind", 0, nOutKinds-1))
		if k == oOpReturn {
			return k, pickOpReturnValue(ch), ch.pick("orlen", 0, 80)
		}
		return k, pickExtra(ch), 0
	}
	if omode != 2 {
		ukind, uextra, uaux = one()
	}
	for i := 0; i < n; i++ {
		kind, extra, aux := ukind, uextra, uaux
		switch omode {
		case 1: // per-output kind, shared value offset
			kind = int(ch.pick("okind", 0, nOutKinds-1))
			if kind == oOpReturn {
				extra, aux = 0, ch.pick("orlen", 0, 80)
			} else if ukind == oOpReturn {
				extra = 0
			}
		case 2:
			kind, extra, aux = one()
		}
		v := extra
		if kind != oOpReturn {
			v += outDust[kind]
		}
		tc.outputs = append(tc.outputs, wire.NewTxOut(v, outScript(kind, i, aux)))
		tc.outKinds = append(tc.outKinds, kind)
	}
}

var rateTable = []int64{1000, 10000, 1001, 1999, 12345, 1000000}

func pickRate(ch chooser, refSize int) btcutil.Amount {
	var r int64
	switch s := ch.pick("rsel", 0, 8); {
	case s < 6:
		r = rateTable[s]
	case s == 6:
		r = ch.pick("rate", 1000, 5000)
	case s == 7:
		r = 1000 * ch.pick("ratek", 1, 1000)
	default:
		r = ch.pick("rate", 1000, 1000000)
	}
	// Tune the rate so that rate*size/1000 lands on (or next to) a
	// truncation boundary for the reference size.
	if tune := ch.pick("tune", 0, 3); tune > 0 && refSize > 0 {
		want := map[int64]int64{1: 0, 2: 999, 3: 1}[tune]
		for d := int64(0); d < 1000 && r+d <= 1000000; d++ {
			if ((r+d)*int64(refSize))%1000 == want {
				r += d
				break
			}
		}
	}
	return btcutil.Amount(r)
}

func pickTailAmount(ch chooser, rate btcutil.Amount) int64 {
	switch ch.pick("tsel", 0, 3) {
	case 0:
		return ch.pick("amt", 1, 600)
	case 1: // around the fee one input costs
		return ch.pick("amt", 1, 2*feeFor(rate, 150))
	case 2:
		return ch.pick("amt", 1, 1000000)
	}
	return ch.pick("amt", 1, 1000000000)
}

// genCase draws one case.  thorough additionally allows coin lists crossing
// the 252/253 input-count boundary.
func genCase(ch chooser, thorough bool) *tcase {
	pool()
	tc := &tcase{}
	tc.changeType = int(ch.pick("change", 0, nTypes-1))
	tc.constant = ch.pick("constant", 0, 1) == 1
	genOutputs(ch, tc)
	A := sumOutputs(tc.outputs)
	changeSize := scriptSizes[tc.changeType]

	// coins: count, types, keys
	var n int
	switch s := ch.pick("csel", 0, 8); s {
	case 0, 6:
		n = 1
	case 1, 2:
		n = int(s) + 1
	case 3:
		n = int(ch.pick("ncoin", 1, 8))
	case 4:
		n = int(ch.pick("ncoin", 1, 40))
	case 5:
		n = int(ch.pick("ncoin", 20, 40))
	case 7:
		n = 0
	default:
		if thorough && ch.pick("big", 0, 5) == 0 {
			n = int(ch.pick("ncoin", 250, 256))
		} else {
			n = int(ch.pick("ncoin", 2, 12))
		}
	}
	tmode := ch.pick("tmode", 0, 2)
	utype := int(ch.pick("ctype", 0, nTypes-1))
	for i := 0; i < n; i++ {
		ty := utype
		if tmode != 0 {
			ty = int(ch.pick("ctype", 0, nTypes-1))
		}
		k := int(ch.pick("ckey", 0, nCoinKeys-1))
		var op wire.OutPoint
		copy(op.Hash[:], hashN("coin", i, 32))
		op.Index = uint32(i % 3)
		tc.coins = append(tc.coins, coin{typ: ty, key: k, op: op, script: coinKeys[k].scripts[ty]})
	}

	// the prefix the amounts are aimed at
	k := n
	if n > 0 && !tc.constant {
		switch ch.pick("ksel", 0, 2) {
		case 1:
			k = 1
		case 2:
			k = int(ch.pick("k", 1, int64(n)))
		}
	}
	var mk mix
	for i := 0; i < k; i++ {
		mk.add(tc.coins[i].typ)
	}
	tc.rate = pickRate(ch, mk.est(tc.outputs, changeSize))
	if n == 0 {
		return tc
	}

	reqK := feeFor(tc.rate, mk.est(tc.outputs, changeSize))
	reqNC := feeFor(tc.rate, mk.est(tc.outputs, 0))
	f0 := feeFor(tc.rate, mix{p2wpkh: 1}.est(tc.outputs, changeSize))
	dust := dustThreshold(changeKeys[0].scripts[tc.changeType])

	if ch.pick("scen", 0, 4) == 4 {
		// unrelated amounts
		for i := range tc.coins {
			switch ch.pick("asel", 0, 2) {
			case 0:
				tc.coins[i].amt = ch.pick("amt", 1, 2*(A+reqK)/int64(n)+1)
			case 1:
				tc.coins[i].amt = pickTailAmount(ch, tc.rate)
			default:
				tc.coins[i].amt = ch.pick("amt", 1, 2*(A+reqK)+1)
			}
		}
		return tc
	}

	// amounts of the first k coins add up to outputs + a fee boundary + delta
	var base int64
	switch ch.pick("base", 0, 5) {
	case 0, 5:
		base = reqK // exact fee of the estimate with change: zero change
	case 1:
		base = reqK + dust // change just not dust
	case 2:
		base = reqNC // fee of the estimate without change
	case 3:
		base = f0 // the first guess of the loop
	default:
		base = reqK - feeFor(tc.rate, 2) // about two vbytes short
	}
	var delta int64
	switch ch.pick("dsel", 0, 11) {
	case 0:
		delta = 0
	case 1:
		delta = 1
	case 2:
		delta = -1
	case 3:
		delta = ch.pick("delta", -dust, dust)
	case 4:
		delta = dust
	case 5:
		delta = ch.pick("delta", 0, 1000000)
	case 6:
		delta = ch.pick("delta", -2*reqK, 2*reqK)
	case 7:
		delta = -dust
	case 8:
		delta = ch.pick("delta", -100, 100) * int64(tc.rate) / 1000
	case 9:
		delta = ch.pick("delta", 0, 2*dust)
	case 10:
		delta = ch.pick("delta", 0, 2*reqK)
	default:
		delta = ch.pick("delta", 0, 1000000000)
	}
	T := A + base + delta
	if T < int64(k) {
		T = int64(k)
	}
	rem := T
	smode := ch.pick("smode", 0, 1)
	for i := 0; i < k-1; i++ {
		left := int64(k - 1 - i) // coins after this one in the prefix
		max := rem - left
		var a int64
		if smode == 0 {
			share := rem / (left + 1)
			j := share / 2
			a = share + ch.pick("jit", -j, j)
		} else {
			a = ch.pick("cut", 1, max)
		}
		if a < 1 {
			a = 1
		}
		if a > max {
			a = max
		}
		tc.coins[i].amt = a
		rem -= a
	}
	tc.coins[k-1].amt = rem
	for i := k; i < n; i++ {
		tc.coins[i].amt = pickTailAmount(ch, tc.rate)
	}
	return tc
}

// ---- rendering ----------------------------------------------------------------

func render(tc *tcase) string {
	var b strings.Builder
	src := "incremental"
	if tc.constant {
		src = "constant"
	}
	fmt.Fprintf(&b, "rate=%d sat/kvB change=%s source=%s\n", int64(tc.rate), typeNames[tc.changeType], src)
	fmt.Fprintf(&b, "outputs n=%d sum=%d:", len(tc.outputs), sumOutputs(tc.outputs))
	for i := 0; i < len(tc.outputs); {
		j := i
		for j < len(tc.outputs) && tc.outKinds[j] == tc.outKinds[i] &&
			tc.outputs[j].Value == tc.outputs[i].Value &&
			len(tc.outputs[j].PkScript) == len(tc.outputs[i].PkScript) {
			j++
		}
		fmt.Fprintf(&b, " %dx(%s,%d", j-i, outKindNames[tc.outKinds[i]], tc.outputs[i].Value)
		if tc.outKinds[i] == oOpReturn {
			fmt.Fprintf(&b, ",len%d", len(tc.outputs[i].PkScript))
		}
		b.WriteString(")")
		i = j
	}
	fmt.Fprintf(&b, "\ncoins n=%d:", len(tc.coins))
	for _, c := range tc.coins {
		fmt.Fprintf(&b, " %s/k%d=%d", typeNames[c.typ], c.key, c.amt)
	}
	return b.String()
}

// C02 - reorgs converge: state depends on the surviving facts, not on the path.
package c02

import (
	"os"
	"testing"

	"github.com/btcsuite/btcwallet/walletdb"
	"pgregory.net/rapid"

	"verifharness/internal/evid"
	"verifharness/internal/known"
	"verifharness/internal/txsim"
)

func cfg() txsim.Config {
	max, maxTx := 40, 12
	if os.Getenv("VERIF_TIER") == "thorough" {
		max, maxTx = 100, 16
	}
	return txsim.Config{
		Prop: "C02",
		Weights: map[string]int{"announce": 5, "mine": 7, "advance": 1, "rollback": 5, "abandon": 1,
			"redeliver": 1, "reopen": 1},
		MinSteps: 6, MaxSteps: max,
		Universe: txsim.UniverseOpts{MinTx: 4, MaxTx: maxTx},
		KnownF4:  known.Open("F4"),
	}
}

func TestC02ReorgConvergence(t *testing.T) {
	g := evid.G("TestC02ReorgConvergence")
	rapid.Check(t, func(t *rapid.T) {
		c := g.Begin()
		defer c.End()
		s := txsim.NewSim(t, cfg(), c)
		defer s.Close()
		events := 0
		s.Run(t, nil, func() {
			events++
			// explicit sub-claims after every event
			s.View(func(ns walletdb.ReadBucket) { s.CheckC02Explicit(ns, "after-event") })
		})
		// metamorphic: history vs. direct construction of its final facts
		var facts txsim.Facts
		var hist txsim.Snapshot
		s.View(func(ns walletdb.ReadBucket) {
			facts = s.ReadFacts(ns)
			hist = s.TakeSnapshot(s.Store, ns)
		})
		direct, n := s.DirectConstruction(facts)
		if d := hist.Diff(direct); d != "" {
			s.Violation("the store after the history differs from the direct construction of the same final facts (%d inserts):\n%s", n, d)
		}
		if s.NRollback > 0 {
			c.Class("rollback")
		}
		if s.NReconfirm > 0 {
			c.Class("rollback-then-reconfirmed")
		}
		if s.NConflictRemoved > 0 {
			c.Class("conflict-removal")
		}
		if s.NRollbackCreditAndSpender > 0 {
			c.Class("rollback-of-block-with-credit-and-spender")
		}
		if s.NCoinbaseDescRemoved > 0 {
			c.Class("coinbase-descendant-removed")
		}
		if s.L.F4Hits > 0 {
			g.KnownHit("F4")
		}
		if (s.NRollback > 0 && s.NReconfirm > 0) || c.Has("conflict-loser-with-descendant") {
			if n != events {
				c.NonTrivial()
			}
		}
	})
}

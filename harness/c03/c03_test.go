// C03 - every issued address is the seed's BIP32 child and the wallet can sign for it.
package c03

import (
	"os"
	"testing"
	"verifharness/internal/watchdog"

	"pgregory.net/rapid"

	"verifharness/internal/evid"
	"verifharness/internal/mgrsim"
)

var weights = map[string]int{
	"next": 8, "extend": 4, "lookup": 4, "derivePath": 3, "markUsed": 3, "lock": 3, "unlock": 4, "changePass": 1,
	"newAccount": 2, "newWOAcct": 2, "rename": 1, "invalidate": 1, "importKey": 2, "importScript": 1, "importPubKey": 1, "newScope": 1, "restart": 2,
}

func TestC03Addresses(t *testing.T) {
	g := evid.G("TestC03Addresses")
	maxSteps := 25
	if os.Getenv("VERIF_TIER") == "thorough" {
		maxSteps = 50
	}
	rapid.Check(t, func(t *rapid.T) {
		watchdog.Case(t, "C03", g, func(c *evid.Case) {
			m := mgrsim.New(t, "C03", c)
			defer m.Close()
			m.Run(t, weights, 4, maxSteps, 12, func(op string) {
				m.CheckAllIssued("after " + op)
			})
			classify(m, c)
		})
	})
}

func classify(m *mgrsim.Machine, c *evid.Case) {
	branches := map[[4]uint32]bool{}
	for _, is := range m.Issued {
		branches[[4]uint32{is.Acct.Scope.Purpose, is.Acct.Scope.Coin, is.Acct.Num, is.Branch}] = true
	}
	for _, k := range []string{"restart", "extended", "extended-while-unlocked", "imported-account", "issued-while-locked", "custom-scope", "import-key",
		"import-script", "new-account", "passphrase-change", "mark-used", "privkey-ok", "privkey-refused"} {
		if m.N[k] > 0 {
			c.Class(k)
		}
	}
	lockIssueUnlock := m.N["issued-while-locked"] > 0 && m.N["unlock"] > 0
	if lockIssueUnlock {
		c.Class("issued-locked-then-unlocked")
	}
	if len(m.Issued) >= 3 && len(branches) >= 2 && (m.N["restart"] > 0 || lockIssueUnlock || m.N["extended"] > 0 || m.N["imported-account"] > 0) {
		c.NonTrivial()
	}
}

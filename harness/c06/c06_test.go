// C06 - created transactions spend only eligible own coins, once, with valid signatures.
package c06

import (
	"bytes"
	"fmt"
	"github.com/btcsuite/btcd/btcutil/hdkeychain"
	"os"
	"sort"
	"testing"
	"time"

	"github.com/btcsuite/btcd/btcutil"
	"github.com/btcsuite/btcd/btcutil/psbt"
	"github.com/btcsuite/btcd/chaincfg/chainhash"
	"github.com/btcsuite/btcd/txscript"
	"github.com/btcsuite/btcd/wire"
	"github.com/btcsuite/btcwallet/waddrmgr"
	"github.com/btcsuite/btcwallet/wallet"
	"github.com/btcsuite/btcwallet/wtxmgr"
	"github.com/lightningnetwork/lnd/clock"
	"pgregory.net/rapid"

	"verifharness/internal/evid"
	"verifharness/internal/walletsim"
)

type run struct {
	// cross: account number N exists as a derived account in scope A and as an
	// imported extended-public-key (watch-only) account in scope B
	cross   *crossScope
	imports bool // some coins belong to imported keys
	*walletsim.Scenario
	published                    map[wire.OutPoint]chainhash.Hash // inputs of transactions the wallet published
	nOK, nRefusedExplicit, nFail int
	clk                          *clock.TestClock
	expiries                     map[wire.OutPoint]time.Time
}

func (r *run) history(t *rapid.T) {
	s := r.Scenario
	// a coinbase paying the wallet, whose maturity boundary is hit later
	cbTo := s.Book.List[rapid.IntRange(0, len(s.Book.List)-1).Draw(t, "cbTo")]
	s.Mine(1, []*wire.MsgTx{s.FundingTx(3), s.FundingTx(2)}, cbTo)
	cbHeight := s.F.Chain.Tip().Height
	steps := rapid.IntRange(3, 10).Draw(t, "historySteps")
	for i := 0; i < steps; i++ {
		switch rapid.SampledFrom([]string{"fund-mempool", "fund-mined", "mine", "wallet-spend", "foreign-spend", "reorg", "lock", "lease", "lease", "clock"}).Draw(t, "hist") {
		case "clock":
			// the store's clock moves (build-tagged setter): leases whose expiry is reached end
			d := time.Duration(rapid.SampledFrom([]int{1, 59, 60, 61, 119, 120, 600}).Draw(t, "advanceMin")) * time.Minute
			now := r.clk.Now().Add(d)
			r.clk.SetTime(now)
			for op, exp := range r.expiries {
				if !now.Before(exp) {
					delete(s.Leased, op)
					delete(r.expiries, op)
					s.C.Class("lease-expired-by-clock")
				}
			}
			s.C.Logf("clock +%v", d)
		case "fund-mempool":
			tx := s.FundingTx(rapid.IntRange(1, 3).Draw(t, "nOuts"))
			s.F.Chain.AddToMempool(tx)
			s.C.Logf("unconfirmed funding %s", tx.TxHash().String()[:8])
			s.F.Quiesce()
		case "fund-mined":
			s.Mine(1, []*wire.MsgTx{s.FundingTx(rapid.IntRange(1, 3).Draw(t, "nOuts"))}, nil)
		case "mine":
			s.Mine(rapid.IntRange(1, 3).Draw(t, "n"), nil, nil)
		case "wallet-spend":
			r.request(t, "send", true)
		case "foreign-spend":
			var cands []*walletsim.Coin
			for _, co := range s.Book.Coins(s.F.Chain) {
				if co.SpentBy == nil && !(co.Coinbase) {
					cands = append(cands, co)
				}
			}
			if len(cands) == 0 {
				continue
			}
			co := cands[rapid.IntRange(0, len(cands)-1).Draw(t, "foreignWhich")]
			tx := wire.NewMsgTx(2)
			op := co.OutPoint
			tx.AddTxIn(wire.NewTxIn(&op, nil, nil))
			tx.AddTxOut(wire.NewTxOut(co.Value-300, s.ExternalScript()))
			if rapid.Bool().Draw(t, "foreignMined") {
				s.Mine(1, []*wire.MsgTx{tx}, nil)
			} else {
				s.F.Chain.AddToMempool(tx)
				s.F.Quiesce()
			}
			s.C.Logf("another spender of the same keys spends %s:%d", op.Hash.String()[:8], op.Index)
		case "reorg":
			d := rapid.IntRange(1, 2).Draw(t, "depth")
			for k := 0; k < d; k++ {
				s.F.Chain.DisconnectTip()
			}
			s.C.Logf("reorg depth %d", d)
			s.Mine(d+rapid.IntRange(0, 1).Draw(t, "extra"), nil, nil)
		case "lock":
			cs := s.Book.Coins(s.F.Chain)
			if len(cs) == 0 {
				continue
			}
			co := cs[rapid.IntRange(0, len(cs)-1).Draw(t, "lockWhich")]
			if s.Locked[co.OutPoint] {
				s.F.W.UnlockOutpoint(co.OutPoint)
				delete(s.Locked, co.OutPoint)
				s.C.Logf("unlock outpoint %s:%d", co.OutPoint.Hash.String()[:8], co.OutPoint.Index)
			} else {
				s.F.W.LockOutpoint(co.OutPoint)
				s.Locked[co.OutPoint] = true
				s.C.Logf("lock outpoint %s:%d", co.OutPoint.Hash.String()[:8], co.OutPoint.Index)
			}
		case "lease":
			var cands []*walletsim.Coin
			for _, co := range s.Book.Coins(s.F.Chain) {
				if !co.SpentInChain {
					cands = append(cands, co)
				}
			}
			if len(cands) == 0 {
				continue
			}
			co := cands[rapid.IntRange(0, len(cands)-1).Draw(t, "leaseWhich")]
			id := wtxmgr.LockID{byte(rapid.IntRange(1, 2).Draw(t, "leaseID"))}
			if cur, ok := s.Leased[co.OutPoint]; ok && cur == id && rapid.Bool().Draw(t, "release") {
				if err := s.F.W.ReleaseOutput(id, co.OutPoint); err != nil {
					s.F.Violation("ReleaseOutput of own lease failed: %v", err)
				}
				delete(s.Leased, co.OutPoint)
				delete(r.expiries, co.OutPoint)
				s.C.Logf("release lease on %s:%d", co.OutPoint.Hash.String()[:8], co.OutPoint.Index)
				continue
			}
			dur := time.Duration(rapid.SampledFrom([]int{60, 120}).Draw(t, "leaseMin")) * time.Minute
			exp, err := s.F.W.LeaseOutput(id, co.OutPoint, dur)
			if cur, ok := s.Leased[co.OutPoint]; ok && cur != id {
				if err == nil {
					s.F.Violation("LeaseOutput under a second identifier succeeded on %v", co.OutPoint)
				}
				continue
			}
			if err != nil {
				s.F.Violation("LeaseOutput(%v) failed: %v", co.OutPoint, err)
			}
			s.Leased[co.OutPoint] = id
			if !exp.Equal(r.clk.Now().Add(dur)) {
				s.F.Violation("LeaseOutput returned expiry %v, expected now+%v = %v", exp, dur, r.clk.Now().Add(dur))
			}
			r.expiries[co.OutPoint] = time.Unix(exp.Unix(), 0)
			s.C.Logf("lease %s:%d for %v", co.OutPoint.Hash.String()[:8], co.OutPoint.Index, dur)
		}
	}
	// bring the coinbase to its maturity boundary
	want := int32(rapid.IntRange(98, 102).Draw(t, "coinbaseConfs"))
	have := s.F.Chain.Tip().Height - cbHeight + 1
	if want > have {
		s.Mine(int(want-have), nil, nil)
	}
	s.C.Logf("coinbase at %d has %d confirmations", cbHeight, s.F.Chain.Tip().Height-cbHeight+1)
}

type crossScope struct {
	a, b waddrmgr.KeyScope
	num  uint32
}

// setupCrossScope creates account N in BIP84 and imports an extended public
// key as account N of BIP86, and gives the derived account receiving addresses.
func (r *run) setupCrossScope() {
	s := r.Scenario
	a, b := waddrmgr.KeyScopeBIP0084, waddrmgr.KeyScopeBIP0086
	num, err := s.F.W.NextAccount(a, "crossa")
	if err != nil {
		s.F.Violation("NextAccount failed: %v", err)
	}
	seed2 := make([]byte, 32)
	seed2[0], seed2[1] = 0x6c, 0x06
	root, _ := hdkeychain.NewMaster(seed2, s.F.Params)
	k, _ := root.Derive(hdkeychain.HardenedKeyStart + 86)
	k, _ = k.Derive(hdkeychain.HardenedKeyStart + 1)
	k, _ = k.Derive(hdkeychain.HardenedKeyStart + 7)
	pub, _ := k.Neuter()
	pub, err = pub.CloneWithVersion([]byte{0x04, 0x5f, 0x1c, 0xf6}) // vpub
	if err != nil {
		s.F.Inconclusive("CloneWithVersion: %v", err)
	}
	at := waddrmgr.TaprootPubKey
	props, err := s.F.W.ImportAccount("crossb", pub, 0x0a0b0c0d, &at)
	if err != nil {
		s.F.Violation("ImportAccount failed: %v", err)
	}
	if props.KeyScope != b || props.AccountNumber != num {
		// the numbers did not line up: no cross-scope requests in this case
		s.C.Logf("imported account is %v/%d, derived one %v/%d", props.KeyScope, props.AccountNumber, a, num)
		return
	}
	for i := 0; i < 2; i++ {
		addr, err := s.F.W.NewAddress(num, a)
		if err != nil {
			s.F.Violation("NewAddress(%d, %v) failed: %v", num, a, err)
		}
		s.Book.Add(&walletsim.OwnAddr{Addr: addr, Scope: a, Account: num, Branch: 0})
	}
	r.cross = &crossScope{a: a, b: b, num: num}
	s.C.Logf("account %d is a derived account in %v and an imported watch-only account in %v", num, a, b)
	s.C.Class("same-account-number-derived-and-watch-only")
}

// request issues one transaction-creation request and checks the result.
func (r *run) request(t *rapid.T, kind string, small bool) {
	s := r.Scenario
	s.F.Quiesce()
	var q walletsim.EligibleQuery
	if rapid.IntRange(0, 3).Draw(t, "anyScope") == 0 {
		q.Scope = nil
	} else {
		sc := waddrmgr.DefaultKeyScopes[rapid.IntRange(0, 3).Draw(t, "scope")]
		q.Scope = &sc
	}
	q.Account = uint32(rapid.IntRange(0, 1).Draw(t, "account"))
	if r.imports && rapid.IntRange(0, 3).Draw(t, "fromImportedAccount") == 0 {
		q.Account = waddrmgr.ImportedAddrAccount
	}
	var customChange *waddrmgr.KeyScope
	if kind == "create-cross-scope" {
		if r.cross == nil {
			return
		}
		a, b := r.cross.a, r.cross.b
		q.Scope, q.Account, customChange = &a, r.cross.num, &b
		kind = "create"
		s.C.Class("change-scope-differs-from-coin-scope")
	}
	q.MinConf = int32(rapid.SampledFrom([]int{0, 0, 1, 1, 2, 3, 99, 100, 101}).Draw(t, "minconf"))
	rate := btcutil.Amount(rapid.SampledFrom([]int{1000, 1000, 2500, 10_000, 50_000, 500_000}).Draw(t, "feeRate"))
	var strategy wallet.CoinSelectionStrategy = wallet.CoinSelectionLargest
	if rapid.Bool().Draw(t, "randomSelection") {
		strategy = wallet.CoinSelectionRandom
	}
	eligible := s.Eligible(q)
	var total int64
	for _, co := range eligible {
		total += co.Value
	}
	nOut := rapid.IntRange(1, 5).Draw(t, "nOutputs")
	if small {
		nOut = 1
	}
	var outputs []*wire.TxOut
	budget := total / 2
	if rapid.IntRange(0, 5).Draw(t, "overspend") == 0 {
		budget = total * 2
	}
	if budget < 2000*int64(nOut) {
		budget = 2000 * int64(nOut)
	}
	for i := 0; i < nOut; i++ {
		outputs = append(outputs, wire.NewTxOut(1000+budget/int64(nOut)/int64(1+rapid.IntRange(0, 3).Draw(t, "split")), s.ExternalScript()))
	}
	// explicit selection
	var explicit []wire.OutPoint
	explicitBad := false
	if kind == "send-with-input" || kind == "create-with-utxos" {
		all := s.Book.Coins(s.F.Chain)
		n := rapid.IntRange(1, 3).Draw(t, "nExplicit")
		for i := 0; i < n && len(all) > 0; i++ {
			switch rapid.IntRange(0, 5).Draw(t, "explicitKind") {
			case 0: // foreign outpoint
				explicit = append(explicit, wire.OutPoint{Hash: chainhash.Hash{0xee, byte(i)}, Index: 1})
				explicitBad = true
			case 1: // any coin, possibly ineligible
				co := all[rapid.IntRange(0, len(all)-1).Draw(t, "anyCoin")]
				explicit = append(explicit, co.OutPoint)
				if eligible[co.OutPoint] == nil {
					explicitBad = true
				}
			default:
				var keys []wire.OutPoint
				for op := range eligible {
					keys = append(keys, op)
				}
				if len(keys) == 0 {
					continue
				}
				sort.Slice(keys, func(a, b int) bool { return keys[a].String() < keys[b].String() })
				explicit = append(explicit, keys[rapid.IntRange(0, len(keys)-1).Draw(t, "eligibleCoin")])
			}
		}
		if len(explicit) > 0 && rapid.IntRange(0, 5).Draw(t, "duplicateExplicit") == 0 {
			explicit = append(explicit, explicit[0])
			s.C.Class("explicit-selection-with-duplicate")
		}
		if len(explicit) == 0 {
			kind = "create"
		}
	}
	scopeStr := "any"
	if q.Scope != nil {
		scopeStr = q.Scope.String()
	}
	before := r.snapshot()
	var tx *wire.MsgTx
	var err error
	var prevFromWallet map[wire.OutPoint]bool
	signed := true
	published := false
	dryRun := false // the request's database transaction is rolled back
	// The wallet treats the imported-address account as one without private
	// keys (IsWatchOnlyAccount: "TODO: actually check whether it does"), so what
	// it creates from that account is a watch-only result: unsigned. Such a
	// request is therefore never sent (a node would refuse the unsigned
	// transaction; the model backend does not verify scripts).
	fromImported := q.Account == waddrmgr.ImportedAddrAccount
	if fromImported {
		switch kind {
		case "send":
			kind = "create"
		case "send-with-input":
			kind = "create-with-utxos"
		}
	}
	switch kind {
	case "create", "create-with-utxos":
		dry := rapid.Bool().Draw(t, "dryRun")
		dryRun = dry
		var opts []wallet.TxCreateOption
		if len(explicit) > 0 {
			opts = append(opts, wallet.WithCustomSelectUtxos(explicit))
		}
		if customChange != nil {
			opts = append(opts, wallet.WithCustomChangeScope(customChange))
		}
		var atx interface{}
		res, e := s.F.W.CreateSimpleTx(q.Scope, q.Account, outputs, q.MinConf, rate, strategy, dry, opts...)
		_ = atx
		err = e
		if e == nil {
			tx = res.Tx
			signed = !dry
		}
		kind = fmt.Sprintf("%s(dry=%v)", kind, dry)
	case "send":
		tx, err = s.F.W.SendOutputs(outputs, q.Scope, q.Account, q.MinConf, rate, strategy, "c06")
		published = err == nil
	case "send-with-input":
		tx, err = s.F.W.SendOutputsWithInput(outputs, q.Scope, q.Account, q.MinConf, rate, strategy, "c06", explicit)
		published = err == nil
	case "fund-psbt":
		pkt, e := psbt.New(nil, outputs, 2, 0, nil)
		if e != nil {
			s.F.Inconclusive("psbt.New: %v", e)
		}
		_, err = s.F.W.FundPsbt(pkt, q.Scope, q.MinConf, q.Account, rate, strategy)
		if err == nil {
			tx = pkt.UnsignedTx
			signed = false
			// the funded packet is the unsigned result; letting the wallet
			// finalize it yields the signed one
			// (FinalizePsbt signs witness inputs only: for a P2PKH input it
			// returns nil and leaves a witness on a non-witness input - noted
			// as an observation in DESIGN.md, FinalizePsbt is not one of the
			// statement's entry points - so packets spending BIP44 coins are
			// not finalized here)
			legacy := false
			for _, in := range pkt.UnsignedTx.TxIn {
				if co, ok := eligible[in.PreviousOutPoint]; ok && co.Own.Scope == waddrmgr.KeyScopeBIP0044 {
					legacy = true
				}
			}
			if !legacy && !fromImported && rapid.Bool().Draw(t, "finalize") {
				if ferr := s.F.W.FinalizePsbt(q.Scope, q.Account, pkt); ferr != nil {
					s.F.Violation("FinalizePsbt of the packet FundPsbt just funded failed: %v", ferr)
				}
				ftx, xerr := psbt.Extract(pkt)
				if xerr != nil {
					s.F.Violation("the finalized packet cannot be extracted: %v", xerr)
				}
				tx = ftx
				signed = true
				s.C.Class("fund-psbt-finalized")
			}
		}
	}
	_ = prevFromWallet
	s.C.Logf("request %s scope=%s acct=%d minconf=%d rate=%d outputs=%d explicit=%v(bad=%v) eligible=%d/total %d -> err=%v", kind, scopeStr, q.Account, q.MinConf,
		rate, len(outputs), len(explicit), explicitBad, len(eligible), total, err)
	if err != nil {
		r.nFail++
		if explicitBad {
			r.nRefusedExplicit++
		}
		// a refused request leaves no trace
		s.F.Quiesce()
		if after := r.snapshot(); after != before {
			s.F.Violation("a refused %s request changed the wallet:\n before: %s\n after:  %s", kind, before, after)
		}
		return
	}
	if explicitBad {
		s.F.Violation("%s succeeded although the explicit selection %v contains an outpoint that is not eligible (eligible: %v)", kind, explicit, keysOf(eligible))
	}
	// ---- the result ---------------------------------------------------------------
	seen := map[wire.OutPoint]bool{}
	prevScripts := map[wire.OutPoint]*wire.TxOut{}
	for _, in := range tx.TxIn {
		op := in.PreviousOutPoint
		if seen[op] {
			s.F.Violation("%s: outpoint %v is used twice in one transaction", kind, op)
		}
		seen[op] = true
		co, ok := eligible[op]
		if !ok {
			s.F.Violation("%s: input %v is not eligible for scope=%s account=%d minconf=%d (tip %d); why: %s", kind, op, scopeStr, q.Account, q.MinConf,
				s.F.Chain.Tip().Height, r.why(op, q))
		}
		if h, ok := r.published[op]; ok {
			s.F.Violation("%s: input %v was already spent by published transaction %v", kind, op, h)
		}
		prevScripts[op] = wire.NewTxOut(co.Value, co.Own.Script)
	}
	if len(explicit) > 0 {
		// explicitly selected inputs are the inputs
		want := map[wire.OutPoint]bool{}
		for _, op := range explicit {
			want[op] = true
		}
		for op := range seen {
			if !want[op] {
				s.F.Violation("%s: input %v was not among the explicitly selected ones %v", kind, op, explicit)
			}
		}
	}
	// requested outputs present unchanged
	for _, o := range outputs {
		found := false
		for _, to := range tx.TxOut {
			if to.Value == o.Value && bytes.Equal(to.PkScript, o.PkScript) {
				found = true
			}
		}
		if !found {
			s.F.Violation("%s: requested output %d sat to %x is missing from the transaction", kind, o.Value, o.PkScript)
		}
	}
	if fromImported {
		signed = false
	}
	if signed {
		fetcher := txscript.NewMultiPrevOutFetcher(prevScripts)
		hashes := txscript.NewTxSigHashes(tx, fetcher)
		for i, in := range tx.TxIn {
			po := prevScripts[in.PreviousOutPoint]
			vm, e := txscript.NewEngine(po.PkScript, tx, i, txscript.StandardVerifyFlags, nil, hashes, po.Value, fetcher)
			if e == nil {
				e = vm.Execute()
			}
			if e != nil {
				s.F.Violation("%s: input %d (%v, %v) does not verify under standard script rules: %v", kind, i, in.PreviousOutPoint, eligible[in.PreviousOutPoint].Own.Scope, e)
			}
		}
		s.C.Class("signed-result-verified")
	}
	// register change addresses the wallet created - not those of a dry run:
	// its transaction is rolled back, the address was never issued (the
	// running manager still finds it in its cache, the database does not have
	// it), and nobody could pay it
	for _, to := range tx.TxOut {
		if dryRun {
			break
		}
		if _, ok := s.Book.ByScript[string(to.PkScript)]; ok {
			continue
		}
		_, addrs, _, e := txscript.ExtractPkScriptAddrs(to.PkScript, s.F.Params)
		if e != nil || len(addrs) != 1 {
			continue
		}
		ma, e := s.F.W.AddressInfo(addrs[0])
		if e != nil {
			continue
		}
		own := &walletsim.OwnAddr{Addr: addrs[0], Account: ma.InternalAccount(), Branch: 1}
		if pk, ok := ma.(waddrmgr.ManagedPubKeyAddress); ok {
			sc, _, _ := pk.DerivationInfo()
			own.Scope = sc
		}
		s.Book.Add(own)
		s.C.Class("change-output")
	}
	if published {
		for op := range seen {
			r.published[op] = tx.TxHash()
		}
		if !s.F.Chain.InMempool(tx.TxHash()) {
			s.F.Violation("%s returned success but the transaction was not handed to the backend", kind)
		}
		s.F.Quiesce()
	}
	kinds := s.IneligibleKinds(q)
	if len(kinds) >= 2 && len(eligible) > 0 {
		s.C.Class("result-with->=2-kinds-of-ineligible-coins")
		s.C.NonTrivial()
	}
	for k := range kinds {
		s.C.Class("ineligible:" + k)
	}
	types := map[waddrmgr.KeyScope]bool{}
	for op := range seen {
		types[eligible[op].Own.Scope] = true
	}
	for sc := range types {
		s.C.Class("spent-from:" + sc.String())
	}
	if q.Account == waddrmgr.ImportedAddrAccount {
		s.C.Class("spent-from-the-imported-address-account")
	}
	r.nOK++
}

// republish hands one of the transactions published earlier to the wallet again.
func (r *run) republish(t *rapid.T) {
	s := r.Scenario
	var cands []*wire.MsgTx
	seen := map[chainhash.Hash]bool{}
	for _, h := range r.published {
		if seen[h] {
			continue
		}
		seen[h] = true
		if tx := s.F.Chain.LookupTx(h); tx != nil && s.F.Chain.InMempool(h) {
			cands = append(cands, tx)
		}
	}
	if len(cands) == 0 {
		return
	}
	sort.Slice(cands, func(i, j int) bool { return cands[i].TxHash().String() < cands[j].TxHash().String() })
	tx := cands[rapid.IntRange(0, len(cands)-1).Draw(t, "republishWhich")]
	err := s.F.W.PublishTransaction(tx, "")
	s.C.Logf("PublishTransaction(%s) again -> %v", tx.TxHash().String()[:8], err)
	if err != nil {
		s.F.Violation("publishing %v a second time (backend: already in mempool) failed: %v", tx.TxHash(), err)
	}
	s.F.Quiesce()
	s.C.Class("published-transaction-offered-again")
}

func (r *run) why(op wire.OutPoint, q walletsim.EligibleQuery) string {
	for _, co := range r.Book.Coins(r.F.Chain) {
		if co.OutPoint == op {
			confs := int32(0)
			if co.Block != nil {
				confs = r.F.Chain.Tip().Height - co.Block.Height + 1
			}
			_, leased := r.Leased[op]
			return fmt.Sprintf("own coin scope=%v account=%d confs=%d coinbase=%v spentBy=%v locked=%v leased=%v", co.Own.Scope, co.Own.Account, confs, co.Coinbase,
				co.SpentBy, r.Locked[op], leased)
		}
	}
	return "not an output paying the wallet"
}

func keysOf(m map[wire.OutPoint]*walletsim.Coin) []string {
	var out []string
	for k := range m {
		out = append(out, fmt.Sprintf("%s:%d", k.Hash.String()[:8], k.Index))
	}
	sort.Strings(out)
	return out
}

// snapshot renders what a refused request must leave unchanged.
func (r *run) snapshot() string {
	b0, _ := r.F.W.CalculateBalance(0)
	b1, _ := r.F.W.CalculateBalance(1)
	un, _ := r.F.W.ListUnspent(0, 9999999, "")
	var ops []string
	for _, u := range un {
		ops = append(ops, fmt.Sprintf("%s:%d", u.TxID[:8], u.Vout))
	}
	sort.Strings(ops)
	return fmt.Sprintf("balance0=%d balance1=%d unspent=%v mempool=%d", b0, b1, ops, len(r.F.Chain.Mempool()))
}

func TestC06EligibleInputs(t *testing.T) {
	g := evid.G("TestC06EligibleInputs")
	maxReq := 6
	if os.Getenv("VERIF_TIER") == "thorough" {
		maxReq = 12
	}
	rapid.Check(t, func(t *rapid.T) {
		c := g.Begin()
		defer c.End()
		s := walletsim.NewScenario(t, "C06", c, 5, 1)
		defer s.F.Close()
		// in a third of the cases some coins belong to imported keys (the
		// imported-address account of their scope)
		if rapid.IntRange(0, 2).Draw(t, "withImportedKeys") == 0 {
			s.ImportKeys(rapid.IntRange(1, 3).Draw(t, "nImported"))
		}
		hasImports := s.C != nil && len(s.Accounts) > 0 && func() bool {
			for _, as := range s.Accounts {
				for _, a := range as {
					if a == waddrmgr.ImportedAddrAccount {
						return true
					}
				}
			}
			return false
		}()
		r := &run{Scenario: s, imports: hasImports, published: map[wire.OutPoint]chainhash.Hash{}, expiries: map[wire.OutPoint]time.Time{},
			clk: clock.NewTestClock(time.Unix(1_750_000_000, 0))}
		s.F.W.TxStore.VerifSetClock(r.clk)
		if rapid.IntRange(0, 3).Draw(t, "crossScopeAccounts") == 0 {
			r.setupCrossScope()
		}
		r.history(t)
		n := rapid.IntRange(1, maxReq).Draw(t, "nRequests")
		for i := 0; i < n; i++ {
			kind := rapid.SampledFrom([]string{"create", "create", "send", "send", "send-with-input", "create-with-utxos", "fund-psbt", "create-cross-scope"}).Draw(t, "request")
			r.request(t, kind, false)
			// a published transaction may be handed to the backend again, by the
			// user or by the wallet itself when the connection comes back; the
			// backend then answers that it already has it
			switch rapid.IntRange(0, 5).Draw(t, "again") {
			case 0:
				r.republish(t)
			case 1:
				s.F.Connect()
				s.F.Quiesce()
				s.C.Logf("backend connection re-established (unconfirmed transactions are offered again)")
				s.C.Class("resync-between-requests")
			}
		}
		if r.nOK > 0 {
			c.Class("some-request-succeeded")
		}
		if r.nRefusedExplicit > 0 {
			c.Class("ineligible-explicit-selection-refused")
		}
		if r.nFail > 0 {
			c.Class("some-request-refused")
		}
	})
}

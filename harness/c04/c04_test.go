// C04 - no secret ever reaches the database file unencrypted.
package c04

import (
	"bytes"
	"fmt"
	"os"
	"sort"
	"strings"
	"testing"
	"verifharness/internal/watchdog"

	"github.com/btcsuite/btcwallet/walletdb"
	"pgregory.net/rapid"

	"verifharness/internal/evid"
	"verifharness/internal/mgrsim"
)

// canaries are clear-text names the address manager's database always
// contains (top-level namespace, bucket and key names of waddrmgr/db.go). A
// scan that does not find them looked at the wrong bytes.
var canaries = [][]byte{[]byte("waddrmgr"), []byte("mpub"), []byte("cpub"), []byte("acctnameidx"), []byte("addracctidx")}

type image struct {
	commit int
	data   []byte
}

// fileScanner reads the database FILE after every commit and searches the
// images for every needle known once the committing operation has returned.
type fileScanner struct {
	g        *evid.Group
	c        *evid.Case
	prop     string
	fail     func(format string, args ...interface{})
	path     string
	set      *mgrsim.NeedleSet
	pending  []image
	commits  int
	scanned  int
	bytes    int64
	maxFile  int
	lastOp   string
	readErrs []error
}

// capture is the proxydb.AfterCommit callback.
func (s *fileScanner) capture() {
	s.commits++
	data, err := os.ReadFile(s.path)
	if err != nil {
		s.readErrs = append(s.readErrs, err)
		return
	}
	s.pending = append(s.pending, image{s.commits, data})
}

// flush scans the pending images (all needles: this check never records a
// transaction, so the public material must be hidden throughout).
func (s *fileScanner) flush(op string) {
	if len(s.readErrs) > 0 {
		s.fail("INCONCLUSIVE: reading the database file %s failed: %v", s.path, s.readErrs[0])
	}
	for _, im := range s.pending {
		for _, cn := range canaries {
			if !bytes.Contains(im.data, cn) {
				s.fail("INCONCLUSIVE: the clear-text name %q is not in the %d bytes read from %s after commit #%d: wrong file scanned?", cn, len(im.data), s.path, im.commit)
			}
		}
		s.scanned++
		s.bytes += int64(len(im.data))
		if len(im.data) > s.maxFile {
			s.maxFile = len(im.data)
		}
		if n, off := s.set.Scan(im.data, nil); n != nil {
			s.fail("%s VIOLATED: %s found in the database file at offset %d (page %d) after commit #%d (op %s); %d needles searched in %d bytes\n--- history ---\n%s",
				s.prop, n, off, off/4096, im.commit, op, len(s.set.List), len(im.data), s.c.Text())
		}
	}
	s.pending = s.pending[:0]
}

var weights = map[string]int{
	"next": 6, "extend": 2, "derivePath": 2, "lookup": 2, "markUsed": 1, "newAccount": 5, "newWOAcct": 2, "importKey": 4, "importScript": 3, "importTapScript": 2,
	"changePass": 3, "lock": 2, "unlock": 3, "unlockRight": 4, "restart": 2, "newScope": 3, "rename": 1, "setSynced": 1,
}

// after conversion to watching-only: the operations the model covers there
var weightsWatchOnly = map[string]int{
	"next": 4, "extend": 1, "derivePath": 1, "lookup": 2, "markUsed": 1, "importKey": 3, "changePass": 2, "lock": 1, "unlock": 2, "restart": 2, "newWOAcct": 1,
}

func opTable(t *rapid.T, m *mgrsim.Machine, set *mgrsim.NeedleSet, secretTapscripts bool) map[string]func() {
	return map[string]func(){
		"next":         func() { m.OpNext(t, mgrsim.Commit) },
		"extend":       func() { m.OpExtend(t) },
		"lookup":       func() { m.OpLookup(t) },
		"derivePath":   func() { m.OpDerivePath(t) },
		"markUsed":     func() { m.OpMarkUsed(t) },
		"lock":         func() { m.OpLock(t) },
		"unlock":       func() { m.OpUnlock(t) },
		"changePass":   func() { m.OpChangePassLong(t) },
		"newAccount":   func() { m.OpNewAccount(t, mgrsim.Commit) },
		"newWOAcct":    func() { m.OpNewWatchOnlyAccount(t, mgrsim.Commit) },
		"rename":       func() { m.OpRename(t) },
		"importKey":    func() { m.OpImportKey(t) },
		"importScript": func() { m.OpImportScript(t) },
		"setSynced":    func() { m.OpSetSyncedTo(t, mgrsim.Commit) },
		"newScope":     func() { m.OpNewScope(t) },
		"restart": func() {
			m.Case.Logf("restart")
			m.Restart()
		},
		"importTapScript": func() {
			ti := m.OpImportTapScript(t, secretTapscripts)
			if ti == nil {
				return
			}
			// the leaf scripts and keys as the caller handed them in
			for i, ls := range ti.LeafScripts {
				addr := ""
				if ti.Imported != nil {
					addr = ti.Imported.Addr
				}
				secret := ti.Imported == nil || ti.Imported.Secret
				set.AddScript(fmt.Sprintf("leaf %d of the imported taproot script %s", i, addr), ls, secret, addr)
			}
			set.AddXOnly("internal key of an imported taproot script", ti.InternalKey)
			set.AddXOnly("output key of an imported taproot script", ti.OutputKey)
		},
		"unlockRight": func() {
			var err error
			m.View(func(ns walletdb.ReadBucket) { err = m.Mgr.Unlock(ns, append([]byte(nil), m.PrivPass...)) })
			m.Case.Logf("unlock right (was locked=%v) -> %v", m.Locked, err)
			if err != nil {
				m.Violation("Unlock with the current private passphrase failed: %v", err)
			}
			if m.Locked {
				m.N["unlock"]++
			}
			m.Locked = false
		},
	}
}

func expand(w map[string]int) []string {
	var names []string
	for k, n := range w {
		for i := 0; i < n; i++ {
			names = append(names, k)
		}
	}
	sort.Strings(names)
	return names
}

func TestC04NoSecretOnDisk(t *testing.T) {
	g := evid.G("TestC04NoSecretOnDisk")
	maxSteps := 30
	if os.Getenv("VERIF_TIER") == "thorough" {
		maxSteps = 60
	}
	rapid.Check(t, func(t *rapid.T) {
		watchdog.Case(t, "C04", g, func(c *evid.Case) {
			m := mgrsim.NewLongPass(t, "C04", c)
			defer m.Close()

			sc := &fileScanner{g: g, c: c, prop: "C04", fail: t.Fatalf, path: m.Path, set: mgrsim.NewNeedleSet(m.Params)}
			// commit #1 (Create) happened inside the constructor: its image is the file as it is now
			sc.capture()
			m.DB.AfterCommit = sc.capture
			everPrivate := [][]byte{append([]byte(nil), m.PrivPass...)}

			wrongKeyRuns := 0
			wrongKey := func(where string) {
				rep, err := mgrsim.C04WrongKey(m.DB, mgrsim.NSKey, m.PubPass, m.Params, sc.set)
				if err != nil {
					t.Fatalf("INCONCLUSIVE: wrong-key oracle (%s): %v", where, err)
				}
				wrongKeyRuns++
				g.Count("wrongkey-runs", 1)
				g.Count("wrongkey-values-visited", int64(rep.Values))
				g.Count("wrongkey-candidates-offered", int64(rep.Blobs))
				for a, n := range rep.Opened {
					g.Count("wrongkey-opened-by:"+strings.SplitN(a, " ", 2)[0], int64(n))
				}
				// the oracle is not vacuous: the public adversary reads the master HD public key
				_, xpub := m.Master.Neuter().Serialize(m.Params.HDPublicKeyID)
				seen := false
				for _, pt := range rep.OpenedPlain {
					if string(pt) == xpub {
						seen = true
					}
				}
				if !seen {
					t.Fatalf("INCONCLUSIVE: wrong-key oracle (%s): the adversary holding the public passphrase could not read the master HD public key (%d candidates, opened %v)",
						where, rep.Blobs, rep.Opened)
				}
				for _, f := range rep.Findings {
					switch {
					case f.Needle.Private:
						m.Violation("encrypted with the wrong key (%s): %s", where, f)
					case strings.HasPrefix(f.Adversary, "zero-key"):
						// DESIGN C04 L: the script crypto key is never loaded on this tree; the bytes on disk are still not the raw script
						c.Class("observation:script-sealed-under-zero-key")
						g.Note("observation (not raised): a secret imported script is sealed under the all-zero crypto key (cryptoKeyScript is never derived on this tree); the file holds ciphertext, not the raw script")
					case strings.HasPrefix(f.Adversary, "public-"):
						// sealed under a key the public passphrase gives access to: for a
						// secret script that is no protection, exactly as for a private key
						m.Violation("secret script encrypted with a key of the public passphrase (%s): %s", where, f)
					default:
						c.Class("observation:secret-script-opened-by-" + strings.SplitN(f.Adversary, " ", 2)[0])
						g.Note("observation (not raised): " + f.String())
					}
				}
			}

			lastWrongKeyAt := 0
			check := func(op string) {
				if !bytes.Equal(everPrivate[len(everPrivate)-1], m.PrivPass) {
					everPrivate = append(everPrivate, append([]byte(nil), m.PrivPass...))
				}
				m.C04Collect(sc.set)
				sc.flush(op)
				if sc.commits-lastWrongKeyAt >= 5 {
					lastWrongKeyAt = sc.commits
					wrongKey("after " + op)
				}
			}

			// histories that end with a conversion to watching-only import no SECRET taproot scripts: deletePrivateKeys has no
			// case for their rows (recorded as an observation by TestC04ObserveTaprootScriptResidue; outside the C04 statement)
			convert := rapid.IntRange(0, 2).Draw(t, "convert") == 0
			ops := opTable(t, m, sc.set, !convert)
			names := expand(weights)
			steps := rapid.IntRange(4, maxSteps).Draw(t, "steps")
			check("create")
			wrongKey("after create")
			for i := 0; i < steps; i++ {
				name := rapid.SampledFrom(names).Draw(t, "op")
				if i == 0 && rapid.IntRange(0, 2).Draw(t, "startUnlocked") > 0 {
					name = "unlockRight"
				}
				ops[name]()
				check(name)
			}
			wrongKey("end of history")

			if convert {
				c.Class("convert-phase")
				// list the stored private-key ciphertexts (needs the unlocked manager), then convert locked or unlocked
				if m.Locked {
					ops["unlockRight"]()
				}
				privateBlobs := m.C04PrivateCiphertexts()
				g.Count("convert-private-ciphertexts-listed", int64(len(privateBlobs)))
				if len(privateBlobs) < 1+2*len(m.Scopes) {
					t.Fatalf("INCONCLUSIVE: only %d private ciphertexts found before the conversion, expected at least the master key and the coin-type and default account keys of %d scopes",
						len(privateBlobs), len(m.Scopes))
				}
				if rapid.Bool().Draw(t, "convertLocked") {
					m.OpLock(t)
				} else {
					c.Class("convert-while-unlocked")
				}
				m.C04Convert(rapid.IntRange(0, 2).Draw(t, "neuterRootFirst") == 0)
				check("convert-to-watching-only")
				m.C04CheckCiphertextsGone("right after conversion", privateBlobs, func(addr string) {
					c.Class("observation:taproot-script-ciphertext-survives-conversion")
				})
				m.C04CheckWatchOnly(t, "right after conversion", everPrivate)
				m.Case.Logf("restart")
				m.Restart()
				m.C04CheckWatchOnly(t, "converted and reopened", everPrivate)
				check("reopen after conversion")
				wrongKey("after conversion and reopen")
				wnames := expand(weightsWatchOnly)
				more := rapid.IntRange(0, 6).Draw(t, "stepsWatchOnly")
				for i := 0; i < more; i++ {
					name := rapid.SampledFrom(wnames).Draw(t, "opWatchOnly")
					ops[name]()
					check(name + " (watching-only)")
					m.CheckAllIssued("watching-only, after " + name)
					m.CheckAccessors("watching-only, after " + name)
				}
				if more > 0 {
					wrongKey("end of the watching-only phase")
					m.C04CheckWatchOnly(t, "end of the watching-only phase", everPrivate)
				}
			}
			// the file as it is left behind
			sc.capture()
			sc.commits--
			check("final image")

			classify(g, c, m, sc, wrongKeyRuns)
		})
	})
}

func bucket(n int, edges ...int) string {
	for i, e := range edges {
		if n < e {
			if i == 0 {
				return fmt.Sprintf("<%d", e)
			}
			return fmt.Sprintf("%d-%d", edges[i-1], e-1)
		}
	}
	return fmt.Sprintf(">=%d", edges[len(edges)-1])
}

func classify(g *evid.Group, c *evid.Case, m *mgrsim.Machine, sc *fileScanner, wrongKeyRuns int) {
	byClass := sc.set.CountByClass()
	for k, n := range byClass {
		c.Class("needle:" + k)
		g.Count("needles:"+k, int64(n))
	}
	g.Count("needles-total", int64(len(sc.set.List)))
	g.Count("needles-skipped-too-short", int64(sc.set.Skipped))
	g.Count("passphrase-needles", int64(byClass["passphrase-public"]+byClass["passphrase-private"]))
	g.Count("commits", int64(sc.commits))
	g.Count("images-scanned", int64(sc.scanned))
	g.Count("bytes-scanned", sc.bytes)
	g.Count("max-file-bytes-sum", int64(sc.maxFile))
	c.Class("commits:" + bucket(sc.commits, 3, 6, 11, 21, 41))
	c.Class("needles:" + bucket(len(sc.set.List), 20, 200, 400, 800, 1600))
	c.Class("file-bytes:" + bucket(sc.maxFile, 32768, 65536, 131072, 262144, 1048576))
	for _, k := range []string{"restart", "custom-scope", "imported-account", "import-key", "import-script", "import-tapscript", "import-tapscript-secret", "new-account", "passphrase-change", "passphrase-change-private",
		"passphrase-change-public", "extended", "issued", "issued-while-locked", "mark-used", "convert", "convert-unlock-refused", "convert-derive-refused"} {
		if m.N[k] > 0 {
			c.Class(k)
		}
	}
	secretOps := m.N["import-key"] + m.N["import-script"] + m.N["new-account"] + m.N["imported-account"] + m.N["passphrase-change"] + m.N["custom-scope"]
	if sc.commits >= 3 && secretOps >= 1 && len(sc.set.List) >= 20 {
		c.NonTrivial()
	}
	_ = wrongKeyRuns
}

package c04

// Wallet-level variant of C04: a real wallet created through
// wallet.Loader.CreateNewWallet on a bdb file (namespaces "waddrmgr" and
// "wtxmgr"), driven through the wallet's public API only. The wallet owns the
// database, so there is no commit callback: the file is read and searched after
// every API call has returned. No transaction is ever recorded, so public
// material must stay hidden throughout.

import (
	"bytes"
	"fmt"
	"os"
	"path/filepath"
	"testing"
	"time"

	"github.com/btcsuite/btcd/btcec/v2"
	"github.com/btcsuite/btcd/btcjson"
	"github.com/btcsuite/btcd/btcutil"
	"github.com/btcsuite/btcd/chaincfg"
	"github.com/btcsuite/btcd/chaincfg/chainhash"
	"github.com/btcsuite/btcd/wire"
	"github.com/btcsuite/btcwallet/chain"
	"github.com/btcsuite/btcwallet/waddrmgr"
	"github.com/btcsuite/btcwallet/wallet"
	"github.com/btcsuite/btcwallet/walletdb"
	"pgregory.net/rapid"

	"verifharness/internal/bip32ref"
	"verifharness/internal/evid"
	"verifharness/internal/mgrsim"
)

// idleChain is a chain backend that is connected to nothing: it never sends a
// notification (so the wallet never starts syncing and makes no commits of its
// own) and accepts address subscriptions.
type idleChain struct{ ntfns chan interface{} }

func (c *idleChain) Start() error     { return nil }
func (c *idleChain) Stop()            {}
func (c *idleChain) WaitForShutdown() {}
func (c *idleChain) GetBestBlock() (*chainhash.Hash, int32, error) {
	return nil, 0, fmt.Errorf("idle chain")
}
func (c *idleChain) GetBlock(*chainhash.Hash) (*wire.MsgBlock, error) {
	return nil, fmt.Errorf("idle chain")
}
func (c *idleChain) GetBlockHash(int64) (*chainhash.Hash, error) {
	return nil, fmt.Errorf("idle chain")
}
func (c *idleChain) GetBlockHeader(*chainhash.Hash) (*wire.BlockHeader, error) {
	return nil, fmt.Errorf("idle chain")
}
func (c *idleChain) IsCurrent() bool { return false }
func (c *idleChain) FilterBlocks(*chain.FilterBlocksRequest) (*chain.FilterBlocksResponse, error) {
	return nil, fmt.Errorf("idle chain")
}
func (c *idleChain) BlockStamp() (*waddrmgr.BlockStamp, error) { return nil, fmt.Errorf("idle chain") }
func (c *idleChain) SendRawTransaction(*wire.MsgTx, bool) (*chainhash.Hash, error) {
	return nil, fmt.Errorf("idle chain")
}
func (c *idleChain) Rescan(*chainhash.Hash, []btcutil.Address, map[wire.OutPoint]btcutil.Address) error {
	return fmt.Errorf("idle chain")
}
func (c *idleChain) NotifyReceived([]btcutil.Address) error { return nil }
func (c *idleChain) NotifyBlocks() error                    { return nil }
func (c *idleChain) Notifications() <-chan interface{}      { return c.ntfns }
func (c *idleChain) BackEnd() string                        { return "idle" }
func (c *idleChain) TestMempoolAccept([]*wire.MsgTx, float64) ([]*btcjson.TestMempoolAcceptResult, error) {
	return nil, fmt.Errorf("idle chain")
}
func (c *idleChain) MapRPCErr(err error) error { return err }

type wAcct struct {
	num  uint32
	key  *bip32ref.Key
	next [2]uint32
}

type wScope struct {
	scope    waddrmgr.KeyScope
	keys     *bip32ref.ScopeKeys
	ext, in  bip32ref.AddrKind
	accounts []*wAcct
}

var walletCanaries = [][]byte{[]byte("waddrmgr"), []byte("wtxmgr"), []byte("mpub"), []byte("acctnameidx")}

func kindOf(t waddrmgr.AddressType) bip32ref.AddrKind {
	switch t {
	case waddrmgr.PubKeyHash:
		return bip32ref.P2PKH
	case waddrmgr.NestedWitnessPubKey:
		return bip32ref.NestedP2WPKH
	case waddrmgr.WitnessPubKey:
		return bip32ref.P2WPKH
	}
	return bip32ref.P2TR
}

func TestC04WalletLevel(t *testing.T) {
	g := evid.G("TestC04WalletLevel")
	mgrsim.FastScrypt()
	maxSteps := 14
	if os.Getenv("VERIF_TIER") == "thorough" {
		maxSteps = 30
	}
	rapid.Check(t, func(t *rapid.T) {
		c := g.Begin()
		defer c.End()
		params := rapid.SampledFrom([]*chaincfg.Params{&chaincfg.RegressionNetParams, &chaincfg.TestNet3Params, &chaincfg.MainNetParams}).Draw(t, "net")
		var seed []byte
		var master *bip32ref.Key
		for {
			seed = mgrsim.DrawSeed(t, params, "seed")
			if mk, err := bip32ref.Master(seed); err == nil {
				master = mk
				break
			}
		}
		pubPass := mgrsim.LongPass(t, "pubPass")
		privPass := mgrsim.LongPass(t, "privPass")
		if bytes.Equal(pubPass, privPass) {
			privPass = append(privPass, '7')
		}
		c.Logf("net=%s seed=%x pub=%q priv=%q", params.Name, seed, pubPass, privPass)

		dir, err := os.MkdirTemp("/dev/shm", "verif-c04w-")
		if err != nil {
			t.Fatalf("INCONCLUSIVE: mkdtemp: %v", err)
		}
		defer os.RemoveAll(dir)
		path := filepath.Join(dir, wallet.WalletDBName)
		loader := wallet.NewLoader(params, dir, true, 10*time.Second, 0)
		w, err := loader.CreateNewWallet(append([]byte(nil), pubPass...), append([]byte(nil), privPass...), seed, time.Unix(1_600_000_000, 0))
		if err != nil {
			t.Fatalf("INCONCLUSIVE: (functional failure, not a C04 matter) CreateNewWallet failed: %v, case:\n%s", err, c.Text())
		}
		defer func() { loader.UnloadWallet() }()

		set := mgrsim.NewNeedleSet(params)
		set.AddExtKey("master key m", master)
		var scopes []*wScope
		for _, sc := range waddrmgr.DefaultKeyScopes {
			sk, err := bip32ref.DeriveScope(master, bip32ref.Scope{Purpose: sc.Purpose, Coin: sc.Coin})
			if err != nil {
				t.Fatalf("INCONCLUSIVE: oracle: invalid child")
			}
			k0, err := sk.AccountAtCreation(0)
			if err != nil {
				t.Fatalf("INCONCLUSIVE: oracle: invalid child")
			}
			schema := waddrmgr.ScopeAddrMap[sc]
			scopes = append(scopes, &wScope{scope: sc, keys: sk, ext: kindOf(schema.ExternalAddrType), in: kindOf(schema.InternalAddrType),
				accounts: []*wAcct{{num: 0, key: k0.Stored()}}})
			if sk.Purpose.LeadingZero() || sk.CoinType.LeadingZero() {
				c.Class("legacy-hardened-rule-differs-from-bip32")
			}
		}
		oracleAddr := func(s *wScope, a *wAcct, br, idx uint32) (*bip32ref.Key, btcutil.Address) {
			k, err := bip32ref.AddrKey(a.key, br, idx)
			if err != nil {
				t.Fatalf("INCONCLUSIVE: oracle: invalid child")
			}
			kind := s.ext
			if br == 1 {
				kind = s.in
			}
			addr, err := bip32ref.Address(k.Pub, kind, params)
			if err != nil {
				t.Fatalf("INCONCLUSIVE: oracle address: %v", err)
			}
			return k, addr
		}
		collect := func() {
			for _, s := range scopes {
				sc := fmt.Sprintf("m/%d'/%d'", s.scope.Purpose, s.scope.Coin)
				set.AddExtKey("purpose key of "+sc, s.keys.Purpose)
				set.AddExtKey("coin-type key "+sc, s.keys.CoinType)
				for _, a := range s.accounts {
					set.AddExtKey(fmt.Sprintf("account key %s/%d'", sc, a.num), a.key)
					for br := uint32(0); br < 2; br++ {
						for i := uint32(0); i < a.next[br]+mgrsim.LookAhead; i++ {
							k, addr := oracleAddr(s, a, br, i)
							if i < a.next[br] {
								what := fmt.Sprintf("issued address %s (%s/%d'/%d/%d)", addr.EncodeAddress(), sc, a.num, br, i)
								set.AddAddrPriv("addr-priv", "private key of "+what, k.Priv)
								set.AddPubKey(what, k.Pub, addr.EncodeAddress())
							} else {
								set.AddAddrPriv("lookahead-priv", fmt.Sprintf("private key of the not yet issued address %s/%d'/%d/%d", sc, a.num, br, i), k.Priv)
							}
						}
					}
				}
			}
			set.AddPassphrase("passphrase-public", fmt.Sprintf("public passphrase %q", pubPass), pubPass)
			set.AddPassphrase("passphrase-private", fmt.Sprintf("private passphrase %q", privPass), privPass)
		}

		scans, scannedBytes, maxFile := 0, int64(0), 0
		scan := func(op string) {
			collect()
			data, err := os.ReadFile(path)
			if err != nil {
				t.Fatalf("INCONCLUSIVE: reading %s: %v", path, err)
			}
			for _, cn := range walletCanaries {
				if !bytes.Contains(data, cn) {
					t.Fatalf("INCONCLUSIVE: the clear-text name %q is not in the %d bytes read from %s after %s: wrong file scanned?", cn, len(data), path, op)
				}
			}
			scans++
			scannedBytes += int64(len(data))
			if len(data) > maxFile {
				maxFile = len(data)
			}
			if n, off := set.Scan(data, nil); n != nil {
				t.Fatalf("C04 VIOLATED: %s found in the wallet database file at offset %d (page %d) after %s; %d needles searched in %d bytes, case:\n%s",
					n, off, off/4096, op, len(set.List), len(data), c.Text())
			}
		}
		wrongKey := func(where string) {
			rep, err := mgrsim.C04WrongKey(w.Database(), []byte("waddrmgr"), pubPass, params, set)
			if err != nil {
				t.Fatalf("INCONCLUSIVE: wrong-key oracle (%s): %v", where, err)
			}
			g.Count("wrongkey-runs", 1)
			g.Count("wrongkey-candidates-offered", int64(rep.Blobs))
			_, xpub := master.Neuter().Serialize(params.HDPublicKeyID)
			seen := false
			for _, pt := range rep.OpenedPlain {
				seen = seen || string(pt) == xpub
			}
			if !seen {
				t.Fatalf("INCONCLUSIVE: wrong-key oracle (%s): the adversary holding the public passphrase could not read the master HD public key", where)
			}
			for _, f := range rep.Findings {
				if f.Needle.Private {
					t.Fatalf("C04 VIOLATED: encrypted with the wrong key (%s): %s, case:\n%s", where, f, c.Text())
				}
			}
		}

		scan("CreateNewWallet")
		wrongKey("after CreateNewWallet")
		w.SynchronizeRPC(&idleChain{ntfns: make(chan interface{})})
		// a synced wallet has a birthday block; the idle backend never provides one
		err = walletdb.Update(w.Database(), func(tx walletdb.ReadWriteTx) error {
			return w.Manager.SetBirthdayBlock(tx.ReadWriteBucket([]byte("waddrmgr")), waddrmgr.BlockStamp{Hash: *params.GenesisHash, Timestamp: params.GenesisBlock.Header.Timestamp}, true)
		})
		if err != nil {
			t.Fatalf("INCONCLUSIVE: SetBirthdayBlock: %v", err)
		}
		scan("SetBirthdayBlock")

		locked := true
		n := map[string]int{}
		wifCount := 0
		steps := rapid.IntRange(3, maxSteps).Draw(t, "steps")
		for i := 0; i < steps; i++ {
			op := rapid.SampledFrom([]string{"unlock", "unlock", "lock", "newAddress", "newAddress", "newAddress", "newChangeAddress", "nextAccount", "nextAccount",
				"importKey", "importKey", "changePrivate", "changePublic", "changeBoth", "reopen"}).Draw(t, "op")
			if i == 0 {
				op = "unlock"
			}
			s := scopes[rapid.IntRange(0, len(scopes)-1).Draw(t, "scope")]
			a := s.accounts[rapid.IntRange(0, len(s.accounts)-1).Draw(t, "acct")]
			switch op {
			case "unlock":
				err := w.Unlock(append([]byte(nil), privPass...), nil)
				c.Logf("Unlock -> %v", err)
				if err != nil {
					t.Fatalf("INCONCLUSIVE: (functional failure, not a C04 matter) Unlock with the current private passphrase failed: %v, case:\n%s", err, c.Text())
				}
				locked = false
			case "lock":
				w.Lock()
				// Lock only hands the request to the wallet's locker goroutine;
				// asking for the state afterwards is answered by the same
				// goroutine, i.e. after the lock has happened
				if !w.Locked() {
					t.Fatalf("INCONCLUSIVE: (functional failure, not a C04 matter) wallet not locked after Lock, case:\n%s", c.Text())
				}
				c.Logf("Lock")
				locked = true
				n["lock"]++
			case "newAddress", "newChangeAddress":
				br := uint32(0)
				var addr btcutil.Address
				var err error
				if op == "newChangeAddress" {
					br = 1
					addr, err = w.NewChangeAddress(a.num, s.scope)
				} else {
					addr, err = w.NewAddress(a.num, s.scope)
				}
				c.Logf("%s scope=%v acct=%d locked=%v -> %v, %v", op, s.scope, a.num, locked, addr, err)
				if err != nil {
					t.Fatalf("INCONCLUSIVE: (functional failure, not a C04 matter) %s failed: %v, case:\n%s", op, err, c.Text())
				}
				_, want := oracleAddr(s, a, br, a.next[br])
				if addr.EncodeAddress() != want.EncodeAddress() {
					t.Fatalf("INCONCLUSIVE: (functional failure, not a C04 matter) %s(scope %v, account %d) returned %s, the seed's child %d/%d is %s (the needle set would be wrong), case:\n%s", op, s.scope, a.num, addr,
						br, a.next[br], want, c.Text())
				}
				a.next[br]++
				n["address"]++
			case "nextAccount":
				name := rapid.StringMatching(`[a-z]{1,6}`).Draw(t, "acctName") + fmt.Sprint(len(s.accounts))
				num, err := w.NextAccount(s.scope, name)
				c.Logf("NextAccount scope=%v name=%q locked=%v -> %d, %v", s.scope, name, locked, num, err)
				if locked {
					if err == nil {
						t.Fatalf("INCONCLUSIVE: (functional failure, not a C04 matter) NextAccount succeeded on a locked wallet, case:\n%s", c.Text())
					}
					break
				}
				if err != nil {
					t.Fatalf("INCONCLUSIVE: (functional failure, not a C04 matter) NextAccount on an unlocked wallet failed: %v, case:\n%s", err, c.Text())
				}
				if int(num) != len(s.accounts) {
					t.Fatalf("INCONCLUSIVE: (functional failure, not a C04 matter) NextAccount returned %d, expected %d, case:\n%s", num, len(s.accounts), c.Text())
				}
				k, err := s.keys.AccountLater(num)
				if err != nil {
					t.Fatalf("INCONCLUSIVE: oracle: invalid child")
				}
				s.accounts = append(s.accounts, &wAcct{num: num, key: k.Stored()})
				n["account"]++
			case "importKey":
				wifCount++
				raw := chainhash.HashB(append([]byte(fmt.Sprintf("verif-c04-wallet-wif-%d-", wifCount)), seed...))
				priv, _ := btcec.PrivKeyFromBytes(raw)
				wif, err := btcutil.NewWIF(priv, params, true)
				if err != nil {
					t.Fatalf("INCONCLUSIVE: NewWIF: %v", err)
				}
				bs := waddrmgr.BlockStamp{Height: 1000, Hash: *params.GenesisHash, Timestamp: time.Unix(1_600_000_000, 0)}
				addr, err := w.ImportPrivateKey(s.scope, wif, &bs, false)
				c.Logf("ImportPrivateKey scope=%v locked=%v -> %s, %v", s.scope, locked, addr, err)
				if locked {
					if err == nil {
						t.Fatalf("INCONCLUSIVE: (functional failure, not a C04 matter) ImportPrivateKey succeeded on a locked wallet, case:\n%s", c.Text())
					}
					break
				}
				if err != nil {
					t.Fatalf("INCONCLUSIVE: (functional failure, not a C04 matter) ImportPrivateKey on an unlocked wallet failed: %v, case:\n%s", err, c.Text())
				}
				set.AddImportedKey("imported private key of "+addr, wif, addr)
				n["import"]++
			case "changePrivate":
				np := mgrsim.LongPass(t, "newPass")
				err := w.ChangePrivatePassphrase(append([]byte(nil), privPass...), append([]byte(nil), np...))
				c.Logf("ChangePrivatePassphrase new=%q locked=%v -> %v", np, locked, err)
				if err != nil {
					t.Fatalf("INCONCLUSIVE: (functional failure, not a C04 matter) ChangePrivatePassphrase with the right old passphrase failed: %v, case:\n%s", err, c.Text())
				}
				privPass = np
				n["passphrase"]++
			case "changePublic":
				np := mgrsim.LongPass(t, "newPass")
				err := w.ChangePublicPassphrase(append([]byte(nil), pubPass...), append([]byte(nil), np...))
				c.Logf("ChangePublicPassphrase new=%q -> %v", np, err)
				if err != nil {
					t.Fatalf("INCONCLUSIVE: (functional failure, not a C04 matter) ChangePublicPassphrase with the right old passphrase failed: %v, case:\n%s", err, c.Text())
				}
				pubPass = np
				n["passphrase"]++
			case "changeBoth":
				np1, np2 := mgrsim.LongPass(t, "newPub"), mgrsim.LongPass(t, "newPriv")
				err := w.ChangePassphrases(append([]byte(nil), pubPass...), append([]byte(nil), np1...), append([]byte(nil), privPass...), append([]byte(nil), np2...))
				c.Logf("ChangePassphrases newPub=%q newPriv=%q locked=%v -> %v", np1, np2, locked, err)
				if err != nil {
					t.Fatalf("INCONCLUSIVE: (functional failure, not a C04 matter) ChangePassphrases with the right old passphrases failed: %v, case:\n%s", err, c.Text())
				}
				pubPass, privPass = np1, np2
				n["passphrase"]++
			case "reopen":
				if err := loader.UnloadWallet(); err != nil {
					t.Fatalf("INCONCLUSIVE: UnloadWallet: %v", err)
				}
				scan("UnloadWallet")
				w, err = loader.OpenExistingWallet(append([]byte(nil), pubPass...), false)
				c.Logf("reopen -> %v", err)
				if err != nil {
					t.Fatalf("INCONCLUSIVE: (functional failure, not a C04 matter) OpenExistingWallet with the current public passphrase failed: %v, case:\n%s", err, c.Text())
				}
				w.SynchronizeRPC(&idleChain{ntfns: make(chan interface{})})
				locked = true
				n["reopen"]++
			}
			scan(op)
		}
		wrongKey("end of history")

		// The wallet's own road to watching-only (the remote-signer migration):
		// InitAccounts with the watch-only flag, for accounts that exist already
		// or with one more. Afterwards the reopened file is a watching-only
		// wallet: no passphrase unlocks it, no call returns private material.
		if rapid.IntRange(0, 2).Draw(t, "migrateToWatchOnly") == 0 {
			s := scopes[rapid.IntRange(0, len(scopes)-1).Draw(t, "migrateScope")]
			num := uint32(len(s.accounts) - 1)
			if !locked && rapid.Bool().Draw(t, "oneMoreAccount") {
				num++
			}
			sm, err := w.Manager.FetchScopedKeyManager(s.scope)
			if err != nil {
				t.Fatalf("INCONCLUSIVE: FetchScopedKeyManager: %v", err)
			}
			err = w.InitAccounts(sm, true, num)
			c.Logf("InitAccounts(%v, watch-only, %d) locked=%v -> %v", s.scope, num, locked, err)
			if err != nil {
				t.Fatalf("INCONCLUSIVE: (functional failure, not a C04 matter) InitAccounts failed: %v, case:\n%s", err, c.Text())
			}
			if err := loader.UnloadWallet(); err != nil {
				t.Fatalf("INCONCLUSIVE: UnloadWallet: %v", err)
			}
			scan("InitAccounts(watch-only)")
			db, err := walletdb.Open("bdb", path, true, 10*time.Second, false)
			if err != nil {
				t.Fatalf("INCONCLUSIVE: reopening %s: %v", path, err)
			}
			verr := walletdb.View(db, func(tx walletdb.ReadTx) error {
				ns := tx.ReadBucket([]byte("waddrmgr"))
				mgr, err := waddrmgr.Open(ns, pubPass, params)
				if err != nil {
					return fmt.Errorf("INCONCLUSIVE: waddrmgr.Open on the migrated file: %v", err)
				}
				defer mgr.Close()
				if !mgr.WatchOnly() {
					return fmt.Errorf("C04 VIOLATED: after InitAccounts with the watch-only flag the reopened wallet is not watching-only")
				}
				if err := mgr.Unlock(ns, append([]byte(nil), privPass...)); err == nil {
					return fmt.Errorf("C04 VIOLATED: after the watch-only migration the private passphrase still unlocks the reopened wallet")
				}
				for _, sc := range scopes {
					for _, a := range sc.accounts {
						for br := uint32(0); br < 2; br++ {
							if a.next[br] == 0 {
								continue
							}
							_, addr := oracleAddr(sc, a, br, 0)
							ma, err := mgr.Address(ns, addr)
							if err != nil {
								return fmt.Errorf("C04 VIOLATED: after the watch-only migration the reopened wallet does not know the issued address %s: %v", addr, err)
							}
							if pk, ok := ma.(waddrmgr.ManagedPubKeyAddress); ok {
								if k, err := pk.PrivKey(); err == nil || k != nil {
									return fmt.Errorf("C04 VIOLATED: after the watch-only migration PrivKey() of %s returns a key", addr)
								}
							}
						}
					}
				}
				return nil
			})
			db.Close()
			if verr != nil {
				t.Fatalf("%v, case:\n%s", verr, c.Text())
			}
			c.Class("watch-only-migration-through-InitAccounts")
			// the loader has nothing loaded any more
			w = nil
		}

		for k, v := range set.CountByClass() {
			c.Class("needle:" + k)
			g.Count("needles:"+k, int64(v))
		}
		g.Count("needles-total", int64(len(set.List)))
		g.Count("scans", int64(scans))
		g.Count("bytes-scanned", scannedBytes)
		g.Count("max-file-bytes-sum", int64(maxFile))
		for _, k := range []string{"address", "account", "import", "passphrase", "reopen", "lock"} {
			if n[k] > 0 {
				c.Class(k)
			}
		}
		if scans >= 3 && n["account"]+n["import"]+n["passphrase"] >= 1 && len(set.List) >= 20 {
			c.NonTrivial()
		}
	})
}

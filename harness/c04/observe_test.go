package c04

// A plain (non-generated) run that exercises, without asserting it, what the
// generated histories leave out on purpose: a SECRET taproot script across
// ConvertToWatchingOnly. What the C04 statement says is asserted (the raw leaf
// script is never in the file; after conversion and reopen the address is
// known and no call returns the script); the residual ciphertext is only
// recorded as an observation in the evidence.

import (
	"bytes"
	"encoding/binary"
	"os"
	"path/filepath"
	"testing"
	"time"

	"github.com/btcsuite/btcd/btcec/v2"
	"github.com/btcsuite/btcd/btcutil/hdkeychain"
	"github.com/btcsuite/btcd/chaincfg"
	"github.com/btcsuite/btcd/txscript"
	"github.com/btcsuite/btcwallet/snacl"
	"github.com/btcsuite/btcwallet/waddrmgr"
	"github.com/btcsuite/btcwallet/walletdb"
	_ "github.com/btcsuite/btcwallet/walletdb/bdb"

	"verifharness/internal/evid"
	"verifharness/internal/mgrsim"
)

func TestC04ObserveTaprootScriptResidue(t *testing.T) {
	g := evid.G("TestC04ObserveTaprootScriptResidue")
	c := g.Begin()
	defer c.End()
	mgrsim.FastScrypt()
	dir, err := os.MkdirTemp("/dev/shm", "verif-c04o-")
	if err != nil {
		t.Fatalf("INCONCLUSIVE: mkdtemp: %v", err)
	}
	defer os.RemoveAll(dir)
	path := filepath.Join(dir, "w.db")
	db, err := walletdb.Create("bdb", path, true, 10*time.Second, false)
	if err != nil {
		t.Fatalf("INCONCLUSIVE: create db: %v", err)
	}
	defer func() { db.Close() }()
	params := &chaincfg.RegressionNetParams
	root, err := hdkeychain.NewMaster(bytes.Repeat([]byte{7}, 32), params)
	if err != nil {
		t.Fatalf("INCONCLUSIVE: %v", err)
	}
	ns := []byte("waddrmgr")
	pub, prv := []byte("observe-public-1"), []byte("observe-private-1")
	var mgr *waddrmgr.Manager
	err = walletdb.Update(db, func(tx walletdb.ReadWriteTx) error {
		b, err := tx.CreateTopLevelBucket(ns)
		if err != nil {
			return err
		}
		if err := waddrmgr.Create(b, root, pub, prv, params, nil, time.Unix(1600000000, 0)); err != nil {
			return err
		}
		mgr, err = waddrmgr.Open(b, pub, params)
		return err
	})
	if err != nil {
		t.Fatalf("INCONCLUSIVE: create/open: %v", err)
	}
	internal, _ := btcec.PrivKeyFromBytes(bytes.Repeat([]byte{9}, 32))
	leafScript, _ := txscript.NewScriptBuilder().AddData(bytes.Repeat([]byte{0xab}, 32)).AddOp(txscript.OP_CHECKSIG).Script()
	ts := &waddrmgr.Tapscript{Type: waddrmgr.TapscriptTypeFullTree, ControlBlock: &txscript.ControlBlock{InternalKey: internal.PubKey()},
		Leaves: []txscript.TapLeaf{txscript.NewBaseTapLeaf(leafScript)}}
	var addr waddrmgr.ManagedTaprootScriptAddress
	err = walletdb.Update(db, func(tx walletdb.ReadWriteTx) error {
		b := tx.ReadWriteBucket(ns)
		if err := mgr.Unlock(b, prv); err != nil {
			return err
		}
		sm, err := mgr.FetchScopedKeyManager(waddrmgr.KeyScopeBIP0086)
		if err != nil {
			return err
		}
		addr, err = sm.ImportTaprootScript(b, ts, &waddrmgr.BlockStamp{Height: 1000}, 1, true)
		return err
	})
	if err != nil {
		t.Fatalf("INCONCLUSIVE: ImportTaprootScript: %v", err)
	}
	c.Logf("secret taproot script imported as %s", addr.Address())
	scanFile := func(when string) {
		data, err := os.ReadFile(path)
		if err != nil || !bytes.Contains(data, ns) {
			t.Fatalf("INCONCLUSIVE: reading %s: %v", path, err)
		}
		if i := bytes.Index(data, leafScript); i >= 0 {
			t.Fatalf("C04 VIOLATED: the raw leaf script of a secret taproot script is in the database file at offset %d %s", i, when)
		}
	}
	scanFile("after the import")
	if err := walletdb.Update(db, func(tx walletdb.ReadWriteTx) error { return mgr.ConvertToWatchingOnly(tx.ReadWriteBucket(ns)) }); err != nil {
		t.Fatalf("C04 VIOLATED: ConvertToWatchingOnly failed: %v", err)
	}
	scanFile("after ConvertToWatchingOnly")
	mgr.Close()
	db.Close()
	db, err = walletdb.Open("bdb", path, true, 10*time.Second, false)
	if err != nil {
		t.Fatalf("INCONCLUSIVE: reopen: %v", err)
	}
	residue := 0
	err = walletdb.View(db, func(tx walletdb.ReadTx) error {
		b := tx.ReadBucket(ns)
		mgr, err := waddrmgr.Open(b, pub, params)
		if err != nil {
			return err
		}
		defer mgr.Close()
		ma, err := mgr.Address(b, addr.Address())
		if err != nil {
			t.Fatalf("C04 VIOLATED: the taproot script address %s is not known after conversion and reopen: %v", addr.Address(), err)
		}
		if s, err := ma.(waddrmgr.ManagedTaprootScriptAddress).TaprootScript(); err == nil || s != nil {
			t.Fatalf("C04 VIOLATED: TaprootScript() of a secret script returns material after conversion to watching-only")
		}
		if s, err := ma.(waddrmgr.ManagedScriptAddress).Script(); err == nil || s != nil {
			t.Fatalf("C04 VIOLATED: Script() of a secret taproot script returns material after conversion to watching-only")
		}
		if err := mgr.Unlock(b, prv); err == nil {
			t.Fatalf("C04 VIOLATED: Unlock succeeded after conversion to watching-only")
		}
		// observation only: what the all-zero key opens in the live namespace
		var walk func(b walletdb.ReadBucket)
		walk = func(b walletdb.ReadBucket) {
			b.ForEach(func(k, v []byte) error {
				if v == nil {
					if nb := b.NestedReadBucket(k); nb != nil {
						walk(nb)
						return nil
					}
				}
				for o := 0; o+4 <= len(v); o++ {
					l := int(binary.LittleEndian.Uint32(v[o:]))
					if l < 40 || o+4+l > len(v) {
						continue
					}
					var zk snacl.CryptoKey
					if pt, err := zk.Decrypt(v[o+4 : o+4+l]); err == nil && bytes.Contains(pt, leafScript) {
						residue++
					}
				}
				return nil
			})
		}
		walk(b)
		return nil
	})
	if err != nil {
		t.Fatalf("INCONCLUSIVE: %v", err)
	}
	c.Logf("fields of the live namespace that the all-zero key opens to the leaf script after conversion: %d", residue)
	if residue > 0 {
		c.Class("observation:taproot-script-ciphertext-survives-conversion")
		g.Note("observation: deletePrivateKeys has no case for adtTaprootScript; a secret taproot script's ciphertext survives ConvertToWatchingOnly (sealed under the all-zero script key)")
	}
	c.NonTrivial()
}

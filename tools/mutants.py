# Self-test mutants (DESIGN §3 "S" lists): each is a small change to /repo that
# compiles and is meant to break one property. tools/mutest.py applies one at a
# time to /repo, runs the named checks' quick tier, expects exit 1, and reverts.
# (These are hand-written sensitivity probes; independently written seeded
# changes live under /verif/seeded/.)
M = []

def m(name, props, file, old, new, count=1):
    M.append(dict(name=name, props=props, file=file, old=old, new=new, count=count))

# ---------------- wtxmgr ----------------
m("bal-locked-double-sub", ["C01", "C12"], "wtxmgr/tx.go",
  """			bal -= amt

			// To prevent decrementing the balance twice if the
			// output has an unconfirmed spend, return now.
			return nil
		}""",
  """			bal -= amt
		}""")
m("bal-confs-off-by-one", ["C01"], "wtxmgr/tx.go",
  "				confs := syncHeight - block.Height + 1\n", "				confs := syncHeight - block.Height\n")
m("mined-spend-keeps-unspent", ["C01"], "wtxmgr/tx.go",
  """		if err := deleteRawUnspent(ns, unspentKey); err != nil {
			return err
		}

		newMinedBalance -= amt""",
  """		_ = unspentKey

		newMinedBalance -= amt""")
m("rollback-forget-balance-dec", ["C01"], "wtxmgr/tx.go",
  """				credKey := existsRawUnspent(ns, outPointKey)
				if credKey != nil {
					minedBalance -= btcutil.Amount(output.Value)""",
  """				credKey := existsRawUnspent(ns, outPointKey)
				if credKey != nil {
					_ = output""")
m("utxos-include-unconf-spent", ["C01"], "wtxmgr/tx.go",
  "	return s.fetchCredits(ns, false, false, true)", "	return s.fetchCredits(ns, false, true, true)")
m("rollback-no-unmined-input", ["C02", "C01"], "wtxmgr/tx.go",
  """				err = putRawUnminedInput(ns, prevOutKey, rec.Hash[:])
				if err != nil {
					return err
				}

				// If this input is a debit""",
  """				// If this input is a debit""")
m("removeconflict-no-recursion", ["C02", "C01"], "wtxmgr/unconfirmed.go",
  """			if err := s.removeConflict(ns, &spender); err != nil {
				return err
			}""",
  """			_ = spender""")
m("confirm-leaves-unmined-credits", ["C02", "C01"], "wtxmgr/tx.go",
  """	for i := range rec.MsgTx.TxOut {
		k := canonicalOutPoint(&rec.Hash, uint32(i))
		if err := deleteRawUnminedCredit(ns, k); err != nil {
			return err
		}
	}

	return deleteRawUnmined(ns, rec.Hash[:])""",
  """	return deleteRawUnmined(ns, rec.Hash[:])""")
m("rollback-coinbase-keeps-descendants", ["C02", "C01"], "wtxmgr/tx.go",
  """			err = s.removeConflict(ns, &unminedRec)
			if err != nil {
				return err
			}
		}
	}

	return putMinedBalance(ns, minedBalance)""",
  """			_ = unminedRec
		}
	}

	return putMinedBalance(ns, minedBalance)""")
m("lease-expiry-after", ["C12"], "wtxmgr/db.go",
  "	if !timeNow.Before(expiry) {\n		return LockID{}, time.Time{}, false", "	if timeNow.After(expiry) {\n		return LockID{}, time.Time{}, false")
m("lease-ignore-id", ["C12"], "wtxmgr/tx.go",
  "	if isLocked && lockedID != id {\n		return time.Time{}, ErrOutputAlreadyLocked", "	if isLocked && lockedID != id && false {\n		return time.Time{}, ErrOutputAlreadyLocked")
m("lease-not-cleared-on-confirm", ["C12"], "wtxmgr/tx.go",
  """		if err := unlockOutput(ns, txIn.PreviousOutPoint); err != nil {
			return err
		}""",
  """		_ = txIn""")
m("lease-list-after", ["C12"], "wtxmgr/tx.go",
  """			// next call to DeleteExpiredLockedOutputs.
			if !s.clock.Now().Before(expiration) {""",
  """			// next call to DeleteExpiredLockedOutputs.
			if s.clock.Now().After(expiration) {""")
m("lease-unlock-any-id", ["C12"], "wtxmgr/tx.go",
  "	if lockedID != id {\n		return ErrOutputUnlockNotAllowed\n	}", "	_ = lockedID")
m("lease-sweep-early", ["C12"], "wtxmgr/tx.go",
  """			if !s.clock.Now().Before(expiration) {
				expiredOutputs = append(expiredOutputs, op)""",
  """			if !s.clock.Now().Add(time.Second).Before(expiration) {
				expiredOutputs = append(expiredOutputs, op)""")
m("details-mined-ignore-unmined-spend", ["C13"], "wtxmgr/query.go",
  "			credIter.elem.Spent = spent\n", "			_ = spent\n")
m("range-forward-exclusive", ["C13"], "wtxmgr/query.go",
  "			return it.elem.Height <= end\n", "			return it.elem.Height < end\n")
m("details-unmined-only-mined-credits", ["C13"], "wtxmgr/query.go",
  """		v := existsRawUnminedCredit(ns, opKey)
		if v == nil {
			continue
		}

		amount, err := fetchRawCreditAmount(v)""",
  """		v := existsRawUnminedCredit(ns, opKey)
		if v == nil || true {
			continue
		}

		amount, err := fetchRawCreditAmount(v)""")
# equivalent for every observer: the stale debit sits under the (tx, old block) key that is only read again
# if the same block is reconnected, where putDebit overwrites it
m("rollback-leaves-debit", [], "wtxmgr/tx.go",
  """				err = deleteRawDebit(ns, debKey)
				if err != nil {
					return err
				}
""", "")
m("kahn-append-at-indegree-1", ["C14"], "wtxmgr/kahnsort.go",
  "				if m.inDegree == 0 {\n					s = append(s, m.value)", "				if m.inDegree <= 1 {\n					s = append(s, m.value)")
m("kahn-dedupe-edges-keep-indegree", ["C14"], "wtxmgr/kahnsort.go",
  "				if *outEdge == input.PreviousOutPoint.Hash {\n					continue inputLoop", "				if *outEdge == txHash {\n					node := graph[txHash]\n					node.inDegree++\n					graph[txHash] = node\n					continue inputLoop")
m("kahn-roots-shortcut-ge", ["C14"], "wtxmgr/kahnsort.go",
  "	if len(s) == len(txs) {\n		return s", "	if len(s)+1 >= len(txs) {\n		return s")

# ---------------- wallet: chain following (C15) ----------------
m("disconnect-no-txstore-rollback", ["C15"], "wallet/chainntfns.go",
  """			err = w.TxStore.Rollback(txmgrNs, b.Height)
			if err != nil {
				return err
			}""", "			_ = txmgrNs")
m("disconnect-rollback-height-plus-1", ["C15"], "wallet/chainntfns.go",
  "			err = w.TxStore.Rollback(txmgrNs, b.Height)\n", "			err = w.TxStore.Rollback(txmgrNs, b.Height+1)\n")
m("startup-rollback-off-by-one", ["C15"], "wallet/wallet.go",
  "		return w.TxStore.Rollback(txmgrNs, rollbackStamp.Height+1)", "		return w.TxStore.Rollback(txmgrNs, rollbackStamp.Height+2)")
m("disconnect-zero-hash-again", ["C15"], "wallet/chainntfns.go",
  "			bs.Hash = *hash\n", "			b.Hash = *hash\n")
m("disconnect-ignore-hash-compare", ["C15"], "wallet/chainntfns.go",
  "		if bytes.Equal(hash[:], b.Hash[:]) {", "		if bytes.Equal(hash[:], b.Hash[:]) || true {")
m("putsyncedto-keep-old-hash", ["C15"], "waddrmgr/db.go",
  """	// Store the block hash by block height.
	if err := addBlockHash(ns, bs.Height, bs.Hash); err != nil {
		return managerError(ErrDatabase, errStr, err)
	}""",
  """	// Store the block hash by block height.
	if _, err := fetchBlockHash(ns, bs.Height); err != nil {
		if err := addBlockHash(ns, bs.Height, bs.Hash); err != nil {
			return managerError(ErrDatabase, errStr, err)
		}
	}""")
m("startup-no-rollback-loop", ["C15"], "wallet/wallet.go",
  "			if bytes.Equal(hash[:], chainHash[:]) {\n				break\n			}\n			rollback = true", "			if bytes.Equal(hash[:], chainHash[:]) || true {\n				break\n			}\n			rollback = true")

# ---------------- wallet: transaction creation (C06) ----------------
m("eligible-no-maturity", ["C06"], "wallet/createtx.go",
  "			if !confirmed(target, output.Height, bs.Height) {\n				continue\n			}", "			_ = target")
m("eligible-no-minconf", ["C06"], "wallet/createtx.go",
  "		if !confirmed(minconf, output.Height, bs.Height) {\n			continue\n		}", "")
m("eligible-no-lock-check", ["C06"], "wallet/createtx.go",
  "		if w.LockedOutpoint(output.OutPoint) {\n			continue\n		}", "")
m("eligible-no-account-check", ["C06"], "wallet/createtx.go",
  "		if addrAcct != account {\n			continue\n		}", "		_ = addrAcct")
m("eligible-no-scope-check", ["C06"], "wallet/createtx.go",
  "		if keyScope != nil && scopedMgr.Scope() != *keyScope {\n			continue\n		}", "		_ = scopedMgr")
m("utxos-include-leased", ["C06", "C12"], "wtxmgr/tx.go",
  "	return s.fetchCredits(ns, false, false, true)", "	return s.fetchCredits(ns, true, false, true)")
m("explicit-skip-ineligible", ["C06"], "wallet/createtx.go",
  """				if !ok {
					return fmt.Errorf("selected outpoint "+
						"not eligible for "+
						"spending: %v", outpoint)
				}""", """				if !ok {
					continue
				}""")
m("maturity-off-by-one", ["C06"], "wallet/createtx.go",
  "			target := int32(w.chainParams.CoinbaseMaturity)\n", "			target := int32(w.chainParams.CoinbaseMaturity) - 1\n")

# ---------------- wallet: broadcast (C20) ----------------
m("reject-keeps-tx", ["C20"], "wallet/wallet.go",
  """	// If the transaction was rejected for whatever other reason, then
	// we'll remove it from the transaction store, as otherwise, we'll
	// attempt to continually re-broadcast it, and the UTXO state of the
	// wallet won't be accurate.
	dbErr := walletdb.Update(w.db, func(dbTx walletdb.ReadWriteTx) error {
		txmgrNs := dbTx.ReadWriteBucket(wtxmgrNamespaceKey)
		txRec, err := wtxmgr.NewTxRecordFromMsgTx(tx, time.Now())
		if err != nil {
			return err
		}
		return w.TxStore.RemoveUnminedTx(txmgrNs, txRec)
	})""",
  """	dbErr := error(nil)""")
m("in-mempool-treated-as-rejection", ["C20"], "wallet/wallet.go",
  "	case errors.Is(rpcErr, chain.ErrTxAlreadyInMempool):\n		log.Infof(\"%v: tx already in mempool\", txid)\n		return &txid, nil\n", "")
m("no-resend-after-rescan", ["C20"], "wallet/rescan.go",
  "			go w.resendUnminedTxs()\n", "")
m("subscription-failure-keeps-tx", ["C20"], "wallet/wallet.go",
  "		if !alreadyKnown {\n			dbErr := walletdb.Update", "		if !alreadyKnown && false {\n			dbErr := walletdb.Update")
m("resend-children-first", ["C20", "C14"], "wtxmgr/unconfirmed.go",
  "	return DependencySort(txSet), nil", "	sorted := DependencySort(txSet)\n	for i, j := 0, len(sorted)-1; i < j; i, j = i+1, j-1 {\n		sorted[i], sorted[j] = sorted[j], sorted[i]\n	}\n	return sorted, nil")

# ---------------- wallet: concurrent address issuing (C09) ----------------
m("no-mutex-newaddress", ["C09"], "wallet/wallet.go",
  "	w.newAddrMtx.Lock()\n	defer w.newAddrMtx.Unlock()\n\n	var (\n		addr  btcutil.Address\n		props *waddrmgr.AccountProperties\n	)\n	err = walletdb.Update(w.db, func(tx walletdb.ReadWriteTx) error {\n		addrmgrNs := tx.ReadWriteBucket(waddrmgrNamespaceKey)\n		var err error\n		addr, props, err = w.newAddress(addrmgrNs, account, scope)",
  "	var (\n		addr  btcutil.Address\n		props *waddrmgr.AccountProperties\n	)\n	err = walletdb.Update(w.db, func(tx walletdb.ReadWriteTx) error {\n		addrmgrNs := tx.ReadWriteBucket(waddrmgrNamespaceKey)\n		var err error\n		addr, props, err = w.newAddress(addrmgrNs, account, scope)")
m("no-mutex-txtooutputs", ["C09"], "wallet/createtx.go",
  "	w.newAddrMtx.Lock()\n	defer w.newAddrMtx.Unlock()\n", "")
m("no-mutex-newchangeaddress", ["C09"], "wallet/wallet.go",
  "	w.newAddrMtx.Lock()\n	defer w.newAddrMtx.Unlock()\n\n	var addr btcutil.Address\n	err = walletdb.Update(w.db, func(tx walletdb.ReadWriteTx) error {\n		addrmgrNs := tx.ReadWriteBucket(waddrmgrNamespaceKey)\n		var err error\n		addr, err = w.newChangeAddress(addrmgrNs, account, scope)",
  "	var addr btcutil.Address\n	err = walletdb.Update(w.db, func(tx walletdb.ReadWriteTx) error {\n		addrmgrNs := tx.ReadWriteBucket(waddrmgrNamespaceKey)\n		var err error\n		addr, err = w.newChangeAddress(addrmgrNs, account, scope)")


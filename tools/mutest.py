#!/usr/bin/env python3
"""Apply each self-test mutant to /repo, run the quick checks it should break, revert.
usage: tools/mutest.py [name-substring|PROP ...]   (env MUTEST_TIER=quick|thorough)"""
import os, subprocess, sys, json, time
sys.path.insert(0, os.path.dirname(__file__))
from mutants import M
ROOT = os.path.dirname(os.path.dirname(os.path.abspath(__file__)))
filt = sys.argv[1:]
tier = os.environ.get("MUTEST_TIER", "quick")
res = []
# mutants are applied to a scratch worktree of /repo's HEAD (never to /repo itself)
WT = os.environ.get("MUTEST_WT", "/tmp/mutest-wt")
if not os.path.isdir(WT):
    subprocess.run(["git", "-C", "/repo", "worktree", "add", "--detach", "-f", WT, "HEAD"], check=True, capture_output=True)
else:
    subprocess.run(["git", "-C", WT, "checkout", "-q", "--detach", subprocess.run(["git", "-C", "/repo", "rev-parse", "HEAD"], capture_output=True, text=True).stdout.strip()], check=True)
    subprocess.run(["git", "-C", WT, "checkout", "-q", "--", "."], check=True)
os.environ["VERIF_REPO"] = WT
os.environ["VERIF_EVID_DIR"] = "/tmp/mutest-evid"
os.environ["VERIF_REPLAY_DIR"] = "/tmp/mutest-replays"
for mu in M:
    if filt and not any(f in mu["name"] or f in mu["props"] for f in filt):
        continue
    path = os.path.join(WT, mu["file"])
    src = open(path).read()
    if src.count(mu["old"]) != mu["count"]:
        print("MUTANT %s: pattern matches %d times (expected %d) - skipped" % (mu["name"], src.count(mu["old"]), mu["count"]))
        res.append((mu["name"], "pattern-mismatch"))
        continue
    try:
        open(path, "w").write(src.replace(mu["old"], mu["new"]))
        for pid in mu["props"]:
            if filt and all(f.startswith("C") and len(f) == 3 for f in filt) and pid not in filt:
                continue
            t0 = time.time()
            r = subprocess.run([os.path.join(ROOT, "check"), pid, tier], cwd=ROOT, capture_output=True, text=True)
            verdict = {0: "MISSED", 1: "caught", 2: "inconclusive"}.get(r.returncode, "rc=%d" % r.returncode)
            first = ""
            for line in r.stdout.splitlines():
                if "VIOLATED" in line or "build failed" in line:
                    first = line.strip()[:220]
                    break
            print("MUTANT %-40s %s %-12s %5.1fs %s" % (mu["name"], pid, verdict, time.time() - t0, first), flush=True)
            res.append((mu["name"] + "/" + pid, verdict))
    finally:
        open(path, "w").write(src)
subprocess.run(["git", "-C", WT, "status", "--porcelain"])
if not os.environ.get("MUTEST_KEEP_WT"):
    subprocess.run(["git", "-C", "/repo", "worktree", "remove", "--force", WT])
missed = [r for r in res if r[1] != "caught"]
print("\n%d runs, %d not caught: %s" % (len(res), len(missed), missed))
# replays produced by mutants are not findings of the real tree

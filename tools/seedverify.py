#!/usr/bin/env python3
"""Verify an independently written seeded change and run our checks against it.

usage: tools/seedverify.py <ID> [check ids ...]      (default check: the property the change targets)

Input:  /tmp/seedout/<ID>/{patch.diff, meta.json, demo files}, agent worktree /tmp/seed-<ID> (demo location).
Steps:  fresh scratch worktree of /repo HEAD; demo passes without the patch, fails with it; the existing
        tests of the touched modules pass with it; then the patch is applied to /repo itself, the named
        checks run (quick), and /repo is restored. Writes /verif/seeded/<ID>/ (patch.diff, demo, meta.json).
"""
import json, os, shutil, subprocess, sys, time
ROOT = os.path.dirname(os.path.dirname(os.path.abspath(__file__)))
ENV = dict(os.environ, GOFLAGS="-mod=mod", GOPROXY="off", GOSUMDB="off", GOTOOLCHAIN="local")
SUBMODS = ["wtxmgr", "walletdb", "wallet/txauthor", "wallet/txrules", "wallet/txsizes"]

def sh(cmd, cwd, timeout=1800):
    r = subprocess.run(cmd, cwd=cwd, env=ENV, shell=True, capture_output=True, text=True, timeout=timeout)
    return r.returncode, (r.stdout + r.stderr)

def module_of(path):
    for m in SUBMODS:
        if path.startswith(m + "/"):
            return m
    return "."

def main():
    sid = sys.argv[1]
    rnd = os.environ.get("SEED_ROUND", "1")
    suffix = "" if rnd == "1" else chr(ord("a") + int(rnd) - 1)   # round 2 -> "b"
    out = ("/tmp/seedout/%s" if rnd == "1" else "/tmp/seedout" + rnd + "/%s") % sid
    meta = json.load(open(out + "/meta.json"))
    prop = meta.get("property", sid[:3])
    checks = sys.argv[2:] or [prop]
    agent_wt = ("/tmp/seed-%s" if rnd == "1" else "/tmp/seed" + rnd + "-%s") % sid
    wt = "/tmp/sv-%s" % sid
    subprocess.run(["git", "-C", "/repo", "worktree", "remove", "--force", wt], capture_output=True)
    subprocess.run(["git", "-C", "/repo", "worktree", "add", "--detach", "-f", wt, "HEAD"], check=True, capture_output=True)
    report = dict(id=sid + suffix, property=prop, summary=meta.get("summary"), needs_to_manifest=meta.get("needs_to_manifest"))
    try:
        # demo files = untracked files of the agent's worktree
        rc, o = sh("git status --porcelain --untracked-files=all", agent_wt)
        demos = [l[3:] for l in o.splitlines() if l.startswith("?? ")]
        demos = [d for d in demos if d.endswith(".go")]
        for d in demos:
            os.makedirs(os.path.dirname(os.path.join(wt, d)), exist_ok=True)
            shutil.copyfile(os.path.join(agent_wt, d), os.path.join(wt, d))
        report["demo_files"] = demos
        mods = sorted(set(module_of(d) for d in demos))
        changed = [l.split(" b/")[1] for l in open(out + "/patch.diff") if l.startswith("diff --git")]
        report["files_changed"] = changed
        mods_changed = sorted(set(module_of(c) for c in changed))
        def run_demo():
            res = []
            for d in demos:
                pkgdir = os.path.dirname(d)
                rc, o = sh("go test -count=1 -tags '' -run . ./%s/ 2>&1 | tail -5" % pkgdir if module_of(d) == "." else
                           "cd %s && go test -count=1 ./%s/ 2>&1 | tail -5" % (module_of(d), os.path.relpath(pkgdir, module_of(d))), wt)
                # only the demo's own tests matter: re-run restricted to test names in the file
                names = [l.split("(")[0].split()[1] for l in open(os.path.join(wt, d)) if l.startswith("func Test")]
                pat = "^(%s)$" % "|".join(names) if names else "."
                if module_of(d) == ".":
                    rc, o = sh("go test -count=1 -run '%s' ./%s/ 2>&1 | tail -15" % (pat, pkgdir), wt)
                else:
                    rel = os.path.relpath(pkgdir, module_of(d))
                    rc, o = sh("cd %s && go test -count=1 -run '%s' ./%s/ 2>&1 | tail -15" % (module_of(d), pat, rel), wt)
                res.append((d, "ok" in o and "FAIL" not in o, o[-600:]))
            return res
        before = run_demo()
        report["demo_without_change"] = [(d, ok) for d, ok, _ in before]
        rc, o = sh("git apply %s/patch.diff" % out, wt)
        if rc != 0:
            report["error"] = "patch does not apply: " + o[-300:]
            return report
        after = run_demo()
        report["demo_with_change"] = [(d, ok) for d, ok, _ in after]
        report["demo_output_with_change"] = after[0][2] if after else ""
        # existing tests of the touched modules (demo files removed so that only the existing suite runs)
        for d in demos:
            os.remove(os.path.join(wt, d))
        suite = {}
        for m in mods_changed:
            if m == ".":
                rc, o = sh("go build ./... && go test -count=1 -vet=off $(go list ./... | grep -v '/chain$') 2>&1 | grep -v '^ok\\|no test files' | tail -15", wt, 2400)
            else:
                rc, o = sh("cd %s && go build ./... && go test -count=1 -vet=off ./... 2>&1 | grep -v '^ok\\|no test files' | tail -15" % m, wt, 2400)
            suite[m] = "pass" if o.strip() == "" else o[-500:]
        if "." in mods_changed and any(c.startswith("chain/") for c in changed):
            rc, o = sh("go test -count=1 -vet=off ./chain/ 2>&1 | grep -E '^--- FAIL' | grep -v TestBitcoindEvents | head", wt, 1200)
            suite["chain"] = "pass" if o.strip() == "" else o
        report["existing_tests_with_change"] = suite
    finally:
        subprocess.run(["git", "-C", "/repo", "worktree", "remove", "--force", wt], capture_output=True)
    # ---- our checks against the change. Default: applied to /repo itself and undone straight
    # afterwards. With SEED_SCRATCH=1 (when something else is building from /repo at the same time)
    # the patch goes to a scratch worktree that the driver is pointed at (VERIF_REPO), with its own
    # build directory.
    scratch = os.environ.get("SEED_SCRATCH")
    target = "/repo"
    verdicts = {}
    try:
        env = dict(os.environ, VERIF_EVID_DIR="/tmp/seed-evid", VERIF_REPLAY_DIR="/tmp/seed-replays")
        if scratch:
            target = "/tmp/svr-%s" % sid
            subprocess.run(["git", "-C", "/repo", "worktree", "remove", "--force", target], capture_output=True)
            subprocess.run(["git", "-C", "/repo", "worktree", "add", "--detach", "-f", target, "HEAD"], check=True, capture_output=True)
            env.update(VERIF_REPO=target, VERIF_BUILD_DIR="/tmp/svr-build-%s" % sid)
        else:
            st = subprocess.run(["git", "-C", "/repo", "status", "--porcelain"], capture_output=True, text=True).stdout.strip()
            assert st == "", "/repo is not clean: " + st
        subprocess.run(["git", "-C", target, "apply", out + "/patch.diff"], check=True)
        for c in checks:
            t0 = time.time()
            r = subprocess.run([os.path.join(ROOT, "check"), c, "quick"], cwd=ROOT, env=env, capture_output=True, text=True)
            first = ""
            for line in r.stdout.splitlines():
                if "VIOLATED" in line:
                    first = line.strip()[:300]
                    break
            verdicts[c] = dict(verdict={0: "MISSED", 1: "caught", 2: "inconclusive"}.get(r.returncode, str(r.returncode)),
                               seconds=round(time.time() - t0, 1), first_violation_line=first)
    finally:
        if scratch:
            subprocess.run(["git", "-C", "/repo", "worktree", "remove", "--force", target], capture_output=True)
            shutil.rmtree("/tmp/svr-build-%s" % sid, ignore_errors=True)
        else:
            subprocess.run(["git", "-C", "/repo", "checkout", "--", "."], check=True)
    report["checks"] = verdicts
    report["applied_to"] = "scratch worktree (driver override VERIF_REPO)" if scratch else "/repo (git apply, then git checkout -- .)"
    # ---- keep it
    dst = os.path.join(ROOT, "seeded", sid + suffix)
    os.makedirs(dst, exist_ok=True)
    shutil.copyfile(out + "/patch.diff", dst + "/patch.diff")
    for f in os.listdir(out):
        if f not in ("patch.diff", "meta.json"):
            if os.path.isdir(os.path.join(out, f)):
                shutil.copytree(os.path.join(out, f), os.path.join(dst, f), dirs_exist_ok=True)
            else:
                shutil.copyfile(os.path.join(out, f), os.path.join(dst, f))
    meta["verified"] = report
    json.dump(meta, open(dst + "/meta.json", "w"), indent=1)
    return report

if __name__ == "__main__":
    rep = main()
    print(json.dumps({k: rep[k] for k in rep if k not in ("demo_output_with_change",)}, indent=1)[:3000])

#!/usr/bin/env python3
"""Regenerates seeded/README.md from the meta.json files."""
import json, os, glob
ROOT = os.path.dirname(os.path.dirname(os.path.abspath(__file__)))
head = open(os.path.join(ROOT, "seeded", "README.md")).read().split("| id | property |")[0]
rows = ["| id | property | change (one line) | needs to manifest | our quick checks |", "|----|----------|-------------------|-------------------|------------------|"]
for d in sorted(glob.glob(os.path.join(ROOT, "seeded", "*", "meta.json"))):
    m = json.load(open(d))
    v = m.get("verified", {})
    ch = ", ".join("%s: %s" % (k, x["verdict"]) for k, x in v.get("checks", {}).items())
    note = m.get("note", "")
    rows.append("| %s | %s | %s | %s | %s%s |" % (os.path.basename(os.path.dirname(d)), m.get("property"),
                (m.get("summary") or "").replace("|", "/").replace("\n", " ")[:300],
                str(m.get("needs_to_manifest") or "").replace("|", "/").replace("\n", " ")[:300], ch, (" — " + note) if note else ""))
open(os.path.join(ROOT, "seeded", "README.md"), "w").write(head + "\n".join(rows) + "\n")
print(len(rows) - 2, "seeded changes")

#!/usr/bin/env python3
"""Soak: run every quick check at several VERIF_SEED values, several at a time (machine busy), and
report anything that is not OK. Evidence and replays go to scratch directories.
usage: tools/soak.py [seeds=2,3,4] [parallel=4] [ids...]"""
import os, subprocess, sys, time, concurrent.futures as cf
ROOT = os.path.dirname(os.path.dirname(os.path.abspath(__file__)))
sys.path.insert(0, ROOT)
from props import PROPS
args = sys.argv[1:]
seeds = [int(x) for x in (args[0].split("=")[1] if args and args[0].startswith("seeds=") else "2,3,4").split(",")]
par = int(args[1].split("=")[1]) if len(args) > 1 and args[1].startswith("parallel=") else 4
ids = [a for a in args if a in PROPS] or sorted(PROPS)
tier = os.environ.get("SOAK_TIER", "quick")
def one(job):
    pid, seed = job
    env = dict(os.environ, VERIF_SEED=str(seed), VERIF_EVID_DIR="/tmp/soak-evid", VERIF_REPLAY_DIR="/tmp/soak-replays")
    t0 = time.time()
    r = subprocess.run([os.path.join(ROOT, "check"), pid, tier], cwd=ROOT, env=env, capture_output=True, text=True)
    lines = [l for l in r.stdout.splitlines() if any(k in l for k in ("VIOLATED", "INCONCLUSIVE", "VIOLATION", "flaky"))]
    return pid, seed, r.returncode, time.time() - t0, lines[:4]
jobs = [(p, s) for s in seeds for p in ids]
bad = 0
with cf.ThreadPoolExecutor(max_workers=par) as ex:
    for pid, seed, rc, dt, lines in ex.map(one, jobs):
        tag = {0: "OK", 1: "VIOLATION", 2: "INCONCLUSIVE"}.get(rc, "rc=%d" % rc)
        if rc != 0:
            bad += 1
        print("%s seed=%d %s %.0fs %s" % (pid, seed, tag, dt, (" | ".join(l.strip()[:260] for l in lines)) if rc else ""), flush=True)
print("soak done: %d runs, %d not OK" % (len(jobs), bad))

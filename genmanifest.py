#!/usr/bin/env python3
"""Regenerates MANIFEST.json from props.py + manifest_text.py."""
import json, os, sys
ROOT = os.path.dirname(os.path.abspath(__file__))
sys.path.insert(0, ROOT)
from props import PROPS
from manifest_text import TEXT, NOT_APPLICABLE, HOOK_COMMITS

checks = []
for pid in sorted(PROPS):
    p = PROPS[pid]
    t = TEXT[pid]
    checks.append(dict(
        property_id=pid,
        quick_cmd="./check %s quick" % pid,
        thorough_cmd="./check %s thorough" % pid,
        evidence_file="/verif/evidence/%s.json" % pid,
        replay_cmd_template="./check %s --replay {path}" % pid,
        engine="rapid",
        level_claimed=dict(category=p["level"], text=t["level_text"], design_ref=t["design_ref"]),
        level_note=t["level_note"],
        technique=t["technique"],
    ))
m = dict(
    version=1,
    setup_cmd="./check --setup",
    hooks=dict(
        guard="verif",
        enable="go build tag: checks compile /repo with -tags verif (driver passes it to every go test -c)",
        baseline_off_cmd="for m in . wallet/txsizes wallet/txauthor wallet/txrules walletdb wtxmgr; do (cd /repo/$m && go test -vet=off -count=1 -timeout 25m ./...) || exit 1; done",
        source_commits=HOOK_COMMITS,
        add_only=True,
    ),
    engines=[
        dict(name="rapid", path="/verif/harness", serves_properties=sorted(PROPS),
             kind_free_text="pgregory.net/rapid v1.3.0 property-based tests (stateful histories with reference models, shrinking, fail files) plus Go native fuzz targets in the thorough tier; driver /verif/check"),
    ],
    checks=checks,
    notes="All checks are property-based tests / fuzzing against explicit oracles; see DESIGN.md. known_findings.json lists fixed and open findings.",
    not_applicable=NOT_APPLICABLE,
)
json.dump(m, open(os.path.join(ROOT, "MANIFEST.json"), "w"), indent=1)
print("wrote MANIFEST.json with", len(checks), "checks;", len(NOT_APPLICABLE), "not applicable")

# Per-property configuration of the driver (./check).  One Go test package per
# property; a "unit" is one test-binary invocation pattern (rapid property,
# plain regression/enumeration test, or native fuzz target) that is sharded by
# rapid seed.
PROPS = {}

PROPS["C14"] = dict(
    pkg="c14", level="exploration",
    rule=("rapid draws DAGs of 0-40 transactions by construction (shapes: random, chain, diamond, "
          "multi-edge, fan, components, no edges; conflicting siblings; members left out of the set); "
          "each case is sorted 8 times (fresh maps, Go map order varies). Non-trivial = at least one "
          "edge between two members of the set; distinct = distinct fingerprint of the drawn DAG description."),
    assumptions=["inputs of the set form a DAG (transactions reference earlier ones by hash, as real transactions must)"],
    units=[
        dict(name="sort", run="^TestC14DependencySort$", quick=20000, thorough=150000, shards_quick=1, shards_thorough=16),
        dict(name="store", run="^TestC14UnminedTxs$", quick=400, thorough=3000, shards_quick=1, shards_thorough=16),
        dict(name="fuzz", kind="fuzz", run="^FuzzDependencySort$", tiers=["thorough"], thorough="120s", timeout=600),
    ],
)

_TX_ASSUME = [
    "events are chain-consistent: parents precede children inside a block, no unconfirmed coinbase, no unconfirmed spend of an outpoint a confirmed transaction spends, coinbase spends respect maturity, a disconnected coinbase never reappears",
    "every universe transaction is wallet relevant (pays the wallet or spends one of its credits); credited outputs have positive value",
    "events are delivered to wtxmgr.Store exactly as wallet.addRelevantTx does (InsertTxCheckIfExists, then AddCredit for each credited output when not already known)",
]

PROPS["C01"] = dict(
    pkg="c01", level="exploration",
    rule=("rapid stateful histories (5-40 events quick, up to 120 thorough) over a drawn universe of 4-16 transactions: announce, mine "
          "(per-tx or per-block db transaction, height gaps), advance tip, rollback (single call or per block), abandon, redeliver, reopen, "
          "lease/release/clock/sweep; after EVERY event Balance is compared with the reference ledger on a grid of 8 minconf x 6 sync heights "
          "and UnspentOutputs/OutputsToWatch as sets. Non-trivial = history has a confirmation and at least one of rollback, conflict removal, "
          "unconfirmed spend of a confirmed credit, lease, coinbase; distinct = fingerprint of universe + event list."),
    assumptions=_TX_ASSUME,
    units=[dict(name="ledger", run="^TestC01LedgerTruth$", quick=1500, thorough=8000, shards_quick=2, shards_thorough=16)],
)
PROPS["C02"] = dict(
    pkg="c02", level="exploration",
    rule=("same generator weighted to connect/disconnect/reconnect cycles; after every event the unconfirmed set and the status of every universe "
          "transaction are compared with the ledger (explicit sub-claims); at the end the surviving facts are read from the store and replayed "
          "directly into a fresh store, and balances (grid), spendable outputs, unconfirmed hashes and TxDetails of every transaction must be "
          "identical (metamorphic). Non-trivial = (rollback followed by re-confirmation, or conflict loser with a descendant) and the direct "
          "construction has a different event count."),
    assumptions=_TX_ASSUME,
    units=[dict(name="reorg", run="^TestC02ReorgConvergence$", quick=2000, thorough=10000, shards_quick=2, shards_thorough=16)],
)
PROPS["C12"] = dict(
    pkg="c12", level="exploration",
    rule=("C01 generator plus lease/release (3 identifiers, known and unknown outpoints), a test clock moved to instants relative to stored "
          "expiries (-1s,-1ns,0,+1ns,+1s,random), sweep and reopen; after every step ListLockedOutputs and the C01 balance/spendable oracle are "
          "compared with the ledger's leases. Non-trivial = a lease coexists with an unconfirmed spend, a confirmation, a reorg, or the clock "
          "crossed an expiry."),
    assumptions=_TX_ASSUME + ["lease durations are >= 1 s; the store keeps expiries in whole seconds, the ledger uses floor(now+duration)",
                              "leases are only requested for outputs that are clearly known (credited, no confirmed spender) or clearly unknown"],
    units=[dict(name="leases", run="^TestC12Leases$", quick=1500, thorough=8000, shards_quick=2, shards_thorough=16)],
)
PROPS["C13"] = dict(
    pkg="c13", level="exploration",
    rule=("C01/C02 histories; after every event TxDetails, UniqueTxDetails (right, wrong and unconfirmed status), PreviousPkScripts for EVERY "
          "universe transaction and RangeTransactions for 7 ranges (fixed: (0,-1),(-1,0),(-1,-1); 4 drawn from block heights +-1, -1, 0, max, in both "
          "directions) are compared with the ledger. Non-trivial = a transaction moved between confirmed and unconfirmed and a spent/debit flag changed."),
    assumptions=_TX_ASSUME,
    units=[dict(name="history", run="^TestC13History$", quick=2000, thorough=10000, shards_quick=2, shards_thorough=16)],
)

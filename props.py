# Per-property configuration of the driver (./check).  One Go test package per
# property; a "unit" is one test-binary invocation pattern (rapid property,
# plain regression/enumeration test, or native fuzz target) that is sharded by
# rapid seed.
PROPS = {}

PROPS["C14"] = dict(
    pkg="c14", level="exploration",
    rule=("rapid draws DAGs of 0-40 transactions by construction (shapes: random, chain, diamond, "
          "multi-edge, fan, components, no edges; conflicting siblings; members left out of the set); "
          "each case is sorted 8 times (fresh maps, Go map order varies). Non-trivial = at least one "
          "edge between two members of the set; distinct = distinct fingerprint of the drawn DAG description."),
    assumptions=["inputs of the set form a DAG (transactions reference earlier ones by hash, as real transactions must)"],
    units=[
        dict(name="sort", run="^TestC14DependencySort$", quick=50000, thorough=150000, shards_quick=1, shards_thorough=16),
        dict(name="store", run="^TestC14UnminedTxs$", quick=4000, thorough=3000, shards_quick=1, shards_thorough=16),
        dict(name="fuzz", kind="fuzz", run="^FuzzDependencySort$", tiers=["thorough"], thorough="120s", timeout=600),
    ],
)

_TX_ASSUME = [
    "events are chain-consistent: parents precede children inside a block, no unconfirmed coinbase, no unconfirmed spend of an outpoint a confirmed transaction spends, coinbase spends respect maturity, a disconnected coinbase never reappears",
    "every universe transaction is wallet relevant (pays the wallet or spends one of its credits); credited outputs have positive value",
    "events are delivered to wtxmgr.Store exactly as wallet.addRelevantTx does (InsertTxCheckIfExists, then AddCredit for each credited output when not already known)",
]

PROPS["C01"] = dict(
    pkg="c01", level="exploration",
    rule=("rapid stateful histories (5-40 events quick, up to 120 thorough) over a drawn universe of 4-16 transactions: announce, mine "
          "(per-tx or per-block db transaction, height gaps), advance tip, rollback (single call or per block), abandon, redeliver, reopen, "
          "lease/release/clock/sweep; after EVERY event Balance is compared with the reference ledger on a grid of 8 minconf x 6 sync heights "
          "and UnspentOutputs/OutputsToWatch as sets. Non-trivial = history has a confirmation and at least one of rollback, conflict removal, "
          "unconfirmed spend of a confirmed credit, lease, coinbase; distinct = fingerprint of universe + event list."),
    assumptions=_TX_ASSUME,
    units=[dict(name="ledger", run="^TestC01LedgerTruth$", quick=4000, thorough=8000, shards_quick=2, shards_thorough=16)],
)
PROPS["C02"] = dict(
    pkg="c02", level="exploration",
    rule=("same generator weighted to connect/disconnect/reconnect cycles; after every event the unconfirmed set and the status of every universe "
          "transaction are compared with the ledger (explicit sub-claims); at the end the surviving facts are read from the store and replayed "
          "directly into a fresh store, and balances (grid), spendable outputs, unconfirmed hashes and TxDetails of every transaction must be "
          "identical (metamorphic). Non-trivial = (rollback followed by re-confirmation, or conflict loser with a descendant) and the direct "
          "construction has a different event count."),
    assumptions=_TX_ASSUME,
    units=[dict(name="reorg", run="^TestC02ReorgConvergence$", quick=8000, thorough=10000, shards_quick=2, shards_thorough=16)],
)
PROPS["C12"] = dict(
    pkg="c12", level="exploration",
    rule=("C01 generator plus lease/release (3 identifiers, known and unknown outpoints), a test clock moved to instants relative to stored "
          "expiries (-1s,-1ns,0,+1ns,+1s,random), sweep and reopen; after every step ListLockedOutputs and the C01 balance/spendable oracle are "
          "compared with the ledger's leases. Non-trivial = a lease coexists with an unconfirmed spend, a confirmation, a reorg, or the clock "
          "crossed an expiry."),
    assumptions=_TX_ASSUME + ["lease durations are >= 1 s; the store keeps expiries in whole seconds, the ledger uses floor(now+duration)",
                              "leases are only requested for outputs that are clearly known (credited, no confirmed spender) or clearly unknown"],
    units=[dict(name="leases", run="^TestC12Leases$", quick=4000, thorough=8000, shards_quick=2, shards_thorough=16)],
)
PROPS["C13"] = dict(
    pkg="c13", level="exploration",
    rule=("C01/C02 histories; after every event TxDetails, UniqueTxDetails (right, wrong and unconfirmed status), PreviousPkScripts for EVERY "
          "universe transaction and RangeTransactions for 7 ranges (fixed: (0,-1),(-1,0),(-1,-1); 4 drawn from block heights +-1, -1, 0, max, in both "
          "directions) are compared with the ledger. Non-trivial = a transaction moved between confirmed and unconfirmed and a spent/debit flag changed."),
    assumptions=_TX_ASSUME,
    units=[dict(name="history", run="^TestC13History$", quick=6000, thorough=10000, shards_quick=2, shards_thorough=16)],
)

_MGR_ASSUME = [
    "scrypt work factor replaced by N=16 through waddrmgr.SetSecretKeyGen (public API); the properties do not depend on the work factor",
    "the oracle (internal/bip32ref) follows btcsuite's legacy hardened-derivation rule step by step and is cross-checked against hdkeychain on 3000 seeds; "
    "invalid BIP32 children (probability 2^-127) cannot be generated",
    "imports pass a non-nil BlockStamp as every caller does; near-miss passphrases that are HMAC-key-equivalent (finding F8, owned by C17) are not generated here",
]

PROPS["C03"] = dict(
    pkg="c03", level="exploration",
    rule=("rapid stateful machine over a real waddrmgr.Manager on bbolt (4-25 steps quick, up to 50 thorough): next/extend/lookup/derive-by-path (with and without key cache)/"
          "mark-used/lock/unlock (right, wrong)/passphrase change/new account/imported xpub account (second seed, optional schema override)/rename/import key/import script/"
          "custom scope/restart, over regtest/testnet/mainnet and seeds of 16-64 bytes incl. seeds where the legacy hardened rule differs from BIP32. Every returned address is "
          "compared with an independent BIP32 derivation; after EVERY step EVERY issued address is looked up again and its private-key accessor must agree with the oracle key "
          "and the lock state; address objects handed out by DeriveFromKeyPath while locked are kept until the next restart and checked the same way; the account cache may be dropped "
          "(InvalidateAccountCache, as the wallet does after a rolled-back recovery batch) at any step; an extension may cover both branches of an account in one transaction. "
          "Non-trivial = >= 3 addresses on >= 2 branches/scopes and one of restart, lock-issue-unlock, extend, imported account."),
    assumptions=_MGR_ASSUME,
    units=[dict(name="addresses", run="^TestC03Addresses$", quick=1500, thorough=3000, shards_quick=2, shards_thorough=16, timeout=1500)],
)
PROPS["C05"] = dict(
    pkg="c05", level="exploration",
    rule=("same machine weighted to lock/unlock (right passphrase, one-bit/truncated/extended/empty/case/other near misses)/passphrase change/restart with address, account and "
          "import operations in between; after every step every managed address' PrivKey/ExportPrivKey/Script and Manager.Encrypt/Decrypt(CKTPrivate|CKTScript) are checked against "
          "the model's lock state, NewAccount/ImportPrivateKey/secret ImportScript/NewScopedKeyManager/DeriveFromKeyPath(Cache) must fail with a locked or watching-only error while "
          "locked, and right after every transition into the locked state the build-tagged report must show every clear-text key buffer (master, crypto, account, address keys, "
          "P2SH scripts, hashed passphrase, derived-key cache) nil or zero. Non-trivial = lock after a private-key access, a wrong-passphrase unlock, and a passphrase change or restart."),
    assumptions=_MGR_ASSUME + ["clear text of witness/taproot script addresses is reported as an observation only (the statement speaks of private keys)",
                               "DeriveFromKeyPathCache while locked must fail and return no key; the error class is not asserted"],
    units=[dict(name="lockstate", run="^TestC05LockState$", quick=2500, thorough=3000, shards_quick=2, shards_thorough=16, timeout=1500),
           dict(name="wallet", run="^TestC05WalletLevel$", quick=300, thorough=2000, shards_quick=1, shards_thorough=16, timeout=1500)],
)
PROPS["C08"] = dict(
    pkg="c08", level="exploration",
    rule=("same machine over a database proxy; 30% of the address-issuing / account-creating transactions are rolled back (error after success = dry run, or failed commit); after "
          "EVERY step a second manager is opened on the same database, brought to the same lock state, and both answer the same query set (every issued/imported address with "
          "metadata and used flag, never-issued next addresses, AccountProperties, last addresses, names, ForEachAccount, SyncedTo, BlockHash, Birthday, watch-only) - answers must be "
          "equal and persisted key counts must equal what committed operations issued; the next committed request must return the oracle's next address. Non-trivial = a rolled-back "
          "issuing transaction followed by a committed issue, or rename/mark-used between lookups. Wallet-level unit: a funded wallet performs 2-10 of NewAddress, NewChangeAddress, "
          "CreateSimpleTx (dry run and signed), FundPsbt, ImportAccountDryRun and ImportAccount (BIP84 vpub from a second seed); after each the running wallet's and a freshly opened "
          "manager's answers (account list, names, key counts, last addresses of every account of the default scopes) must be equal, and a rolled-back or refused operation must leave "
          "all of them unchanged. The manager machine also drops account caches (InvalidateAccountCache) and extends both branches of an account in one transaction."),
    assumptions=_MGR_ASSUME + ["rolled-back transactions contain address-issuing operations and account creations (what dry runs and failed commits of real callers contain); "
                               "addresses produced only inside rolled-back transactions are excluded from lookups (cache residue of never-issued addresses is outside the statement)"],
    units=[dict(name="restart", run="^TestC08MemoryEqualsRestart$", quick=400, thorough=1500, shards_quick=2, shards_thorough=16, timeout=1500),
           dict(name="wallet", run="^TestC08WalletLevel$", quick=300, thorough=1200, shards_quick=1, shards_thorough=16, timeout=1500)],
)
PROPS["C07"] = dict(
    pkg="c07", level="exploration",
    rule=("rapid draws direct calls of txauthor.NewUnsignedTransaction + AddAllInputScripts: 0-400 requested outputs (P2PKH/P2SH/P2WPKH/P2WSH/P2TR/OP_RETURN, "
          "counts biased to 0,1,2,251..254), rate 1000..1e6 sat/kvB (about half not multiples of 1000, tuned so rate x estimate sits on/next to a truncation boundary), "
          "0-40 coins (thorough: sometimes 250-256) of mixed P2PKH/P2WPKH/nested-P2WPKH/P2TR locked to real compressed keys, amounts aimed at outputs + {required fee, "
          "fee without change, first guess, fee+dust} +- {0,1,dust,...}, delivered by copies of wallet.makeInputSource (generated order) or constantInputSource, four change "
          "script types. Every success is signed, measured with mempool.GetTxVirtualSize and verified with StandardVerifyFlags. Non-trivial = success with >=2 input types or "
          ">=252 outputs or leftover within 2 dust thresholds of the zero-change boundary; or an insufficiency (justified or not) within 2x required fee of the boundary. "
          "Distinct = fingerprint of the rendered case. Wallet-level unit: a complete wallet funded with coins of every type and many sizes creates signed transactions through "
          "Wallet.CreateSimpleTx (scope nil or one of four, 8 fee rates, largest/random selection, amounts leaving little or no change); inputs are valued from the harness ledger, the real signed "
          "virtual size is measured, and conservation, requested outputs (as a multiset: the wallet randomises the change position), lower and upper fee bound and the dust rule are checked; a quarter of the requests are sized 0-3000 sat below the most the coins can pay largest-first, and an "
          "insufficient-funds answer is compared with the ledger's eligible coins (one-sided: unjustified only if a largest-first prefix, resp. all coins that pay for themselves, cover "
          "outputs plus the fee of the worst-case estimate)."),
    assumptions=["requested outputs pass txrules.CheckOutput at DefaultRelayFeePerKb as wallet.sendOutputs / FundPsbt enforce (non-dust, OP_RETURN any value >= 0)",
                 "compressed keys only (author.go BUGS: uncompressed P2PKH out of scope); P2SH coins are P2SH-P2WPKH, P2TR coins are BIP86 key-spend",
                 "input sources behave like wallet.makeInputSource / constantInputSource (re-implemented in the harness because they are unexported); coin values >= 1",
                 "'required fee' of the insufficient-funds clause = rate x code base's worst-case estimate for the delivered input mix INCLUDING a change output (weakest reading); "
                 "coins covering only the fee of the change-less transaction are counted as an observation class, not asserted",
                 "upper bound uses the code base's own txsizes.EstimateVirtualSize as 'the worst-case size estimate'"],
    units=[dict(name="author", run="^TestC07Author$", quick=10000, thorough=30000, shards_quick=1, shards_thorough=16),
           dict(name="wallet", run="^TestC07WalletLevel$", quick=400, thorough=1500, shards_quick=1, shards_thorough=16, timeout=1500),
           dict(name="regress", kind="plain", run="^TestC07Regress", quick=None, thorough=None),
           dict(name="fuzz", kind="fuzz", run="^FuzzC07$", tiers=["thorough"], thorough="120s", timeout=600)],
)
PROPS["C17"] = dict(pkg="c17", level="exploration",
  rule=("rapid: (a) plaintext 0-300 bytes (empty/1/short/block-edge/long; random, zero, 0xff) x key (GenerateCryptoKey, drawn bytes, zero, ff, one-bit) x second key (independent or one bit off): EVERY bit flip, EVERY truncation from end and front, 4-12 drawn overwrite/delete/insert/append/prepend/swap/splice edits must be refused with error and no data; round trip; 4 encryptions pairwise different; other key fails both ways. (b) passphrase 0-64 bytes (empty/1/ascii/binary/64/utf8), scrypt N=2..1024 r=1..8 p=1..2: NewSecretKey->Marshal->Unmarshal->DeriveKey re-derives the same key and opens the original's ciphertext; 8-15 near misses (bit flip, drop first/last/mid, add byte/NUL/space/newline, case, transpose, doubled, empty) => ErrInvalidPassword; salt+digest bit flips (all 512 in ~1/10 of cases, else 8+8 drawn + digest edge bits) and swapped N/r/p => ErrInvalidPassword; every wrong encoding length => ErrMalformed. (c) one waddrmgr.Manager: sequences of encrypt/decrypt/tamper over CKTPublic/Private/Script with lock, unlock, near-miss unlock, reopen. Non-trivial: (a) plaintext non-empty so nonce, tag and body each had tamper positions; (b) >= 1 near miss; (c) case had a public/private cross decrypt and a locked refusal. Distinct = fingerprint of the rendered case. Concurrent unit: 1-4 goroutines Encrypt(CKTPrivate) in a loop while another goroutine runs 40-200 Lock/Unlock cycles; every ciphertext an Encrypt call returned must decrypt to its plaintext under the private key afterwards (schedules sampled). A third of the snacl cases wipe a second new key before its first Marshal and require the creating passphrase to bring it back."),
  assumptions=["scrypt parameters kept small (N<=1024); N/r/p encodings are only exchanged for other small valid values",
               "F8 (open): passphrases equal after HMAC key padding (trailing 0x00 / SHA-256 for >64 bytes) are excluded and counted",
               "CKTScript: only same-type round trip, tamper failure and locked refusal are asserted; its key is all-zero on this tree (recorded as note)",
               "nonce/salt/GenerateCryptoKey randomness comes from crypto/rand inside snacl; failure messages carry key, plaintext and ciphertext in hex"],
  units=[dict(name="cryptokey", run="^TestC17CryptoKey$", quick=15000, thorough=300000, shards_quick=1, shards_thorough=16),
         dict(name="secretkey", run="^TestC17SecretKey$", quick=1000, thorough=8000, shards_quick=1, shards_thorough=16, gomaxprocs=1),
         dict(name="manager", run="^TestC17Manager$", quick=4000, thorough=15000, shards_quick=1, shards_thorough=16),
         dict(name="concurrent", run="^TestC17SealWhileLocking$", quick=40, thorough=400, shards_quick=1, shards_thorough=4),
         dict(name="regress", kind="plain", run="^TestC17Regress", quick=None, thorough=None),
         dict(name="fuzz-decrypt", kind="fuzz", run="^FuzzC17Decrypt$", tiers=["thorough"], thorough="120s", timeout=600),
         dict(name="fuzz-unmarshal", kind="fuzz", run="^FuzzC17Unmarshal$", tiers=["thorough"], thorough="60s", timeout=600)])
PROPS["C18"] = dict(module="harness26", go="go1.26.8", pkg="c18", level="exploration",
  rule=("rapid draws a script (buffer 0-8; 0-6 steps [10 thorough] of producer burst 1-40 / consumer receive / both at once with fake-clock pauses on both sides; end = drain+Stop, Stop with backlog, or Stop after J sends of a running burst with optional concurrent consumer); each script is executed 4 times (8 thorough), each in a fresh testing/synctest bubble; synctest.Wait decides 'durably blocked', only the bubble's fake clock is used. Non-trivial = in one execution a burst pushed the backlog beyond buffer+2 (overflow list in use) and the consumer received across it while the producer was still sending. Distinct = fingerprint of script + executed interleavings."),
  assumptions=["one producer goroutine at a time (the statement speaks of a producer); items are consecutive integers",
               "items in flight at Stop may be dropped: after Stop only order/no-duplication of what is still delivered and termination of the worker are asserted",
               "interleavings are sampled (runtime select choice, 4-8 repeats), not enumerated; the logged trace is the reproduction"],
  units=[dict(name="queue", run="^TestC18Queue$", quick=30000, thorough=300000, shards_quick=1, shards_thorough=16)])

_WALLET_ASSUME = [
    "the complete wallet is driven through its public API (wallet.Create/OpenWithRetry/Start/SynchronizeRPC) against internal/simchain, a model backend implementing chain.Interface; "
    "notifications reach the wallet through an unbounded FIFO feeding an unbuffered channel and the harness waits on a sentinel instead of sleeping",
    "the model backend is ideal in relevance: it reports every transaction paying a watched address or spending an output that pays one, however old (real backends may miss re-confirmations of spends they stopped watching)",
    "regtest parameters (no wait for backend-current), scrypt N=16 via SetSecretKeyGen, fork points at or above the wallet's birthday block, new branch at least as long as the old one",
]

PROPS["C15"] = dict(
    pkg="c15", level="exploration",
    rule=("rapid draws a chain evolution of 1-14 steps (40 thorough) after an initial chain of 8-40 blocks around the wallet birthday: extend 1-5 blocks (mempool and new funding "
          "transactions to four address types, spends of wallet coins, coinbases paying the wallet), reorg depth 1-8 with a new branch re-confirming a subset in other blocks, stale "
          "and repeated disconnect/connect notifications, mempool announcements, and stop/evolve-while-down/restart; both delivery styles (btcd: RelevantTx+BlockConnected in either "
          "order; bitcoind: FilteredBlockConnected+BlockConnected). After EVERY step (sentinel-quiesced): SyncedTo = backend tip, remembered hash of every height from the birthday "
          "block to the tip = best chain, every confirmed transaction of the store sits in a best-chain block containing it, CalculateBalance(0,1,2,6) and the status of every "
          "relevant transaction equal the harness ledger; repeated after a final reopen. Non-trivial = reorg of depth >= 2 touching a block with a wallet transaction, or a reorg while stopped."),
    assumptions=_WALLET_ASSUME,
    units=[dict(name="tip", run="^TestC15TipFollowsBackend$", quick=500, thorough=2500, shards_quick=2, shards_thorough=16, timeout=1500),
           dict(name="regress", kind="plain", run="^TestC15Regress", quick=None, thorough=None, timeout=300)],
)

PROPS["C11"] = dict(pkg="c11", level="exploration",
  rule=("plan of 1-8 (thorough 1-16) transactions on one real bdb file drawn first (model-steered: 90% existing buckets, locality, bulk puts making multi-page buckets), then executed against "
        "internal/dbmodel (copy on begin): walletdb.Update/db.Update/View/db.View/Batch, manual BeginReadWriteTx+Commit/Rollback, BeginReadTx; 0-12 (24) ops each (put/get/delete, nested create/"
        "create-if-not-exists/delete to depth 3, top-level create/delete, sequences, ForEach, ForEachBucket, cursor walks incl. Delete+re-seek, writes through a read tx); function outcome nil/error/panic, "
        "early (before any op) or late; reopen p=0.15; after every tx a fresh read tx must equal the committed model, after a failed/panicked one a probe write tx must commit (20 s watchdog per step). "
        "Non-trivial = >=2 tx with >=1 failed/panicked/rolled back after a write, or a cursor walk over >=3 keys with >=2 Next and >=2 Prev, or a successful nested-bucket delete; distinct = fingerprint of the rendered plan. Second unit: 2-9 goroutines call walletdb.Batch concurrently (each writing 1-3 keys of its own and sometimes a nested bucket, a drawn subset returning an error, starts staggered by 0-3 ms, 1-3 rounds with optional reopen); a call that returned nil has all its writes in the database, a call that returned its own error has none. Half of the manual read-write transactions are ended through the handle a top-level bucket gives out (Bucket.Tx()). Non-trivial = a round with failing and successful callers."),
  assumptions=["one transaction at a time on the handle (bbolt documents that a read tx and a write tx opened from the same goroutine may deadlock on remap); snapshot isolation between overlapping transactions is therefore not exercised",
               "bucket names <= 300 bytes (bbolt does not size-check bucket names); a bucket handle is re-fetched for every operation; the bucket is not modified between the calls of one cursor operation except by cursor.Delete",
               "not asserted (interface silent): cursor position after Delete or after a nil result, order of ForEachBucket, exact error of DeleteTopLevelBucket / sequence calls / cursor.Delete / CreateBucket on a read tx, key size limit (stored or ErrKeyTooLarge), nil vs empty slice for an empty value, DeleteNestedBucket with an empty name (only: fails)",
               "open findings F14/F15 (bbolt cursor Last/Prev over pages emptied in the same transaction) are excluded by exact shape predicates and counted"],
  units=[dict(name="tx", run="^TestC11Transactions$", quick=8000, thorough=25000, shards_quick=1, shards_thorough=16),
         dict(name="batch", run="^TestC11ConcurrentBatch$", quick=400, thorough=3000, shards_quick=1, shards_thorough=8),
         dict(name="regress", kind="plain", run="^TestC11Regress", quick=None, thorough=None, timeout=300),
         dict(name="fuzz", kind="fuzz", run="^FuzzC11$", tiers=["thorough"], thorough="240s", parallel=8, timeout=900)])
PROPS["C19"] = dict(pkg="c19", level="exploration",
  rule=("1-3 fake migration.Manager per case, each a table of 0-12 distinct version numbers (dense / sparse / around 2^31 and 2^32-1) declared ascending, descending or shuffled with nil migrations mixed in, stored version below / "
        "equal to a table number / between / at / above the latest; migration.Upgrade inside one walletdb.Update on a real bdb file: fault-free, again on the upgraded state, and once per fault position (CurrentVersion, EVERY pending "
        "migration failing before or after its writes, SetVersion, of every manager), each followed by a fault-free retry; trace, SetVersion calls, stored version seen by each migration and inside the tx, and a recursive dump of the file "
        "are compared with a pure model. VersionsToApply/GetLatestVersion are also called directly. Real managers: copy of a wallet file with the wtxmgr/waddrmgr version marker forced above/at/below the latest, tried through wtxmgr.Open, "
        "waddrmgr.Open, migration.Upgrade, wallet.Open and Upgrade with SetVersion / the real migration failing after it ran. Non-trivial = >=2 pending migrations declared out of order or >=2 non-nil pending migrations (failure at a "
        "position > 1); for the real managers: a marker above the latest, or a real migration rolled back."),
  assumptions=["version numbers within one table are distinct (as in both real tables)", "a failing SetVersion of the fake manager fails before writing; the wrapped real managers write and then fail",
               "real-manager downgrades are limited to wtxmgr 0/1 and waddrmgr 7 (older waddrmgr migrations need chain data that a fresh wallet does not have); faults are injected by wrapping the real managers, not through proxydb"],
  units=[dict(name="tables", run="^TestC19UpgradeTables$", quick=10000, thorough=60000, shards_quick=1, shards_thorough=16),
         dict(name="real", run="^TestC19RealManagers$", quick=3000, thorough=10000, shards_quick=1, shards_thorough=4),
         dict(name="regress", kind="plain", run="^TestC19Regress", quick=None, thorough=None),
         dict(name="fuzz", kind="fuzz", run="^FuzzC19$", tiers=["thorough"], thorough="120s", parallel=8, timeout=600)])

PROPS["C16"] = dict(
    pkg="c16", level="exploration",
    rule=("rapid draws a seed (incl. legacy-rule seeds), a recovery window W in {1,2,3,5,8,12} (thorough: sometimes 250), a chain of 20-90 blocks (thorough: sometimes 2001-2300, crossing the "
          "recovery batch) with monotone timestamps where block F is the first with a timestamp >= the wallet's creation time, and a usage pattern built constructively to satisfy the "
          "look-ahead condition: a paying block pays 1-4 indices in [0, h+W] per (default scope, branch) where h is the highest index paid in EARLIER blocks, with re-use, several payments "
          "per block, same-block spends, later spends of recovered outputs with change to internal addresses within the window. Addresses come from the independent BIP32 oracle, no "
          "original wallet exists. The wallet is created from the seed with window W, started locked or unlocked against the model backend, with optional interruptions (n-th "
          "FilterBlocks/GetBlock/GetBlockHeader call fails once; stop and reopen during the first attempt). After the sync: tip and hashes, every used address known and marked used, every "
          "paying/spending transaction recorded in its block, CalculateBalance(0,1,6) and ListUnspent equal the harness ledger, next index above the highest used one per scope/branch, "
          "birthday block below F, and (unlocked) the private key of every recovered address equals the oracle's. Second unit: the exported BranchRecoveryState driven with the "
          "expandScopeHorizons protocol and generated INVALID child indices against the model 'the W valid indices after the highest found one are watched'. "
          "Half of the chains longer than one 2000-block recovery batch pay, in every block of a 21-block band around the end of the first batch, the address at the far end of one "
          "branch's look-ahead window. Non-trivial = >= 2 scopes/branches used, a jump of >= 2 indices and a spend of a recovered output; resp. an invalid child inside the window."),
    assumptions=_WALLET_ASSUME + ["only the default account of the four default scopes is used (what recovery scans)", "invalid BIP32 children cannot be produced with real keys; they are covered at the BranchRecoveryState level only",
                                 "payments occur only in blocks whose timestamp is >= the wallet's creation time; block timestamps are monotone"],
    units=[dict(name="recovery", run="^TestC16Recovery$", quick=200, thorough=800, shards_quick=2, shards_thorough=16, timeout=3000),
           dict(name="branch", run="^TestC16BranchRecoveryState$", quick=20000, thorough=100000, shards_quick=1, shards_thorough=4)],
)
PROPS["C04"] = dict(
    pkg="c04", level="exploration",
    rule=("mgrsim histories of 4-30 (thorough 60) operations over a real manager on a bbolt file behind proxydb (next/extend/derive/lookup/mark-used/new account/imported xpub account/"
          "import key/P2SH,P2WSH,taproot script/passphrase change (8-20 chars, always searchable)/lock/unlock/restart/custom scope); after EVERY commit the file bytes are read and searched, "
          "once the committing operation has returned, for every secret so far (master/purpose/coin-type/account xprv: scalar, minimal form, hex, 78-byte, base58; issued + 3 look-ahead address keys "
          "raw/hex/WIF; imported keys; secret scripts; every passphrase ever used) and, as no transaction is ever recorded, every xpub/public key/x-only/hash160/taproot key/script hash/address string; "
          "canary names must be found. Wrong-key oracle after create, every 5 commits, at the end and after conversion: every value/key/length-prefixed field offered to Manager.Decrypt(CKTPublic) of a "
          "never-unlocked manager, the all-zero key, the scrypt key of the public passphrase and every 32-byte clear text so recovered; no private key/xprv/passphrase may come out. 1/3 of histories "
          "convert to watching-only: ciphertexts the private/script key opened before are gone from the live namespace, reopen, every address still found, Unlock refused for every passphrase, every "
          "private accessor refused, then 0-6 watching-only operations (incl. ImportPrivateKey). Wallet-level unit: wallet.Loader.CreateNewWallet on bdb, public wallet API only, file searched after "
          "every call. A secret script or private key opened by a key the public passphrase gives access to is a violation (the all-zero script key residue of this tree is an observation). Non-trivial = >= 3 commits with >= 1 import/new account/scope/passphrase change and >= 20 needles. Distinct = fingerprint of the rendered history."),
    assumptions=_MGR_ASSUME + ["passphrases are 8-20 printable characters containing a digit; needles shorter than 8 bytes are never searched (count measured: 0)",
                 "no transaction is recorded in any history, so public material must be hidden throughout",
                 "secret scripts opened by the all-zero key are an observation (cryptoKeyScript is never derived on this tree), not raised",
                 "histories that convert to watching-only import no secret taproot scripts; deletePrivateKeys has no adtTaprootScript case (observation recorded by the plain unit)",
                 "ciphertexts-gone-after-conversion is a doc-comment-level claim (ConvertToWatchingOnly/deletePrivateKeys), asserted only for keys, imported keys, P2SH and secret P2WSH scripts",
                 "crash images are covered by the page-superset argument (DESIGN C04 L); wallet-level unit uses an idle chain backend and sets the birthday block itself"],
    units=[dict(name="disk", run="^TestC04NoSecretOnDisk$", quick=600, thorough=2000, shards_quick=2, shards_thorough=16, timeout=1500),
           dict(name="wallet", run="^TestC04WalletLevel$", quick=300, thorough=1500, shards_quick=2, shards_thorough=16, timeout=1500),
           dict(name="observe", kind="plain", run="^TestC04Observe", quick=None, thorough=None)])
PROPS["C10"] = dict(
    pkg="c10", level="fault_enumeration",
    rule=("states come from C01-style store histories (3-30 events, 60 thorough) and mgrsim manager histories (2-14 steps, 30 thorough; half start unlocked); at 1-3 points per history one enabled "
          "mutating operation is drawn with fixed arguments (store: insert unconfirmed+credits, insert confirmed block incl. move-from-unconfirmed / conflict eviction / coinbase / reconfirm, "
          "AddCredit alone, Rollback(h), RemoveUnminedTx, LockOutput, UnlockOutput, DeleteExpiredLockedOutputs at an instant relative to an expiry, PutTxLabel; manager: Next/Extend "
          "External/Internal addresses, NewAccount, NewAccountWatchingOnly, RenameAccount, ImportPrivateKey, ImportScript/ImportWitnessScript, MarkUsed, SetSyncedTo, SetBirthdayBlock, "
          "ChangePassphrase public/private, NewScopedKeyManager, ConvertToWatchingOnly). The database file is copied; copy 0 runs it through a counting proxy (N mutating calls, reference result and "
          "post-state); for EVERY k in 1..N a fresh copy (own manager, same lock state) runs it with the k-th Put/Delete/CreateBucket* failing inside one walletdb.Update. Required: error returned "
          "(success only with the full effect, judged by the query set and the raw namespace); after the rollback the C01/C13 query set + leases + labels (store) resp. the C08 query set + AddrAccount "
          "+ ForEachAccountAddress + per-operation account/scope probes (manager) equal the pre-operation answers on the running objects, on a fresh manager and after close/reopen; the retry (on the "
          "running manager or on the reopened one, alternating by position) succeeds with the reference result (= oracle addresses / account number) and the reference post-state. "
          "Non-trivial = case contains an enumeration with N >= 2; distinct positions are reported as classes pos:<kind>/<state class>/k=<k>; counters: fault-positions[:kind], enumerations[:kind], N=<n> histogram."),
    assumptions=_TX_ASSUME + _MGR_ASSUME + [
        "exactly one mutating call fails per run; read calls are never failed (bbolt reads cannot fail)",
        "AddCredit alone is enumerated on a state where the record was inserted and committed first (real callers insert and credit in one transaction; that shape is the insert-* kinds)",
        "cache entries for never-issued addresses (unissued:<addr> of the failed operation's own addresses) and the birthday timestamp are outside the compared query set (DESIGN C10 L); ignored entries are counted",
        "manager values contain random nonces and wall-clock stamps: raw comparison for the manager uses bucket/key sets and value lengths, for the store exact bytes",
        "states after ConvertToWatchingOnly are not continued (the conversion only ever runs on copies)"],
    units=[dict(name="store", run="^TestC10StoreFaults$", quick=1000, thorough=3500, shards_quick=2, shards_thorough=16),
           dict(name="manager", run="^TestC10ManagerFaults$", quick=160, thorough=500, shards_quick=2, shards_thorough=16, timeout=1500),
           dict(name="regress", kind="plain", run="^TestC10Regress", quick=None, thorough=None)],
)

PROPS["C06"] = dict(
    pkg="c06", level="exploration",
    rule=("a complete wallet (four default scopes x accounts 0,1, external and change addresses) gets a generated history through the model backend: confirmed and unconfirmed receipts on every "
          "address type, a coinbase paying the wallet brought to 98-102 confirmations, spends by the wallet itself and by another spender of the same keys (mined or unconfirmed), reorgs of depth 1-2, "
          "LockOutpoint/UnlockOutpoint, LeaseOutput/ReleaseOutput with two identifiers and 60/120-minute leases that a harness-owned store clock lets expire (1-600 minute steps, incl. exactly at the expiry); then 1-6 requests (12 thorough): CreateSimpleTx (dry run or signed; optionally WithCustomSelectUtxos), SendOutputs, "
          "SendOutputsWithInput (explicit inputs drawn from eligible, ineligible and foreign outpoints, sometimes with a duplicate), FundPsbt; scope nil or one of four, account 0/1, minconf "
          "0,1,2,3,99,100,101, fee rate 1000-500000 sat/kvB, largest/random selection, 1-5 outputs to P2PKH/P2SH/P2WPKH/P2WSH/P2TR, sometimes overspending. For every successful result each input must be "
          "in the harness ledger's eligible set for that request, used once, not an input of an earlier published transaction; signed results are verified input by input with txscript.NewEngine under "
          "StandardVerifyFlags using previous scripts and amounts from the ledger; requested outputs present unchanged; an explicit selection with an ineligible/foreign/duplicate outpoint must be refused; "
          "a refused request leaves balances, spendable set and mempool unchanged. Non-trivial = a successful result while >= 2 different kinds of ineligible coins existed."),
    assumptions=_WALLET_ASSUME + ["change addresses created by the wallet are registered in the ledger from Wallet.AddressInfo (their derivation is C03's business)",
                                 "refusals for lack of funds are counted, not judged (fee bounds are C07's business)",
                                 "spends from the reserved imported-keys account are not generated (returned unsigned by design)"],
    units=[dict(name="eligible", run="^TestC06EligibleInputs$", quick=500, thorough=2000, shards_quick=2, shards_thorough=16, timeout=1500)],
)

PROPS["C20"] = dict(
    pkg="c20", level="exploration",
    rule=("a funded wallet (confirmed and unconfirmed coins on four address types) performs 2-6 steps (14 thorough) of: broadcast attempt (SendOutputs, or CreateSimpleTx + PublishTransaction; sometimes "
          "explicitly chained on an unconfirmed output of an earlier send) with a drawn backend answer {accepted, already-in-mempool, already-known, already-confirmed, insufficient-fee, "
          "min-fee-not-met, missing-inputs, other rejection, address-subscription failure}; mine; resynchronise (stop, optionally mine while down, backend keeps or loses its mempool and may refuse one "
          "re-offered transaction, restart). Snapshot (balance 0/1, spendable set, unconfirmed hashes, leases) before each attempt: error returned => identical snapshot afterwards and the "
          "transaction unknown; accepted / already-in-mempool => recorded exactly once, inputs no longer spendable, balances equal the harness ledger; after every resynchronisation the "
          "backend's call log must show every still-unconfirmed transaction offered again, each after its unconfirmed parents (bounded wait of 20 s on the call log only), a transaction refused "
          "on re-broadcast and everything spending it forgotten, balances equal to the ledger. Non-trivial = a failing attempt while other unconfirmed transactions existed, or a re-broadcast after restart."),
    assumptions=_WALLET_ASSUME + ["for already-known / already-confirmed answers the statement is silent about the store: only internal consistency is required",
                                 "the re-broadcast runs in a goroutine the wallet spawns; the harness waits on the backend call log (20 s bound that only matters when offers are missing)"],
    units=[dict(name="broadcast", run="^TestC20Broadcast$", quick=600, thorough=2500, shards_quick=2, shards_thorough=16, timeout=1500)],
)

PROPS["C09"] = dict(
    pkg="c09", level="exploration",
    rule=("a funded wallet whose database is wrapped by the commit-handler-gating proxy; rapid draws 2-6 workers with scripts of 1-4 calls (6 thorough) from NewAddress, NewChangeAddress, "
          "CurrentAddress, CreateSimpleTx (signed or dry run, needs change), FundPsbt on 1-2 (scope, account) pairs so that calls collide on a branch, and a gate plan (80% of cases: every "
          "k-th commit's OnCommit handlers are held until another worker completes a call or 3-15 ms elapse, i.e. exactly in the window after bbolt released the writer lock and before the "
          "in-memory index advances). Oracle (outcome only): addresses obtained by successful committed calls are pairwise distinct, lie on the requested scope/account/branch, their indices "
          "are distinct and inside [pre, post) of the branch, indices of the range nobody received are at most the number of calls that may draw one silently (CurrentAddress, change-less "
          "transactions), and a freshly opened manager on the same database reports the same next indices as memory. A second unit repeats ungated schedules under the race detector. "
          "Non-trivial = >= 2 workers issued on the same branch in a gated case."),
    assumptions=_WALLET_ASSUME + ["schedules are sampled; the hazardous placement (handler vs. another caller's derivation) is constructed by the gate, everything else is left to the Go scheduler",
                                 "real-time bounds only delay a correct tree; they cannot create a duplicate", "ImportAccountDryRun (sixth holder of the address mutex) is not part of the call mix"],
    units=[dict(name="gated", run="^TestC09ConcurrentAddresses$", quick=250, thorough=1200, shards_quick=2, shards_thorough=16, timeout=1500),
           dict(name="race", run="^TestC09ConcurrentAddresses$", race=True, quick=60, thorough=300, shards_quick=1, shards_thorough=4, timeout=1500, env={"GOMAXPROCS": "8"})],
)

#!/usr/bin/env python3
"""Validate MANIFEST.json and evidence files against the schemas (uses the tooling venv's jsonschema)."""
import json, glob, sys
import jsonschema
ok = True
try:
    jsonschema.validate(json.load(open('/verif/MANIFEST.json')), json.load(open('/root/.vp/MANIFEST.schema.json')))
    print("MANIFEST.json valid")
except Exception as e:
    ok = False; print("MANIFEST.json INVALID:", e)
sch = json.load(open('/root/.vp/EVIDENCE.schema.json'))
for f in sorted(glob.glob('/verif/evidence/*.json')):
    try:
        jsonschema.validate(json.load(open(f)), sch); print(f, "valid")
    except Exception as e:
        ok = False; print(f, "INVALID:", str(e)[:300])
sys.exit(0 if ok else 1)

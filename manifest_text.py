# Human-written parts of MANIFEST.json, per property.
HOOK_COMMITS = ["ad5201d"]

_PENDING = "check not built yet in this session (machinery in progress; see DESIGN.md)"
NOT_APPLICABLE = [dict(property_id="C%02d" % i, reason=_PENDING) for i in range(1, 21)]

TEXT = {}

def _t(pid, level_text, level_note, technique, design_ref):
    TEXT[pid] = dict(level_text=level_text, level_note=level_note, technique=technique, design_ref=design_ref)
    global NOT_APPLICABLE
    NOT_APPLICABLE = [n for n in NOT_APPLICABLE if n["property_id"] != pid]

_t("C01",
   "Generated chain-consistent event histories are applied to a real wtxmgr.Store on a real bbolt file and, after every event, Balance "
   "(grid of minconf x sync height), UnspentOutputs and OutputsToWatch are compared with an independent reference ledger recomputed from "
   "scratch. Sampling, not proof: it shows agreement on thousands of distinct histories per run and shrinks any disagreement to a minimal history.",
   "Trusted: the reference ledger (a transcription of the statement), the node model that decides which events are chain-consistent, btcd's wire/blockchain helpers.",
   "property-based testing: rapid stateful history generation vs reference-model oracle", "DESIGN.md §3 C01")
_t("C02",
   "Explicit sub-claims (who is unconfirmed, who is gone, who sits in which block) are checked against the ledger after every event, and a "
   "model-free metamorphic relation compares the store after a history with a fresh store built directly from the surviving facts.",
   "Trusted: ledger and node model as for C01; the metamorphic oracle trusts nothing but the store's own read API.",
   "property-based testing: rapid histories, reference model + metamorphic replay", "DESIGN.md §3 C02")
_t("C12",
   "Lease/release/expiry histories with a harness-owned clock interleaved with receipts, spends, confirmations and reorgs; lease list, "
   "error classes, balance and spendable set are compared with ledger leases after every step, including instants exactly at, 1 ns before and after expiry.",
   "Trusted: ledger lease model (expiry = floor-to-second of now+duration, as the storage format implies); build-tagged clock setter hook.",
   "property-based testing: rapid stateful model with test clock", "DESIGN.md §3 C12")
_t("C13",
   "After every event of generated histories every universe transaction is looked up (TxDetails, UniqueTxDetails under right/wrong status, "
   "PreviousPkScripts) and height ranges are iterated in both directions; results must equal the ledger's view.",
   "Trusted: ledger and node model as for C01.",
   "property-based testing: rapid histories vs reference-model oracle", "DESIGN.md §3 C13")
_t("C14",
   "Validity predicate (each member once, every in-set parent before its child) over DependencySort on generated DAGs in varying map order, "
   "over Store.UnminedTxs after generated store histories, plus a native fuzz target in the thorough tier.",
   "Trusted: the DAG-by-construction generator (inputs reference earlier transactions only).",
   "property-based testing + coverage-guided fuzzing with a validity-predicate oracle", "DESIGN.md §3 C14")

HOOK_COMMITS.append("8359675")

_t("C03",
   "A model-based machine drives a real address manager through generated operation histories; every address it issues, looks up, derives or reloads is compared with an "
   "independent BIP32/BIP44-86 derivation from the seed (including btcsuite's legacy hardened rule), indices must be consecutive, and after every step every issued address' "
   "private key must equal the oracle's whenever the wallet is unlocked. Sampling of histories and seeds; no proof.",
   "Trusted: internal/bip32ref (cross-checked against hdkeychain), btcec/btcutil address encoding primitives.",
   "property-based testing: rapid stateful model vs independent derivation oracle", "DESIGN.md §3 C03")
_t("C05",
   "The same machine with a lock-state model: every private-material accessor of every managed address is exercised after every step and must succeed exactly when the model says "
   "unlocked; wrong passphrases must fail and leave it locked; after every operation a manager that is locked or watching-only must show, in a build-tagged memory report, all "
   "clear-text key buffers wiped. A wallet-level unit drives key export, derivation by path, key import, account creation and passphrase change through the wallet's entry points.",
   "Trusted: the lock-state model; the read-only hook VerifSecretsReport (build tag verif) for the wiping half.",
   "property-based testing: rapid stateful model + instrumentation hook", "DESIGN.md §3 C05")
_t("C08",
   "Differential oracle: after every generated step (committed, rolled back by error, or failed commit) a freshly opened manager on the same database answers the same query set as "
   "the running one; any difference, or a next address that differs from what a restart would issue, is a violation. Open known finding F22 (address extension caches before "
   "the commit) is excluded by reloading the manager after a rolled-back extension, and counted.",
   "Trusted: the database proxy that turns commits into failures; waddrmgr.Open as the definition of 'what a restart would say'.",
   "property-based testing: rapid stateful generation with differential (running vs reopened) oracle", "DESIGN.md §3 C08")
_t("C07",
   "Generated (outputs, fee rate, coins, change type) inputs to txauthor.NewUnsignedTransaction; every authored transaction is really signed, its real virtual size measured and "
   "every input verified by the script engine; conservation, fee lower/upper bound, dust rule and justified-insufficiency are checked. Includes the 252/253 compact-size boundary.",
   "Trusted: btcd's script engine and mempool.GetTxVirtualSize; the harness copies of the two unexported input-source constructors.",
   "property-based testing + coverage-guided fuzzing with arithmetic/validity oracles", "DESIGN.md §3 C07")
_t("C17",
   "Exhaustive-per-case tampering (every bit flip, every truncation) of real ciphertexts, passphrase near misses, parameter encodings and manager-level cross-key decryption, "
   "a unit sealing concurrently with lock/unlock cycles, plus two native fuzz targets. One genuine, unfixable deviation (F8) is excluded by an exact predicate and reported as "
   "KNOWN-FINDING.",
   "Trusted: nothing beyond the Go standard library for comparison; secretbox/scrypt are the code under test's dependencies.",
   "property-based testing + fuzzing: round-trip and tamper-rejection oracles", "DESIGN.md §3 C17")
_t("C18",
   "Generated producer/consumer/stop scripts run inside testing/synctest bubbles (Go 1.26.8) so blocking is observable without timeouts; received sequence must be a prefix of the "
   "sent one and equal after draining, producers never block, the worker ends after Stop. Schedules are sampled, not enumerated.",
   "Trusted: testing/synctest's notion of durably blocked; one producer at a time.",
   "property-based testing with harness-owned scheduling (synctest)", "DESIGN.md §3 C18")

_t("C15",
   "Generated chain evolutions (extensions, reorgs up to depth 8 with fork points at or above the wallet's birthday block, stale/repeated notifications, evolution while the wallet is "
   "stopped, blocks found and progress reported while a startup rescan is in flight) are fed to a complete wallet through a "
   "model backend; after every quiesced step tip, per-height hashes, block membership of confirmed transactions and balances are compared with the backend model and an "
   "independent coin ledger, again after reopening. Open known finding F20 (fork point below the birthday block while stopped) is exercised by one fixed regression history and counted.",
   "Trusted: internal/simchain as a faithful (ideal) chain.Interface backend; the sentinel-based quiescence argument (sequential notification loop).",
   "property-based testing: rapid generated chain histories against a backend model, invariant + ledger oracle", "DESIGN.md §3 C15")

_t("C11",
   "Generated plans of committed, failing and panicking transactions (all walletdb entry points) over nested buckets, sequences and cursors are executed on a real bbolt file and "
   "compared with a nested-map model after every transaction and after reopening; a watchdog turns a leaked writer lock into a reported violation; concurrent Batch callers are "
   "held to the per-caller all-or-nothing contract. Two genuine cursor defects of "
   "the pinned bbolt dependency (F14, F15) are excluded by exact predicates and reported as KNOWN-FINDING.",
   "Trusted: internal/dbmodel (nested maps with copy-on-begin); one transaction at a time.",
   "property-based testing + coverage-guided fuzzing: model-based (reference map) oracle", "DESIGN.md §3 C11")
_t("C19",
   "Generated version tables with exhaustive per-table fault positions for migration.Upgrade on a real database file, compared with a pure model (trace, stored version, "
   "byte-for-byte dump, retry equals fault-free run), plus refusal-without-modification checks on real wtxmgr/waddrmgr namespaces whose version marker is forced above/at/below the latest.",
   "Trusted: the pure model of 'numbers above the stored version, ascending, each once'; recursive dump comparison as the definition of unchanged data.",
   "property-based testing + fuzzing with per-case exhaustive fault positions", "DESIGN.md §3 C19")

_t("C16",
   "Usage patterns that satisfy the look-ahead condition are constructed from an independent BIP32 oracle (no original wallet), mined into a model chain, and a wallet restored from the seed "
   "must find every used address, every transaction, the right balance and spendable set, leave next indices above the used ones and start scanning before the first payable block - also "
   "when the backend fails mid-recovery or the wallet is stopped and reopened. The invalid-child arithmetic is covered at the BranchRecoveryState level.",
   "Trusted: internal/bip32ref, internal/simchain (FilterBlocks uses the real chain.BlockFilterer, which is code under test), harness coin ledger.",
   "property-based testing: constructive generator + independent oracle + backend model", "DESIGN.md §3 C16")
_t("C04",
   "After every commit of generated histories the real file bytes are searched (multi-pattern) for every secret the run has produced, computed by an independent oracle, in raw and all "
   "serialised text forms, plus public material; a second oracle offers every stored field to adversaries without the private passphrase (public crypto key, all-zero key, public "
   "passphrase key). Conversion to watching-only is followed by reopen and refusal checks of every private accessor. A wallet-level unit covers the real namespace layout.",
   "Trusted: internal/bip32ref and plain encodings for the needle set; the page-superset argument for crash images (DESIGN C04 L).",
   "property-based testing: generated histories with a byte-scan + wrong-key decryption oracle", "DESIGN.md §3 C04")
_t("C10",
   "Fault enumeration: for every mutating call position k of a drawn operation on a drawn state, a fresh copy of the database runs the operation with exactly that call failing; the "
   "operation must report an error (or have its full effect), all queries must answer as before on the running objects, on a fresh manager and after reopen, and a retry must reproduce "
   "the fault-free result. Exhaustive over positions per (operation, state); states and operations are sampled.",
   "Trusted: internal/proxydb fault injection (walletdb interface level), the C01/C13 and C08 query sets as the definition of 'as before'.",
   "property-based testing with exhaustive single-fault injection per generated (state, operation)", "DESIGN.md §3 C10")

_t("C06",
   "A funded wallet with ineligible coins of every kind receives generated transaction-creation requests through the public API; every input of every result is checked against an "
   "independent coin ledger's eligible set, for reuse, and signed results are verified with the real script engine using ledger data, not the wallet's.",
   "Trusted: harness coin ledger computed from emitted events; btcd script engine; internal/simchain.",
   "property-based testing: generated wallet histories and requests vs ledger eligibility + script-engine validity oracle", "DESIGN.md §3 C06")

_t("C20",
   "Generated broadcast attempts with every backend answer class, including a failing address subscription, against a funded wallet; a before/after snapshot decides 'no trace', the "
   "harness ledger decides 'counted once', and the model backend's call log decides 're-offered after every resynchronisation, parents first', including refusal on re-broadcast.",
   "Trusted: internal/simchain programmable answers and call log; harness coin ledger.",
   "property-based testing: generated histories with fault-injected backend answers, snapshot/ledger/call-log oracles", "DESIGN.md §3 C20")

_t("C09",
   "Generated concurrent call scripts against a complete wallet, with the database proxy holding commit handlers exactly in the window the property names; only outcomes are judged "
   "(distinct addresses, gap-free index ranges, database equals memory). Complemented by ungated runs under the race detector. Schedules are sampled and the named hazard is constructed; "
   "no enumeration of interleavings.",
   "Trusted: internal/proxydb gating (a delay inside OnCommit handlers), the Go race detector for the second unit.",
   "property-based testing: generated schedules with harness-owned gating of commit handlers", "DESIGN.md §3 C09")
NOT_APPLICABLE[:] = []

# Human-written parts of MANIFEST.json, per property.
HOOK_COMMITS = ["ad5201d"]

_PENDING = "check not built yet in this session (machinery in progress; see DESIGN.md)"
NOT_APPLICABLE = [dict(property_id="C%02d" % i, reason=_PENDING) for i in range(1, 21)]

TEXT = {}

def _t(pid, level_text, level_note, technique, design_ref):
    TEXT[pid] = dict(level_text=level_text, level_note=level_note, technique=technique, design_ref=design_ref)
    global NOT_APPLICABLE
    NOT_APPLICABLE = [n for n in NOT_APPLICABLE if n["property_id"] != pid]

_t("C01",
   "Generated chain-consistent event histories are applied to a real wtxmgr.Store on a real bbolt file and, after every event, Balance "
   "(grid of minconf x sync height), UnspentOutputs and OutputsToWatch are compared with an independent reference ledger recomputed from "
   "scratch. Sampling, not proof: it shows agreement on thousands of distinct histories per run and shrinks any disagreement to a minimal history.",
   "Trusted: the reference ledger (a transcription of the statement), the node model that decides which events are chain-consistent, btcd's wire/blockchain helpers.",
   "property-based testing: rapid stateful history generation vs reference-model oracle", "DESIGN.md §3 C01")
_t("C02",
   "Explicit sub-claims (who is unconfirmed, who is gone, who sits in which block) are checked against the ledger after every event, and a "
   "model-free metamorphic relation compares the store after a history with a fresh store built directly from the surviving facts.",
   "Trusted: ledger and node model as for C01; the metamorphic oracle trusts nothing but the store's own read API.",
   "property-based testing: rapid histories, reference model + metamorphic replay", "DESIGN.md §3 C02")
_t("C12",
   "Lease/release/expiry histories with a harness-owned clock interleaved with receipts, spends, confirmations and reorgs; lease list, "
   "error classes, balance and spendable set are compared with ledger leases after every step, including instants exactly at, 1 ns before and after expiry.",
   "Trusted: ledger lease model (expiry = floor-to-second of now+duration, as the storage format implies); build-tagged clock setter hook.",
   "property-based testing: rapid stateful model with test clock", "DESIGN.md §3 C12")
_t("C13",
   "After every event of generated histories every universe transaction is looked up (TxDetails, UniqueTxDetails under right/wrong status, "
   "PreviousPkScripts) and height ranges are iterated in both directions; results must equal the ledger's view.",
   "Trusted: ledger and node model as for C01.",
   "property-based testing: rapid histories vs reference-model oracle", "DESIGN.md §3 C13")
_t("C14",
   "Validity predicate (each member once, every in-set parent before its child) over DependencySort on generated DAGs in varying map order, "
   "over Store.UnminedTxs after generated store histories, plus a native fuzz target in the thorough tier.",
   "Trusted: the DAG-by-construction generator (inputs reference earlier transactions only).",
   "property-based testing + coverage-guided fuzzing with a validity-predicate oracle", "DESIGN.md §3 C14")

export GOFLAGS="-mod=mod -tags=verif" GOPROXY=off GOSUMDB=off GOTOOLCHAIN=local

// C18 - chain notifications are delivered in order, none lost or duplicated.
//
// chain.ConcurrentQueue is driven by a generated script of producer bursts,
// consumer receives and steps where both run at once, ending in Stop at a
// drawn point. Every execution happens inside a testing/synctest bubble
// (Go 1.26): synctest.Wait() returns when every goroutine of the bubble is
// durably blocked, so "the producer has finished all its sends although nobody
// receives", "the consumer is still waiting although an item is owed to it" and
// "nobody accepts a send after Stop" are observed facts, not timeouts; the only
// clock used is the bubble's fake clock. rapid draws the whole script first;
// the script is then executed several times (fresh bubble each) to sample the
// runtime's random choice between ready select cases, which is the only source
// of different interleavings. The executed interleaving (order of completed
// sends s<i> and receives r<i>) is logged: rapid cannot replay scheduler
// choices, so the trace is the reproduction.
package c18

import (
	"fmt"
	"os"
	"runtime"
	"strings"
	"sync"
	"sync/atomic"
	"testing"
	"testing/synctest"
	"time"

	"github.com/btcsuite/btcwallet/chain"
	"pgregory.net/rapid"

	"verifharness26/internal/evid"
)

var thorough = os.Getenv("VERIF_TIER") == "thorough"

type stepSpec struct {
	Kind   string // "burst": producer only; "recv": consumer only; "both": at once
	N      int    // items the producer sends
	K      int    // items the consumer receives (never more than are owed)
	PPause []int  // fake nanoseconds the producer sleeps before its i-th send (0 = none)
	CPause []int  // same for the consumer's i-th receive
}

type endSpec struct {
	Kind   string // "drain": receive everything, then Stop; "backlog": Stop with items queued; "mid": Stop while a burst is being sent
	N, J   int    // mid: burst length, Stop is called once J sends have completed
	K      int    // mid: a consumer receiving K items runs at the same time
	PPause []int
	CPause []int
}

type script struct {
	Buf   int
	Steps []stepSpec
	End   endSpec
}

func (s script) String() string {
	var b strings.Builder
	fmt.Fprintf(&b, "buffer=%d\n", s.Buf)
	for i, st := range s.Steps {
		fmt.Fprintf(&b, "  step %d: %s send=%d recv=%d", i, st.Kind, st.N, st.K)
		if st.Kind == "both" {
			fmt.Fprintf(&b, " producer-pauses=%s consumer-pauses=%s", pauses(st.PPause), pauses(st.CPause))
		}
		b.WriteByte('\n')
	}
	fmt.Fprintf(&b, "  end: %s", s.End.Kind)
	if s.End.Kind == "mid" {
		fmt.Fprintf(&b, " burst=%d stop-after=%d concurrent-recv=%d producer-pauses=%s consumer-pauses=%s",
			s.End.N, s.End.J, s.End.K, pauses(s.End.PPause), pauses(s.End.CPause))
	}
	return b.String()
}

func pauses(p []int) string {
	var parts []string
	for i, d := range p {
		if d > 0 {
			parts = append(parts, fmt.Sprintf("%d:%dns", i, d))
		}
	}
	if len(parts) == 0 {
		return "-"
	}
	return "[" + strings.Join(parts, " ") + "]"
}

// drawPauses: a sleep (1-3 fake ns) before some of n operations. A sleeping
// goroutine lets everybody else run until they block, so pauses move the
// system between "producer ahead" (overflow fills) and "consumer ahead"
// (overflow drains, direct hand-over again) inside one step.
func drawPauses(t *rapid.T, n int, label string) []int {
	p := make([]int, n)
	if n == 0 {
		return p
	}
	style := rapid.SampledFrom([]string{"none", "start", "few", "few", "many"}).Draw(t, label+"style")
	switch style {
	case "none":
	case "start":
		p[0] = rapid.IntRange(1, 3).Draw(t, label+"d")
	case "few":
		k := rapid.IntRange(1, 3).Draw(t, label+"k")
		for i := 0; i < k; i++ {
			p[rapid.IntRange(0, n-1).Draw(t, label+"at")] = rapid.IntRange(1, 3).Draw(t, label+"d")
		}
	case "many":
		for i := range p {
			if rapid.IntRange(0, 2).Draw(t, label+"p") == 0 {
				p[i] = rapid.IntRange(1, 3).Draw(t, label+"d")
			}
		}
	}
	return p
}

func drawBurst(t *rapid.T, buf int, label string) int {
	switch rapid.SampledFrom([]string{"any", "over", "over", "edge"}).Draw(t, label+"size") {
	case "over":
		return rapid.IntRange(buf+2, 40).Draw(t, label)
	case "edge":
		// around the point where the output channel is exactly full
		return rapid.IntRange(max(1, buf-1), buf+3).Draw(t, label)
	default:
		return rapid.IntRange(1, 40).Draw(t, label)
	}
}

func drawScript(t *rapid.T) script {
	var s script
	s.Buf = rapid.SampledFrom([]int{0, 0, 0, 1, 1, 2, 3, 4, 5, 6, 7, 8}).Draw(t, "buffer")
	maxSteps := 6
	if thorough {
		maxSteps = 10
	}
	nSteps := rapid.IntRange(0, maxSteps).Draw(t, "nsteps")
	owed := 0 // sent and not yet received
	for i := 0; i < nSteps; i++ {
		var st stepSpec
		st.Kind = rapid.SampledFrom([]string{"burst", "burst", "recv", "both", "both", "both"}).Draw(t, "kind")
		switch st.Kind {
		case "burst":
			st.N = drawBurst(t, s.Buf, "n")
		case "recv":
			st.K = rapid.IntRange(0, owed).Draw(t, "k")
		case "both":
			st.N = drawBurst(t, s.Buf, "n")
			switch rapid.SampledFrom([]string{"all", "all", "some", "backlog-only"}).Draw(t, "khow") {
			case "all":
				st.K = owed + st.N
			case "some":
				st.K = rapid.IntRange(0, owed+st.N).Draw(t, "k")
			default:
				st.K = owed
			}
			st.PPause = drawPauses(t, st.N, "pp")
			st.CPause = drawPauses(t, st.K, "cp")
		}
		owed += st.N - st.K
		s.Steps = append(s.Steps, st)
	}
	s.End.Kind = rapid.SampledFrom([]string{"drain", "backlog", "mid", "mid"}).Draw(t, "end")
	if s.End.Kind == "mid" {
		s.End.N = rapid.IntRange(2, 40).Draw(t, "endn")
		s.End.J = rapid.IntRange(0, s.End.N-1).Draw(t, "endj")
		if rapid.Bool().Draw(t, "endcons") {
			s.End.K = rapid.IntRange(1, owed+s.End.N).Draw(t, "endk")
		}
		s.End.PPause = drawPauses(t, s.End.N, "epp")
		s.End.CPause = drawPauses(t, s.End.K, "ecp")
	}
	return s
}

// ---- execution inside a bubble ---------------------------------------------------

type runner struct {
	q   *chain.ConcurrentQueue
	buf int

	mu         sync.Mutex
	trace      strings.Builder
	sends      int   // completed sends
	got        []int // received values in order of receipt
	bad        string
	prodActive bool
	peak       int  // largest backlog seen in the current step
	wasOver    bool // backlog exceeded what channel + worker can hold (overflow list in use) in this step
	emptied    bool // ... and was received down to nothing afterwards while the producer was still sending
	flags      map[string]bool

	next    int // next item value
	checked int // prefix of got already verified
	abort   chan struct{}
	wg      sync.WaitGroup
}

func (r *runner) tracef(format string, a ...interface{}) {
	r.mu.Lock()
	fmt.Fprintf(&r.trace, format, a...)
	r.mu.Unlock()
}

// overflowInUse: more items are owed than the output channel plus the worker's
// hand (one item) plus a receive in progress (one item) can hold.
func (r *runner) overflowInUse() bool { return r.sends-len(r.got) > r.buf+2 }

func (r *runner) producer(n int, pause []int, reachAt int, reached chan struct{}) *atomic.Bool {
	fin := new(atomic.Bool)
	first := r.next
	r.next += n
	r.mu.Lock()
	r.prodActive = true
	r.mu.Unlock()
	r.wg.Add(1)
	go func() {
		defer r.wg.Done()
		in := r.q.ChanIn()
		for i := 0; i < n; i++ {
			if reached != nil && i == reachAt {
				close(reached)
			}
			if pause != nil && pause[i] > 0 {
				time.Sleep(time.Duration(pause[i]))
			}
			select {
			case in <- first + i:
				r.mu.Lock()
				r.sends++
				fmt.Fprintf(&r.trace, "s%d ", first+i)
				if b := r.sends - len(r.got); b > r.peak {
					r.peak = b
				}
				if r.overflowInUse() {
					if r.emptied {
						r.flags["overflow-refilled-after-direct-handover"] = true
					}
					r.wasOver = true
				}
				r.mu.Unlock()
			case <-r.abort:
				return
			}
		}
		r.mu.Lock()
		r.prodActive = false
		r.mu.Unlock()
		fin.Store(true)
	}()
	return fin
}

func (r *runner) consumer(k int, pause []int) *atomic.Bool {
	fin := new(atomic.Bool)
	r.wg.Add(1)
	go func() {
		defer r.wg.Done()
		out := r.q.ChanOut()
		for i := 0; i < k; i++ {
			if pause != nil && pause[i] > 0 {
				time.Sleep(time.Duration(pause[i]))
			}
			select {
			case v := <-out:
				r.mu.Lock()
				if r.prodActive && r.overflowInUse() {
					// this item came through the overflow list while the producer is still sending
					r.flags["drained-across-overflow-while-sending"] = true
				}
				r.record(v)
				if r.prodActive && r.wasOver && r.sends == len(r.got) {
					r.emptied = true
					r.flags["overflow-emptied-while-sending"] = true
				}
				r.mu.Unlock()
			case <-r.abort:
				return
			}
		}
		fin.Store(true)
	}()
	return fin
}

// record must be called with r.mu held.
func (r *runner) record(v interface{}) {
	x, ok := v.(int)
	if !ok {
		if r.bad == "" {
			r.bad = fmt.Sprintf("received %#v, which was never sent", v)
		}
		x = -1
	}
	r.got = append(r.got, x)
	fmt.Fprintf(&r.trace, "r%d ", x)
}

// verify: the received sequence is a prefix of the sent sequence 0,1,2,...
func (r *runner) verify() string {
	r.mu.Lock()
	defer r.mu.Unlock()
	if r.bad != "" {
		return r.bad
	}
	for ; r.checked < len(r.got); r.checked++ {
		i, x := r.checked, r.got[r.checked]
		switch {
		case x == i:
		case x >= 0 && x < i:
			return fmt.Sprintf("item %d received again or late at position %d (duplicated or reordered); received so far %v", x, i, r.got)
		case x >= r.next:
			return fmt.Sprintf("received %d, which was never sent, at position %d", x, i)
		default:
			return fmt.Sprintf("position %d of the received sequence is item %d, expected item %d (item %d lost or overtaken); received so far %v", i, x, i, i, r.got)
		}
	}
	if len(r.got) > r.sends {
		return fmt.Sprintf("%d items received but only %d sends completed", len(r.got), r.sends)
	}
	return ""
}

func (r *runner) stepReset() {
	r.mu.Lock()
	r.peak = r.sends - len(r.got)
	r.wasOver = false
	r.emptied = false
	r.mu.Unlock()
}

func (r *runner) counts() (sends, got int) {
	r.mu.Lock()
	defer r.mu.Unlock()
	return r.sends, len(r.got)
}

// settle lets every pause (fake nanoseconds) elapse and then waits until all
// goroutines of the bubble are durably blocked.
func settle() {
	time.Sleep(time.Microsecond)
	synctest.Wait()
}

// run executes the script; it returns the first violation ("" if none).
func (r *runner) run(s script) (violation string) {
	r.q = chain.NewConcurrentQueue(s.Buf)
	r.buf = s.Buf
	r.abort = make(chan struct{})
	r.q.Start()
	stopped := false
	defer func() {
		// leave no goroutine of the harness behind; the queue's worker must
		// have ended through Stop.
		if !stopped {
			r.q.Stop()
		}
		close(r.abort)
		r.wg.Wait()
	}()

	for i, st := range s.Steps {
		r.stepReset()
		s0, g0 := r.counts()
		r.tracef("| %d:%s ", i, st.Kind)
		switch st.Kind {
		case "burst":
			fin := r.producer(st.N, nil, -1, nil)
			// Nobody receives. When everything is durably blocked the
			// producer must have completed every send.
			synctest.Wait()
			if !fin.Load() {
				s1, _ := r.counts()
				return fmt.Sprintf("producer blocked by the absent consumer: step %d sends %d items with nobody receiving, only %d sends completed when all goroutines were durably blocked (buffer %d, %d items were queued before the step)",
					i, st.N, s1-s0, s.Buf, s0-g0)
			}
		case "recv":
			fin := r.consumer(st.K, nil)
			synctest.Wait()
			if !fin.Load() {
				_, g1 := r.counts()
				return fmt.Sprintf("items lost: step %d receives %d of the %d queued items, only %d arrived when all goroutines were durably blocked", i, st.K, s0-g0, g1-g0)
			}
		case "both":
			pf := r.producer(st.N, st.PPause, -1, nil)
			cf := r.consumer(st.K, st.CPause)
			settle()
			s1, g1 := r.counts()
			if !pf.Load() {
				return fmt.Sprintf("producer blocked: step %d sends %d items while a consumer receives %d, only %d sends completed when all goroutines were durably blocked", i, st.N, st.K, s1-s0)
			}
			if !cf.Load() {
				return fmt.Sprintf("items lost: step %d: consumer wants %d of %d available items (%d queued + %d sent), only %d arrived when all goroutines were durably blocked",
					i, st.K, s0-g0+st.N, s0-g0, st.N, g1-g0)
			}
		}
		if v := r.verify(); v != "" {
			return fmt.Sprintf("after step %d: %s", i, v)
		}
		r.mu.Lock()
		if r.peak > s.Buf+2 && st.N > 0 {
			r.flags["burst-exceeded-buffer"] = true
		}
		r.mu.Unlock()
	}

	r.stepReset()
	in, out := r.q.ChanIn(), r.q.ChanOut()
	switch s.End.Kind {
	case "drain":
		s0, g0 := r.counts()
		r.tracef("| drain ")
		fin := r.consumer(s0-g0, nil)
		synctest.Wait()
		if !fin.Load() {
			_, g1 := r.counts()
			return fmt.Sprintf("items lost: %d sends completed, %d received, draining the remaining %d delivered only %d", s0, g0, s0-g0, g1-g0)
		}
		if v := r.verify(); v != "" {
			return "after draining: " + v
		}
		// nothing more may arrive
		synctest.Wait()
		select {
		case v := <-out:
			return fmt.Sprintf("after all %d sent items were received, another item arrived: %v (duplicate)", s0, v)
		default:
		}
		if s1, g1 := r.counts(); g1 != s1 || s1 != r.next {
			return fmt.Sprintf("after draining: %d items offered, %d sends completed, %d received", r.next, s1, g1)
		}
		r.tracef("STOP ")
		r.q.Stop()
		stopped = true
		synctest.Wait()

	case "backlog":
		r.tracef("STOP ")
		r.q.Stop()
		stopped = true
		synctest.Wait()
		r.mu.Lock()
		if r.sends-len(r.got) > 0 {
			r.flags["stop-with-backlog"] = true
		}
		if r.sends-len(r.got) > s.Buf+1 {
			r.flags["stop-with-overflow"] = true
		}
		r.mu.Unlock()

	case "mid":
		s0, _ := r.counts()
		r.tracef("| mid ")
		reached := make(chan struct{})
		r.producer(s.End.N, s.End.PPause, s.End.J, reached)
		if s.End.K > 0 {
			r.consumer(s.End.K, s.End.CPause)
		}
		// Stop as soon as J sends have completed, racing with the remaining ones.
		select {
		case <-reached:
		case <-time.After(time.Second): // fake time: the producer never got that far
			s1, _ := r.counts()
			return fmt.Sprintf("producer blocked: only %d of the first %d sends of the final burst completed although Stop had not been called", s1-s0, s.End.J)
		}
		r.q.Stop()
		stopped = true
		r.tracef("STOP ")
		settle()
		s1, _ := r.counts()
		if s1-s0 < s.End.N {
			r.mu.Lock()
			r.flags["stop-mid-burst"] = true
			r.mu.Unlock()
		}
	}

	// After Stop the worker is gone: with all goroutines durably blocked, an
	// offered send is not accepted by anybody. Harness goroutines are released
	// first so that only the queue's own worker could accept it.
	close(r.abort)
	r.wg.Wait()
	r.abort = make(chan struct{})
	synctest.Wait()
	for i := 0; i < 2; i++ {
		select {
		case in <- -1000 - i:
			return fmt.Sprintf("Stop did not terminate the worker: a send offered after Stop (all goroutines durably blocked before) was accepted")
		case <-time.After(time.Second): // fake clock
		}
		// free a slot of the output channel: a live worker with a non-empty
		// overflow list would now be in its second select
		select {
		case v := <-out:
			r.mu.Lock()
			r.record(v)
			r.mu.Unlock()
		default:
		}
	}
	// What is left in the output channel is still in order (items in flight at
	// Stop may be gone; nothing is asserted about them).
	for more := true; more; {
		select {
		case v := <-out:
			r.mu.Lock()
			r.record(v)
			r.mu.Unlock()
		default:
			more = false
		}
	}
	if v := r.verify(); v != "" {
		return "after Stop: " + v
	}
	return ""
}

// inBubble runs f inside a fresh synctest bubble. The bubble can only end when
// every goroutine started in it has ended; a queue worker that survives Stop
// makes the runtime panic with a deadlock report, which is turned into the
// verdict it is.
func inBubble(t *testing.T, f func() string) (res string) {
	defer func() {
		if p := recover(); p != nil {
			msg := fmt.Sprintf("goroutines of the queue remain blocked after Stop and after all harness goroutines ended (worker not terminated): %v", p)
			if res != "" {
				res += "; moreover " + msg
			} else {
				res = msg
			}
		}
	}()
	// A goroutine of the queue that neither blocks nor ends (a busy loop, for
	// instance after Stop) keeps synctest.Wait from ever returning. Executions
	// normally take microseconds; one that has not finished after 20 s of real
	// time is reported with the goroutines still alive.
	done := make(chan struct{})
	go func() {
		defer close(done)
		defer func() {
			if p := recover(); p != nil {
				msg := fmt.Sprintf("goroutines of the queue remain blocked after Stop and after all harness goroutines ended (worker not terminated): %v", p)
				if res != "" {
					res += "; moreover " + msg
				} else {
					res = msg
				}
			}
		}()
		synctest.Test(t, func(*testing.T) { res = f() })
	}()
	select {
	case <-done:
		return res
	case <-time.After(bubbleLimit):
		buf := make([]byte, 1<<18)
		n := runtime.Stack(buf, true)
		var keep []string
		for _, gr := range strings.Split(string(buf[:n]), "\n\n") {
			if strings.Contains(gr, "btcwallet/chain") {
				keep = append(keep, gr)
			}
		}
		return fmt.Sprintf("the execution did not come to rest within %v of real time: a goroutine of the queue neither blocks nor terminates (busy loop?)\n%s", bubbleLimit, strings.Join(keep, "\n\n"))
	}
}

var bubbleLimit = 20 * time.Second

func TestC18Queue(t *testing.T) {
	g := evid.G("TestC18Queue")
	reps := 4
	if thorough {
		reps = 8
	}
	rapid.Check(t, func(rt *rapid.T) {
		c := g.Begin()
		defer c.End()
		s := drawScript(rt)
		c.Logf("%s", s.String())

		if s.Buf == 0 {
			c.Class("buffer-0")
		}
		c.Class("end-" + s.End.Kind)
		for _, st := range s.Steps {
			if st.N > s.Buf+1 {
				c.Class("burst-longer-than-buffer")
			}
			c.Class("step-" + st.Kind)
		}

		traces := map[string]bool{}
		for rep := 0; rep < reps; rep++ {
			r := &runner{flags: map[string]bool{}}
			violation := inBubble(t, func() string { return r.run(s) })
			r.mu.Lock()
			trace := r.trace.String()
			flags := r.flags
			r.mu.Unlock()
			c.Logf("run %d: %s", rep, trace)
			traces[trace] = true
			for f := range flags {
				c.Class(f)
			}
			if flags["burst-exceeded-buffer"] && flags["drained-across-overflow-while-sending"] {
				c.NonTrivial()
			}
			if rep == reps-1 && len(traces) > 1 {
				c.Class("runs-took-different-interleavings")
			}
			if violation != "" {
				rt.Fatalf("C18 VIOLATED: %s\nscript:\n%s\nexecuted interleaving (s<i>/r<i> = send/receive of item i completed), run %d:\n%s",
					violation, s.String(), rep, trace)
			}
		}
	})
}

package c18

import (
	"testing"

	"verifharness26/internal/evid"
)

func TestMain(m *testing.M) { evid.Main(m.Run) }

// Package evid collects per-case statistics of a property run and writes them
// to the file named by $VERIF_STATS (one JSON document per test process). The
// driver (/verif/check) merges the documents of all shards into
// /verif/evidence/<ID>.json.
//
// Nothing in here influences a property's verdict; it only measures what the
// generators produced: how many cases, which of them were non-trivial under
// the property's stated rule, how many distinct ones (by a 64-bit fingerprint
// of the rendered case), class counters and a deterministic sample of cases.
package evid

import (
	"encoding/json"
	"fmt"
	"hash/fnv"
	"os"
	"sort"
	"strings"
	"sync"
)

const maxSamples = 6
const maxSampleLen = 6000

type sample struct {
	Key  uint64 `json:"-"`
	Text string `json:"text"`
	NT   bool   `json:"nontrivial"`
}

// Group is the statistics of one property test function.
type Group struct {
	mu       sync.Mutex
	Name     string
	Evals    int64
	NonTriv  int64
	Classes  map[string]int64
	Counters map[string]int64
	Known    map[string]int64 // known-finding id -> times its shape was met (and excluded)
	fps      map[uint64]struct{}
	samples  []sample
	Notes    map[string]struct{}
}

var (
	mu     sync.Mutex
	groups = map[string]*Group{}
)

// G returns (creating on first use) the statistics group for a test.
func G(name string) *Group {
	mu.Lock()
	defer mu.Unlock()
	g, ok := groups[name]
	if !ok {
		g = &Group{Name: name, Classes: map[string]int64{}, Counters: map[string]int64{},
			Known: map[string]int64{}, fps: map[uint64]struct{}{}, Notes: map[string]struct{}{}}
		groups[name] = g
	}
	return g
}

// Case is the record of one generated case.
type Case struct {
	g       *Group
	b       strings.Builder
	classes map[string]struct{}
	nt      bool
	done    bool
	fpOnly  strings.Builder
}

// Begin starts the record of one case.
func (g *Group) Begin() *Case {
	return &Case{g: g, classes: map[string]struct{}{}}
}

// Logf appends a line to the rendered case; the rendering is what is
// fingerprinted and sampled.
func (c *Case) Logf(format string, a ...interface{}) {
	if c.b.Len() < 4*maxSampleLen {
		fmt.Fprintf(&c.b, format, a...)
		c.b.WriteByte('\n')
	} else {
		// keep fingerprinting without keeping the text
		fmt.Fprintf(&c.fpOnly, format, a...)
	}
}

// Class marks the case as belonging to a class (counted once per case).
func (c *Case) Class(name string) { c.classes[name] = struct{}{} }

// Has reports whether the class was set.
func (c *Case) Has(name string) bool { _, ok := c.classes[name]; return ok }

// NonTrivial marks the case as non-trivial under the property's rule.
func (c *Case) NonTrivial() { c.nt = true }

// Text is the rendering so far.
func (c *Case) Text() string { return c.b.String() }

// End closes the record. Safe to call from a defer (also on failure).
func (c *Case) End() {
	if c.done {
		return
	}
	c.done = true
	h := fnv.New64a()
	h.Write([]byte(c.b.String()))
	h.Write([]byte(c.fpOnly.String()))
	fp := h.Sum64()
	g := c.g
	g.mu.Lock()
	defer g.mu.Unlock()
	g.Evals++
	for k := range c.classes {
		g.Classes[k]++
	}
	if c.nt {
		g.NonTriv++
		g.fps[fp] = struct{}{}
	}
	// deterministic "reservoir": keep the samples with the smallest keys,
	// preferring non-trivial ones.
	key := fp
	if !c.nt {
		key |= 1 << 63
	} else {
		key &^= 1 << 63
	}
	if len(g.samples) < maxSamples || key < g.samples[len(g.samples)-1].Key {
		for _, s := range g.samples {
			if s.Key == key {
				return
			}
		}
		txt := c.b.String()
		if len(txt) > maxSampleLen {
			txt = txt[:maxSampleLen] + "\n…(truncated)"
		}
		g.samples = append(g.samples, sample{Key: key, Text: txt, NT: c.nt})
		sort.Slice(g.samples, func(i, j int) bool { return g.samples[i].Key < g.samples[j].Key })
		if len(g.samples) > maxSamples {
			g.samples = g.samples[:maxSamples]
		}
	}
}

// Count adds to a free counter (not per case).
func (g *Group) Count(name string, n int64) {
	g.mu.Lock()
	g.Counters[name] += n
	g.mu.Unlock()
}

// KnownHit records that the shape of a listed known finding was met and
// excluded.
func (g *Group) KnownHit(id string) {
	g.mu.Lock()
	g.Known[id]++
	g.mu.Unlock()
}

// Note records a free-text observation once.
func (g *Group) Note(s string) {
	g.mu.Lock()
	g.Notes[s] = struct{}{}
	g.mu.Unlock()
}

type outGroup struct {
	Name     string           `json:"name"`
	Evals    int64            `json:"evaluations"`
	NonTriv  int64            `json:"nontrivial"`
	Classes  map[string]int64 `json:"classes"`
	Counters map[string]int64 `json:"counters"`
	Known    map[string]int64 `json:"known_hits"`
	FPs      []uint64         `json:"fingerprints"`
	Samples  []sample         `json:"samples"`
	Notes    []string         `json:"notes"`
}

// Flush writes all groups to $VERIF_STATS (no-op when unset).
func Flush() {
	path := os.Getenv("VERIF_STATS")
	if path == "" {
		return
	}
	mu.Lock()
	defer mu.Unlock()
	var out []outGroup
	names := make([]string, 0, len(groups))
	for n := range groups {
		names = append(names, n)
	}
	sort.Strings(names)
	for _, n := range names {
		g := groups[n]
		g.mu.Lock()
		og := outGroup{Name: g.Name, Evals: g.Evals, NonTriv: g.NonTriv, Classes: g.Classes,
			Counters: g.Counters, Known: g.Known, Samples: g.samples}
		for fp := range g.fps {
			og.FPs = append(og.FPs, fp)
		}
		sort.Slice(og.FPs, func(i, j int) bool { return og.FPs[i] < og.FPs[j] })
		for s := range g.Notes {
			og.Notes = append(og.Notes, s)
		}
		sort.Strings(og.Notes)
		g.mu.Unlock()
		out = append(out, og)
	}
	b, err := json.Marshal(out)
	if err != nil {
		fmt.Fprintln(os.Stderr, "evid: marshal:", err)
		return
	}
	if err := os.WriteFile(path, b, 0o644); err != nil {
		fmt.Fprintln(os.Stderr, "evid: write:", err)
	}
}

// Main is the TestMain body shared by all property packages.
func Main(run func() int) {
	code := run()
	Flush()
	os.Exit(code)
}
